use serde_json::{json, Value};
use std::collections::HashMap;
use tensor_chain::distributed_tx::{KeyLock, LockManager, SerializableLockState};

fn now_ms() -> u64 {
    std::time::SystemTime::now().duration_since(std::time::UNIX_EPOCH).map(|d| d.as_millis() as u64).unwrap_or(0)
}

fn kname(v: &Value) -> String {
    format!("k{v}")
}

/// table entries carry `expired: bool` (decided by the checker from the witness clock): expired locks get
/// acquired_at = 0 / timeout = 0, live ones acquired_at = now / timeout = 1 h
fn build(table: &Value) -> LockManager {
    let mut locks = HashMap::new();
    for l in table["locks"].as_array().into_iter().flatten() {
        let expired = l["expired"].as_bool().unwrap_or(false);
        let key = kname(&l["key"]);
        locks.insert(key.clone(), KeyLock {
            key,
            tx_id: l["tx"].as_u64().unwrap_or(0),
            lock_handle: l["handle"].as_u64().unwrap_or(0),
            acquired_at_ms: if expired { 0 } else { now_ms() },
            timeout_ms: if expired { 0 } else { 3_600_000 },
        });
    }
    let mut tx_locks = HashMap::new();
    for t in table["tx_locks"].as_array().into_iter().flatten() {
        tx_locks.insert(t["tx"].as_u64().unwrap_or(0), t["keys"].as_array().into_iter().flatten().map(kname).collect::<Vec<_>>());
    }
    LockManager::from_serializable(SerializableLockState::new(locks, tx_locks, 3_600_000))
}

fn dump(lm: &LockManager) -> Value {
    let s = lm.to_serializable();
    let mut locks: Vec<Value> = s.locks().values().map(|l| json!({"key": l.key, "tx": l.tx_id, "handle": l.lock_handle})).collect();
    locks.sort_by_key(|v| v["key"].as_str().unwrap_or("").to_string());
    let mut txl: Vec<Value> = s.tx_locks().iter().map(|(t, ks)| json!({"tx": t, "keys": ks})).collect();
    txl.sort_by_key(|v| v["tx"].as_u64().unwrap_or(0));
    json!({"locks": locks, "tx_locks": txl})
}


/// K13: one process takes locks and serialises its lock table; a freshly started process restores it and locks another key.
/// Each phase runs in its own child process of this driver so that the process-wide handle counter starts from scratch.
pub fn restart_phase(phase: &str, file: &str, expired_mask: u64) -> Value {
    // bit i of expired_mask: restored lock i is already past its TTL when the new process starts; bit 63..: count in the low byte
    let nlocks = expired_mask & 0xff;
    let expired = |i: u64| (expired_mask >> (8 + i)) & 1 == 1;
    match phase {
        "A" => {
            // handles as a fresh process issues them (1, 2, ...): taken through try_lock, then aged where the witness says so
            let lm = LockManager::new();
            let mut handles = vec![];
            for i in 0..nlocks {
                match lm.try_lock(100 + i, &[format!("old{i}")]) { Ok(h) => handles.push(h), Err(t) => return json!({"error": format!("phase A conflict with {t}")}) }
            }
            let st = lm.to_serializable();
            let mut locks = st.locks().clone();
            for i in 0..nlocks {
                if expired(i) {
                    if let Some(l) = locks.get_mut(&format!("old{i}")) {
                        l.acquired_at_ms = 0;
                        l.timeout_ms = 1;
                    }
                }
            }
            let aged = SerializableLockState::new(locks, st.tx_locks().clone(), 3_600_000);
            let bytes = bitcode::serialize(&aged).unwrap_or_default();
            if let Err(e) = std::fs::write(file, bytes) { return json!({"error": e.to_string()}); }
            json!({"handles": handles})
        },
        _ => {
            let bytes = match std::fs::read(file) { Ok(b) => b, Err(e) => return json!({"error": e.to_string()}) };
            let state: SerializableLockState = match bitcode::deserialize(&bytes) { Ok(s) => s, Err(e) => return json!({"error": format!("{e:?}")}) };
            let old_handles: Vec<u64> = (0..nlocks).filter_map(|i| state.locks().get(&format!("old{i}")).map(|l| l.lock_handle)).collect();
            let lm = LockManager::from_serializable(state);
            let held_before: Vec<bool> = (0..nlocks).map(|i| lm.lock_holder(&format!("old{i}")) == Some(100 + i)).collect();
            let new_handle = match lm.try_lock(999, &["fresh-key".to_string()]) { Ok(h) => h, Err(t) => return json!({"error": format!("phase B conflict with {t}")}) };
            let reused = old_handles.contains(&new_handle);
            // either side finishing releases by handle: the new transaction first ...
            let probe = LockManager::from_serializable(lm.to_serializable());
            probe.release_by_handle(new_handle);
            let held_after: Vec<bool> = (0..nlocks).map(|i| probe.lock_holder(&format!("old{i}")) == Some(100 + i)).collect();
            // ... or a restored transaction finishing late (its lock may have expired meanwhile; it still releases by its handle)
            for h in &old_handles {
                lm.release_by_handle(*h);
            }
            let new_tx_still_holds = lm.lock_holder("fresh-key") == Some(999);
            json!({"new_handle": new_handle, "restored_handles": old_handles, "handle_reused": reused, "restored_locks_held_before": held_before,
                   "restored_locks_held_after_new_tx_release": held_after, "new_tx_holds_after_late_release_of_restored": new_tx_still_holds})
        },
    }
}

fn lock_handle_restart(req: &Value) -> Value {
    let n = req["locks"].as_u64().unwrap_or(1).clamp(1, 4);
    let mut mask = n;
    for (i, e) in req["expired"].as_array().into_iter().flatten().enumerate() {
        if e.as_bool().unwrap_or(false) { mask |= 1 << (8 + i); }
    }
    let dir = std::env::var("VERIF_BUILD").unwrap_or_else(|_| "/verif/.build".into());
    let dir = std::path::PathBuf::from(dir).join("replay-tmp");
    let _ = std::fs::create_dir_all(&dir);
    let file = dir.join(format!("locks-{}-{}.bin", std::process::id(), std::time::SystemTime::now().duration_since(std::time::UNIX_EPOCH).map(|d| d.as_nanos()).unwrap_or(0)));
    let exe = match std::env::current_exe() { Ok(e) => e, Err(e) => return json!({"error": e.to_string()}) };
    let run = |phase: &str| -> Value {
        match std::process::Command::new(&exe).args(["--lock-restart-phase", phase, &file.to_string_lossy(), &mask.to_string()]).output() {
            Ok(o) => serde_json::from_slice(&o.stdout).unwrap_or_else(|_| json!({"error": String::from_utf8_lossy(&o.stderr).to_string()})),
            Err(e) => json!({"error": e.to_string()}),
        }
    };
    let a = run("A");
    let b = run("B");
    let _ = std::fs::remove_file(&file);
    let old: Vec<u64> = a["handles"].as_array().into_iter().flatten().filter_map(Value::as_u64).collect();
    let reused = b["new_handle"].as_u64().is_some_and(|h| old.contains(&h));
    let lost = b["restored_locks_held_before"] != b["restored_locks_held_after_new_tx_release"] || b["new_tx_holds_after_late_release_of_restored"] == json!(false);
    json!({"first_process": a, "restarted_process": b, "handle_reused": reused, "other_transactions_lock_released": lost, "violates": reused && lost})
}

pub fn handle(op: &str, req: &Value) -> Option<Value> {
    if op == "lock_handle_restart" {
        return Some(lock_handle_restart(req));
    }
    Some(match op {
        "lock_manager_step" => {
            let lm = build(&req["table"]);
            let before = dump(&lm);
            let result = match req["lockop"].as_str().unwrap_or("") {
                "try_lock" => {
                    let keys: Vec<String> = req["keys"].as_array().into_iter().flatten().map(kname).collect();
                    match lm.try_lock(req["tx"].as_u64().unwrap_or(0), &keys) {
                        Ok(h) => json!({"ok": h}),
                        Err(t) => json!({"err": t}),
                    }
                },
                "try_lock_with_wait_tracking" => {
                    use tensor_chain::deadlock::WaitForGraph;
                    let g = WaitForGraph::new();
                    let tx = req["tx"].as_u64().unwrap_or(0);
                    // the requester already waits for an outside transaction: a grant must clear that
                    g.add_wait(tx, u64::MAX - 1, None);
                    let keys: Vec<String> = req["keys"].as_array().into_iter().flatten().map(kname).collect();
                    let r = lm.try_lock_with_wait_tracking(tx, &keys, &g, None);
                    let mut waits: Vec<u64> = g.waiting_for(tx).into_iter().collect();
                    waits.sort_unstable();
                    match r {
                        Ok(h) => json!({"ok": h, "waits": waits}),
                        Err(w) => json!({"err": w.blocking_tx_id, "waits": waits}),
                    }
                },
                "serialize_restore" => {
                    // `build` already went through from_serializable once: compare with the table as it was requested
                    let lm2 = LockManager::from_serializable(lm.to_serializable());
                    let mut want: Vec<Value> = req["table"]["locks"].as_array().into_iter().flatten().map(|l| json!({"key": kname(&l["key"]), "tx": l["tx"], "handle": l["handle"]})).collect();
                    want.sort_by_key(|v| v["key"].as_str().unwrap_or("").to_string());
                    let mut wtx: Vec<Value> = req["table"]["tx_locks"].as_array().into_iter().flatten().map(|t| json!({"tx": t["tx"], "keys": t["keys"].as_array().into_iter().flatten().map(kname).collect::<Vec<_>>()})).collect();
                    wtx.sort_by_key(|v| v["tx"].as_u64().unwrap_or(0));
                    return Some(json!({"before": json!({"locks": want, "tx_locks": wtx}), "after": dump(&lm2), "result": null}));
                },
                "release" => { lm.release(req["tx"].as_u64().unwrap_or(0)); json!(null) },
                "release_by_handle" => { lm.release_by_handle(req["handle"].as_u64().unwrap_or(0)); json!(null) },
                "cleanup_expired" => json!({"removed": lm.cleanup_expired()}),
                "lock_holder" => json!({"holder": lm.lock_holder(&kname(&req["key"]))}),
                "release_by_handle_with_wait_cleanup" | "cleanup_expired_with_wait_cleanup" => {
                    // every transaction of the table waits for, and is waited for by, an outside transaction
                    use tensor_chain::deadlock::WaitForGraph;
                    let g = WaitForGraph::new();
                    let txs: Vec<u64> = req["table"]["locks"].as_array().into_iter().flatten().map(|l| l["tx"].as_u64().unwrap_or(0)).collect();
                    for t in &txs {
                        g.add_wait(*t, u64::MAX - 1, None);
                        g.add_wait(u64::MAX - 2, *t, None);
                    }
                    let removed = if req["lockop"].as_str() == Some("release_by_handle_with_wait_cleanup") {
                        lm.release_by_handle_with_wait_cleanup(req["handle"].as_u64().unwrap_or(0), &g);
                        0
                    } else {
                        lm.cleanup_expired_with_wait_cleanup(&g)
                    };
                    let mut still: Vec<u64> = txs.iter().copied().filter(|t| !g.waiting_for(*t).is_empty() || !g.waiting_on(*t).is_empty()).collect();
                    still.sort_unstable();
                    still.dedup();
                    json!({"removed": removed, "still_in_graph": still})
                },
                other => json!({"error": format!("unknown lock op {other}")}),
            };
            json!({"before": before, "after": dump(&lm), "result": result})
        },
        "wait_graph_step" => {
            use tensor_chain::deadlock::WaitForGraph;
            let nodes: Vec<u64> = req["nodes"].as_array().into_iter().flatten().map(|x| x.as_u64().unwrap_or(0)).collect();
            let g = WaitForGraph::new();
            let mut pre: Vec<(u64, u64)> = vec![];
            for e in req["edges"].as_array().into_iter().flatten() {
                let (a, b) = (nodes[e[0].as_u64().unwrap_or(0) as usize], nodes[e[1].as_u64().unwrap_or(0) as usize]);
                g.add_wait(a, b, None);
                pre.push((a, b));
            }
            let (w, h) = (req["w"].as_u64().unwrap_or(0), req["h"].as_u64().unwrap_or(0));
            let gop = req["graph_op"].as_str().unwrap_or("");
            if gop == "detect_cycles" {
                let cycles = g.detect_cycles();
                let valid = cycles.iter().all(|c| !c.is_empty() && (0..c.len()).all(|i| pre.contains(&(c[i], c[(i + 1) % c.len()]))));
                let expect = req["expect"].as_bool().unwrap_or(false);
                return Some(json!({"cycles": cycles, "expected_cycle": expect, "violates": cycles.is_empty() == expect || !valid}));
            }
            if gop == "would_create_cycle" {
                let got = g.would_create_cycle(w, h);
                let expect = req["expect"].as_bool().unwrap_or(false);
                return Some(json!({"would_create_cycle": got, "expected": expect, "violates": got != expect}));
            }
            match gop {
                "add_wait" => g.add_wait(w, h, None),
                "remove_wait" => g.remove_wait(w, h),
                _ => g.remove_transaction(w),
            }
            let mut ids: Vec<u64> = nodes.clone();
            ids.push(w);
            ids.push(h);
            ids.sort_unstable();
            ids.dedup();
            let mut fwd = vec![];
            let mut rev = vec![];
            for a in &ids {
                for b in g.waiting_for(*a) { fwd.push((*a, b)); }
                for b in g.waiting_on(*a) { rev.push((b, *a)); }
            }
            fwd.sort_unstable();
            rev.sort_unstable();
            let mut expect: Vec<(u64, u64)> = match gop {
                "add_wait" => { let mut e = pre.clone(); if w != h { e.push((w, h)); } e },
                "remove_wait" => pre.iter().copied().filter(|e| *e != (w, h)).collect(),
                _ => pre.iter().copied().filter(|e| e.0 != w && e.1 != w).collect(),
            };
            expect.sort_unstable();
            expect.dedup();
            let remnant = gop == "remove_transaction" && (g.get_wait_start(w).is_some() || g.get_priority(w).is_some());
            json!({"forward": fwd, "reverse": rev, "expected": expect, "violates": fwd != rev || fwd != expect || remnant})
        },
        _ => return None,
    })
}
