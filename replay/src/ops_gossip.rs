use serde_json::{json, Value};
use tensor_chain::gossip::{GossipNodeState, LWWMembershipState};
use tensor_chain::membership::NodeHealth;

fn health(d: i64) -> NodeHealth {
    match d {
        0 => NodeHealth::Healthy,
        1 => NodeHealth::Degraded,
        2 => NodeHealth::Failed,
        _ => NodeHealth::Unknown,
    }
}

fn hnum(h: NodeHealth) -> i64 {
    match h {
        NodeHealth::Healthy => 0,
        NodeHealth::Degraded => 1,
        NodeHealth::Failed => 2,
        _ => 3,
    }
}

fn state(v: &Value, default_id: &str) -> GossipNodeState {
    let id = v.get("id").map_or_else(|| default_id.to_string(), |x| format!("n{x}"));
    GossipNodeState::with_wall_time(
        id,
        health(v["health"].as_i64().unwrap_or(3)),
        v["ts"].as_u64().unwrap_or(0),
        v["inc"].as_u64().unwrap_or(0),
        0,
    )
}

fn view(s: &LWWMembershipState) -> Vec<(String, i64, u64)> {
    let mut v: Vec<_> = s.all_states().map(|g| (g.node_id.clone(), hnum(g.health), g.incarnation)).collect();
    v.sort();
    v
}

/// pre: {"S.1": clock, "S.0.k0": id, "S.0.v0.1.disc": health, "S.0.v0.2": ts, "S.0.v0.4": inc, ...}
fn build_pre(pre: &Value) -> LWWMembershipState {
    let mut s = LWWMembershipState::new();
    let mut n = 0;
    let mut entries = Vec::new();
    while let Some(k) = pre.get(format!("S.0.k{n}")) {
        let g = GossipNodeState::with_wall_time(
            format!("n{k}"),
            health(pre.get(format!("S.0.v{n}.1.disc")).and_then(Value::as_i64).unwrap_or(3)),
            pre.get(format!("S.0.v{n}.2")).and_then(Value::as_u64).unwrap_or(0),
            pre.get(format!("S.0.v{n}.4")).and_then(Value::as_u64).unwrap_or(0),
            0,
        );
        entries.push(g);
        n += 1;
    }
    // merging into an empty view inserts every entry verbatim
    let _ = s.merge(&entries);
    s
}

pub fn handle(op: &str, req: &Value) -> Option<Value> {
    Some(match op {
        "gossip_supersedes" => {
            let a = state(&req["states"]["a"], "x");
            let b = state(&req["states"]["b"], "x");
            let c = state(&req["states"]["c"], "x");
            json!({"ok": true, "ab": a.supersedes(&b), "ba": b.supersedes(&a), "bc": b.supersedes(&c),
                   "ac": a.supersedes(&c), "aa": a.supersedes(&a)})
        },
        "gossip_merge_schedules" => {
            let ups: Vec<GossipNodeState> = req["updates"].as_array().map(|a| a.iter().map(|u| state(u, "x")).collect()).unwrap_or_default();
            let run = |sched: &Value| {
                let mut s = build_pre(&req["pre"]);
                for batch in sched.as_array().into_iter().flatten() {
                    let b: Vec<GossipNodeState> = batch.as_array().into_iter().flatten()
                        .map(|i| ups[i.as_u64().unwrap_or(0) as usize].clone()).collect();
                    let _ = s.merge(&b);
                }
                view(&s)
            };
            let va = run(&req["a"]);
            let vb = run(&req["b"]);
            json!({"equal": va == vb, "view_a": va, "view_b": vb})
        },
        // one local operation from a view built by merging `pre` into an empty state; observes clock and incarnations
        "gossip_suspect_alive" => {
            let pre = &req["pre"];
            let id = format!("n{}", pre.get("arg_id").cloned().unwrap_or(Value::Null));
            let a = pre.get("arg_inc").and_then(Value::as_u64).unwrap_or(0);
            let b = pre.get("arg_inc2").and_then(Value::as_u64).unwrap_or(0);
            let mut s1 = build_pre(pre);
            let mut s2 = build_pre(pre);
            s1.suspect(&id, a);
            s1.refute(&id, b);
            s2.refute(&id, b);
            s2.suspect(&id, a);
            let (v1, v2) = (view(&s1), view(&s2));
            json!({"suspect_first": v1, "alive_first": v2, "differ": v1 != v2})
        },
        "gossip_local_op" => {
            let pre = &req["pre"];
            let mut s = build_pre(pre);
            // bring the logical clock to the witness value where possible (sync_time(x) sets max(clock, x) + 1)
            if let Some(c) = pre.get("S.1").and_then(Value::as_u64) {
                if c > s.lamport_time() + 1 { s.sync_time(c - 1); }
            }
            let clock0 = s.lamport_time();
            let before: Vec<(String, i64, u64)> = view(&s);
            let id = format!("n{}", pre.get("arg_id").cloned().unwrap_or(Value::Null));
            let inc = pre.get("arg_inc").and_then(Value::as_u64).unwrap_or(0);
            let changed = match req["gop"].as_str().unwrap_or("") {
                "suspect" => s.suspect(&id, inc),
                "fail" => s.fail(&id),
                "refute" => s.refute(&id, inc),
                "mark_healthy" => s.mark_healthy(&id),
                "tick" => { s.tick(); true },
                "sync_time" => { s.sync_time(pre.get("arg_ts").and_then(Value::as_u64).unwrap_or(0)); true },
                _ => {
                    let ups: Vec<GossipNodeState> = (0..4).filter_map(|i| {
                        let idv = pre.get(format!("u{i}.0"))?;
                        Some(GossipNodeState::with_wall_time(format!("n{idv}"), health(pre.get(format!("u{i}.1.disc")).and_then(Value::as_i64).unwrap_or(3)),
                            pre.get(format!("u{i}.2")).and_then(Value::as_u64).unwrap_or(0), pre.get(format!("u{i}.4")).and_then(Value::as_u64).unwrap_or(0), 0))
                    }).collect();
                    !s.merge(&ups).is_empty()
                },
            };
            let after = view(&s);
            let mut regress = s.lamport_time() < clock0;
            for (k, _, i0) in &before {
                match after.iter().find(|a| &a.0 == k) {
                    Some(a) if a.2 >= *i0 => {},
                    _ => regress = true,
                }
            }
            let inc_changed = before.iter().any(|(k, _, i0)| after.iter().find(|a| &a.0 == k).map_or(true, |a| a.2 != *i0));
            json!({"changed": changed, "before": before, "after": after, "clock_before": clock0, "clock_after": s.lamport_time(),
                   "regress": regress, "incarnation_changed": inc_changed})
        },
        _ => return None,
    })
}
