//! C16: Chain::append / verify_chain through the public API with real hashes and Ed25519 signatures.
use graph_engine::GraphEngine;
use serde_json::{json, Value};
use std::sync::Arc;
use tensor_chain::signing::{Identity, ValidatorRegistry};
use tensor_chain::{Block, Chain, Transaction};
use tensor_store::{ScalarValue, TensorData, TensorValue};

fn setup(registry: bool, blocks: u64) -> (Chain, Arc<GraphEngine>, Identity) {
    let graph = Arc::new(GraphEngine::new());
    let id = Identity::generate();
    let chain = if registry {
        let reg = ValidatorRegistry::new();
        reg.register(&id);
        Chain::with_registry(graph.clone(), id.node_id(), Arc::new(reg))
    } else {
        Chain::new(graph.clone(), id.node_id())
    };
    chain.initialize().unwrap();
    for i in 0..blocks {
        let b = chain.new_block().add_transaction(Transaction::Put { key: format!("k{i}"), data: vec![i as u8] }).sign_and_build(&id);
        chain.append(b).unwrap();
    }
    (chain, graph, id)
}

fn restore(graph: &GraphEngine, h: u64, b: &Block) {
    let mut d = TensorData::new();
    d.set("_block", TensorValue::Scalar(ScalarValue::Bytes(bitcode::serialize(b).unwrap())));
    let _ = graph.store().put(format!("chain:block:{h}"), d);
}

/// B4: two workspaces on different keys; the second one's whole commit runs inside the first one's window between building
/// its block and appending it (schedule hook).  Afterwards every block in the chain must have its writes in the store.
fn commit_race(_req: &Value) -> Value {
    use std::sync::mpsc;
    use std::sync::atomic::{AtomicBool, Ordering};
    use tensor_chain::TensorChain;
    let tc = Arc::new(TensorChain::new(tensor_store::TensorStore::new(), "n1"));
    if let Err(e) = tc.initialize() { return json!({"error": e.to_string()}); }
    let (wa, wb) = match (tc.begin(), tc.begin()) { (Ok(a), Ok(b)) => (a, b), _ => return json!({"error": "begin failed"}) };
    let _ = wa.add_operation(Transaction::Put { key: "ka".into(), data: vec![1] });
    let _ = wb.add_operation(Transaction::Put { key: "kb".into(), data: vec![2] });
    let slot: Arc<std::sync::Mutex<Option<std::thread::JoinHandle<Result<String, String>>>>> = Arc::new(std::sync::Mutex::new(None));
    let fired = Arc::new(AtomicBool::new(false));
    let main_thread = std::thread::current().id();
    let (tc2, wb2, slot2, fired2) = (tc.clone(), wb.clone(), slot.clone(), fired.clone());
    *tensor_chain::VERIF_COMMIT_WINDOW.write() = Some(Arc::new(move || {
        if std::thread::current().id() != main_thread || fired2.swap(true, Ordering::SeqCst) {
            return;
        }
        let (tx, rx) = mpsc::channel();
        let (tc3, wb3) = (tc2.clone(), wb2.clone());
        let h = std::thread::spawn(move || {
            let r = tc3.commit(&wb3).map(|h| format!("{:02x?}", &h[..4])).map_err(|e| e.to_string());
            let _ = tx.send(());
            r
        });
        let _ = rx.recv_timeout(std::time::Duration::from_millis(300));
        *slot2.lock().unwrap() = Some(h);
    }));
    let ra = tc.commit(&wa).map(|h| format!("{:02x?}", &h[..4])).map_err(|e| e.to_string());
    *tensor_chain::VERIF_COMMIT_WINDOW.write() = None;
    let rb = slot.lock().unwrap().take().map(|h| h.join().unwrap_or_else(|_| Err("panicked".into())));
    // what the chain says was committed vs what the store holds
    let mut committed: Vec<String> = vec![];
    for h in 1..=tc.height() {
        if let Ok(Some(b)) = tc.get_block(h) {
            for t in &b.transactions { committed.push(t.affected_key().to_string()); }
        }
    }
    let missing: Vec<String> = committed.iter().filter(|k| !tc.store().exists(k)).cloned().collect();
    let stray: Vec<&str> = ["ka", "kb"].into_iter().filter(|k| tc.store().exists(k) && !committed.iter().any(|c| c == k)).collect();
    // a commit that returned Ok must be in the chain with its write in the store
    let mut lost: Vec<&str> = vec![];
    if ra.is_ok() && !(committed.iter().any(|k| k == "ka") && tc.store().exists("ka")) { lost.push("ka"); }
    if matches!(rb, Some(Ok(_))) && !(committed.iter().any(|k| k == "kb") && tc.store().exists("kb")) { lost.push("kb"); }
    let verify = tc.verify().map_err(|e| e.to_string());
    json!({"first_commit": ra, "second_commit": rb, "height": tc.height(), "keys_in_blocks": committed, "committed_keys_missing_from_store": missing, "stored_keys_of_failed_commits": stray,
           "successful_commits_not_in_chain_and_store": lost, "verify": verify.clone(), "violates": !missing.is_empty() || !stray.is_empty() || !lost.is_empty() || verify.is_err()})
}

/// B5: a replica applies a block whose header carries the right or a wrong state root.
fn replica_apply(req: &Value) -> Value {
    use tensor_chain::{compute_state_root, MemoryTransport, RaftConfig, RaftNode, TensorStateMachine};
    let store = tensor_store::TensorStore::new();
    let graph = Arc::new(GraphEngine::with_store(store.clone()));
    let id = Identity::generate();
    let chain = Arc::new(Chain::new(graph, id.node_id()));
    if let Err(e) = chain.initialize() { return json!({"error": e.to_string()}); }
    let t: Arc<MemoryTransport> = Arc::new(MemoryTransport::new("r1".to_string()));
    let raft = Arc::new(RaftNode::new("r1".to_string(), vec!["r2".into()], t, RaftConfig::default()));
    let sm = TensorStateMachine::new(chain.clone(), raft, store.clone());
    // fast path: a first, correct block with an embedding makes the next block with the same embedding take append_fast
    let fast = req["fast_path"].as_bool().unwrap_or(false);
    let emb = [1.0f32, 0.0, 0.0, 0.0];
    let root_after = |tx: &Transaction| -> Option<[u8; 32]> {
        let pre = store.snapshot_bytes().ok()?;
        let _ = tensor_chain::transaction::apply_transaction_to_store(&store, tx);
        let r = compute_state_root(&store).ok();
        let _ = store.restore_from_bytes(&pre);
        r
    };
    if fast {
        let tx0 = Transaction::Put { key: "rk0".into(), data: vec![1] };
        let Some(r0) = root_after(&tx0) else { return json!({"error": "root"}) };
        let b0 = chain.new_block().add_transaction(tx0).with_dense_embedding(&emb).with_state_root(r0).sign_and_build(&id);
        if let Err(e) = sm.apply_block(&b0) { return json!({"error": format!("first block: {e}")}); }
    }
    let tx = Transaction::Put { key: "rk".into(), data: vec![7] };
    // the root a correct proposer records: the one this store has after the transaction (computed here, then undone)
    let Some(mut root) = root_after(&tx) else { return json!({"error": "root"}) };
    let matches = req["root_matches"].as_bool().unwrap_or(true);
    if !matches {
        let at: Vec<usize> = req["differs_at"].as_array().map(|a| a.iter().filter_map(|x| x.as_u64().map(|i| i as usize % 32)).collect()).unwrap_or_default();
        if at.is_empty() { root[0] ^= 1; }
        for i in at { root[i] ^= 1; }
    }
    let h0 = chain.height();
    let mut bld = chain.new_block().add_transaction(tx);
    if fast { bld = bld.with_dense_embedding(&emb); }
    let block = bld.with_state_root(root).sign_and_build(&id);
    let r = sm.apply_block(&block);
    let applied = store.exists("rk");
    json!({"root_matches": matches, "result": r.as_ref().map(|()| "Ok").map_err(|e| e.to_string()), "write_in_store": applied, "height": chain.height(),
           "violates": (r.is_ok() && !matches) || (r.is_err() && applied) || (matches && r.is_ok() && (!applied || chain.height() != h0 + 1))})
}

/// B4: a commit that is refused at the append (its proposer is no longer a registered validator) after another workspace
/// committed: chain and store must be as they were before the refused commit.
fn commit_refused(_req: &Value) -> Value {
    use tensor_chain::{ChainConfig, TensorChain};
    let tc = TensorChain::with_config(tensor_store::TensorStore::new(), ChainConfig::new("node1").with_auto_merge(false));
    if let Err(e) = tc.initialize() { return json!({"error": e.to_string()}); }
    let put = |k: &str, b: u8| Transaction::Put { key: k.to_string(), data: vec![b] };
    let setup = tc.begin().unwrap();
    let _ = setup.add_operation(put("setup", 0));
    if let Err(e) = tc.commit(&setup) { return json!({"error": format!("setup commit: {e}")}); }
    let wa = tc.begin().unwrap();
    let _ = wa.add_operation(put("key_a", 0xA));
    let wb = tc.begin().unwrap();
    let _ = wb.add_operation(put("key_b", 0xB));
    let rb = tc.commit(&wb);
    let me = tc.node_id().clone();
    let _ = tc.validator_registry().remove(&me);
    let ra = tc.commit(&wa);
    tc.register_validator(tc.identity());
    let mut bad: Vec<String> = vec![];
    if rb.is_ok() && !tc.store().exists("key_b") { bad.push("the refused commit wiped the committed write of the other workspace".into()); }
    if rb.is_ok() && !matches!(tc.get_block(2), Ok(Some(_))) { bad.push("the other workspace's block is gone".into()); }
    if ra.is_err() && tc.store().exists("key_a") { bad.push("the refused commit left its write in the store".into()); }
    if !tc.store().exists("setup") { bad.push("the setup write is gone".into()); }
    if let Err(e) = tc.verify() { bad.push(format!("verify: {e}")); }
    json!({"other_commit": rb.map(|_| "Ok").map_err(|e| e.to_string()), "refused_commit": ra.map(|_| "Ok").map_err(|e| e.to_string()), "height": tc.height(), "problems": bad, "violates": !bad.is_empty()})
}

pub fn handle(op: &str, req: &Value) -> Option<Value> {
    if op == "chain_commit_refused" {
        return Some(commit_refused(req));
    }
    if op == "chain_replica_apply" {
        return Some(replica_apply(req));
    }
    if op == "chain_commit_race" {
        return Some(commit_race(req));
    }
    if op != "chain_step" {
        return None;
    }
    let registry = req["registry"].as_bool().unwrap_or(false);
    Some(match req["chain_op"].as_str().unwrap_or("") {
        "append" => {
            let h0 = req["height"].as_u64().unwrap_or(0).min(3);
            let (chain, _g, id) = setup(registry, h0);
            let ntx = req["ntx"].as_u64().unwrap_or(0);
            let mut bld = chain.new_block();
            for i in 0..ntx {
                bld = bld.add_transaction(Transaction::Put { key: format!("c{i}"), data: vec![9] });
            }
            let mut b = bld.sign_and_build(&id);
            let flag = |k: &str| req[k].as_bool().unwrap_or(true);
            if !flag("height_ok") { b.header.height += 1; }
            if !flag("prev_matches_tip") { b.header.prev_hash[0] ^= 1; }
            if flag("root_zero") { b.header.tx_root = [0u8; 32]; } else if !flag("root_matches") { b.header.tx_root[0] ^= 1; }
            // re-sign after the header edits unless the witness wants a bad / missing signature
            if !flag("signed") {
                b.header.signature.clear();
            } else if !flag("sig_ok") {
                b.header.signature = vec![7u8; 64];
            } else {
                b.header.signature = id.sign(&b.header.signing_bytes());
            }
            let (hb, tb) = (chain.height(), chain.tip_hash());
            let bh = b.hash();
            let r = chain.append(b);
            let accepted = r.is_ok();
            let new_h = h0 + 1;
            let root_fine = if flag("root_zero") { ntx > 0 || true } else { flag("root_matches") };
            let root_fine = if flag("root_zero") && ntx == 0 { true } else { root_fine };
            let expect = flag("height_ok") && flag("prev_matches_tip") && root_fine
                && (new_h <= 1 || (flag("signed") && (!registry || flag("sig_ok"))));
            let state_ok = if accepted { chain.height() == hb + 1 && chain.tip_hash() == bh && chain.get_block_at(hb + 1).ok().flatten().is_some() }
                           else { chain.height() == hb && chain.tip_hash() == tb && chain.get_block_at(hb + 1).ok().flatten().is_none() };
            json!({"accepted": accepted, "expected": expect, "state_ok": state_ok, "error": r.err().map(|e| e.to_string()), "violates": accepted != expect || !state_ok})
        },
        "merkle" => {
            // a signed block carrying list1 is appended through the public API; its stored record is then replaced by the same
            // header with list2 as transactions.  With validator keys registered verify_chain must refuse unless the lists agree.
            let idxs = |k: &str| -> Vec<u64> { req[k].as_array().map(|a| a.iter().filter_map(Value::as_u64).collect()).unwrap_or_default() };
            let (l1, l2) = (idxs("list1"), idxs("list2"));
            let tx = |i: &u64| Transaction::Put { key: format!("m{i}"), data: vec![*i as u8] };
            let (chain, graph, id) = setup(true, 0);
            let mut bld = chain.new_block();
            for i in &l1 {
                bld = bld.add_transaction(tx(i));
            }
            let b = bld.sign_and_build(&id);
            let appended = chain.append(b).is_ok();
            let before = chain.verify_chain().is_ok();
            let mut stored = chain.get_block_at(1).ok().flatten().unwrap();
            stored.transactions = l2.iter().map(tx).collect();
            restore(&graph, 1, &stored);
            let read_back = chain.get_block_at(1).ok().flatten().map(|b| b.transactions.len());
            let after = chain.verify_chain().is_ok();
            json!({"appended": appended, "verify_before": before, "verify_after_alteration": after, "stored_transactions": read_back, "altered": l1 != l2,
                   "violates": appended && before && l1 != l2 && after})
        },
        _ => {
            let n = req["blocks"].as_u64().unwrap_or(1).min(4);
            let (chain, graph, _id) = setup(registry, n);
            let mut expect = true;
            if let Some(m) = req["missing"].as_u64() {
                let _ = graph.store().delete(&format!("chain:block:{m}"));
                expect = false;
            }
            for (i, l) in req["links"].as_array().into_iter().flatten().enumerate() {
                let h = i as u64 + 1;
                if req["missing"].as_u64() == Some(h) { continue; }
                let Some(mut b) = chain.get_block_at(h).ok().flatten() else { continue };
                let f = |k: &str| l[k].as_bool().unwrap_or(true);
                let mut touched = false;
                if !f("height_ok") { b.header.height += 1; touched = true; }
                if !f("prev_ok") { b.header.prev_hash[0] ^= 1; touched = true; }
                if !f("root_ok") { b.header.tx_root[0] ^= 1; touched = true; }
                if !f("ts_ok") {
                    let prev_ts = chain.get_block_at(h - 1).ok().flatten().map_or(0, |p| p.header.timestamp);
                    b.header.timestamp = prev_ts.saturating_sub(l["ts_behind"].as_u64().unwrap_or(1).max(1));
                    touched = true;
                }
                if registry && !f("sig_ok") { b.header.signature = vec![7u8; 64]; touched = true; }
                if touched {
                    restore(&graph, h, &b);
                    // any edit of a signed field also invalidates the signature when keys are registered; without keys an
                    // edit of the height of block h also breaks the link of block h+1 only through its own flags
                    expect = false;
                }
            }
            let ok = chain.verify_chain().is_ok();
            json!({"verify_ok": ok, "expected": expect, "violates": ok != expect})
        },
    })
}
