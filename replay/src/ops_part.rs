//! TxParticipant driven step by step through its public API (C03, participant half).
use serde_json::{json, Value};
use std::time::Duration;
use tensor_chain::distributed_tx::{PrepareRequest, PrepareVote, TxParticipant};
use tensor_chain::Transaction;
use tensor_store::{ScalarValue, SparseVector, TensorData, TensorStore, TensorValue};

fn read(store: &TensorStore, key: &str) -> Value {
    match store.get(key) {
        Ok(d) => match d.get("data") {
            Some(TensorValue::Scalar(ScalarValue::Bytes(b))) => json!(b),
            _ => json!("other"),
        },
        Err(_) => Value::Null,
    }
}

pub fn handle(op: &str, req: &Value) -> Option<Value> {
    if op != "participant_steps" {
        return None;
    }
    // steps: {"do":"seed","key":k,"val":[..]} | {"do":"prepare","tx":n,"puts":[[k,[..]],..]} | {"do":"commit"|"abort","tx":n} | {"do":"sleep","ms":n}
    let store = TensorStore::new();
    let mut p = TxParticipant::new(store);
    if let Some(ms) = req["lock_timeout_ms"].as_u64() {
        p.locks.default_timeout = Duration::from_millis(ms);
    }
    let watch: Vec<String> = req["watch"].as_array().into_iter().flatten().filter_map(|k| k.as_str().map(String::from)).collect();
    let mut trace = vec![];
    for s in req["steps"].as_array().into_iter().flatten() {
        let what = s["do"].as_str().unwrap_or("");
        let outcome = match what {
            "seed" => {
                let mut t = TensorData::new();
                let bytes: Vec<u8> = s["val"].as_array().into_iter().flatten().map(|b| b.as_u64().unwrap_or(0) as u8).collect();
                t.set("data", TensorValue::Scalar(ScalarValue::Bytes(bytes)));
                json!(p.store().put(s["key"].as_str().unwrap_or("k"), t).is_ok())
            },
            "prepare" => {
                let mut ops: Vec<Transaction> = s["puts"].as_array().into_iter().flatten().map(|kv| Transaction::Put {
                    key: kv[0].as_str().unwrap_or("k").to_string(),
                    data: kv[1].as_array().into_iter().flatten().map(|b| b.as_u64().unwrap_or(0) as u8).collect(),
                }).collect();
                ops.extend(s["dels"].as_array().into_iter().flatten().map(|k| Transaction::Delete { key: k.as_str().unwrap_or("k").to_string() }));
                let r = PrepareRequest { tx_id: s["tx"].as_u64().unwrap_or(1), coordinator: "c".into(), operations: ops,
                    delta_embedding: SparseVector::new(0), timeout_ms: 5000 };
                match p.prepare(r) {
                    PrepareVote::Yes { lock_handle, .. } => json!({"vote": "yes", "handle": lock_handle}),
                    PrepareVote::Conflict { conflicting_tx, .. } => json!({"vote": "conflict", "with": conflicting_tx}),
                    _ => json!({"vote": "no"}),
                }
            },
            "commit" => json!(p.commit(s["tx"].as_u64().unwrap_or(1)).success),
            "abort" => json!(p.abort(s["tx"].as_u64().unwrap_or(1)).success),
            "sleep" => {
                std::thread::sleep(Duration::from_millis(s["ms"].as_u64().unwrap_or(1)));
                json!(true)
            },
            _ => json!("unknown step"),
        };
        let vals: Vec<Value> = watch.iter().map(|k| read(p.store(), k)).collect();
        trace.push(json!({"step": s, "outcome": outcome, "store": vals, "prepared": p.prepared_count(), "locks": p.locks.active_lock_count()}));
    }
    Some(json!({"trace": trace}))
}
