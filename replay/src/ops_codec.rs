use crate::{bytes, u64s};
use serde_json::{json, Value};

pub fn handle(op: &str, req: &Value) -> Option<Value> {
    Some(match op {
        "ping" => json!({"ok": true}),
        "varint_encode" => json!({"out": tensor_compress::varint_encode(&u64s(&req["vals"]))}),
        "varint_decode" => json!({"out": tensor_compress::varint_decode(&bytes(&req["bytes"]))}),
        "delta_encode" => json!({"out": tensor_compress::delta_encode(&u64s(&req["vals"]))}),
        "delta_decode" => json!({"out": tensor_compress::delta_decode(&u64s(&req["vals"]))}),
        "compress_ids" => json!({"out": tensor_compress::compress_ids(&u64s(&req["vals"]))}),
        "decompress_ids" => json!({"out": tensor_compress::decompress_ids(&bytes(&req["bytes"]))}),
        "ids_roundtrip" => {
            let v = u64s(&req["vals"]);
            let enc = tensor_compress::compress_ids(&v);
            let dec = tensor_compress::decompress_ids(&enc);
            json!({"enc": enc, "dec": dec, "equal": dec == v})
        },
        "rle_roundtrip_u8" => {
            let v = bytes(&req["vals"]);
            let e = tensor_compress::rle_encode(&v);
            let d = tensor_compress::rle_decode(&e);
            json!({"values": e.values, "runs": e.run_lengths, "dec": d, "equal": d == v})
        },
        "rle_roundtrip_i64" => {
            let v: Vec<i64> = req["vals"].as_array().map(|a| a.iter().map(|x| x.as_i64().unwrap_or(0)).collect()).unwrap_or_default();
            let e = tensor_compress::rle_encode(&v);
            let d = tensor_compress::rle_decode(&e);
            json!({"values": e.values, "runs": e.run_lengths, "dec": d, "equal": d == v})
        },
        _ => return None,
    })
}
