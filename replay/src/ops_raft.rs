use serde_json::{json, Value};
use std::sync::Arc;
use tensor_chain::block::Block;
use tensor_chain::network::{AppendEntries, AppendEntriesResponse, LogEntry, MemoryTransport, Message, RequestVote, RequestVoteResponse};
use tensor_chain::raft::{RaftConfig, RaftNode, RaftState};
use tensor_store::SparseVector;

fn sid(v: &Value) -> String {
    match v {
        Value::String(s) => s.clone(),
        Value::Null => "none".into(),
        other => format!("n{other}"),
    }
}

fn entries(v: &Value, first_index: u64) -> Vec<LogEntry> {
    v.as_array()
        .map(|a| a.iter().enumerate().map(|(i, t)| LogEntry::new(t.as_u64().unwrap_or(0), first_index + i as u64, Block::default())).collect())
        .unwrap_or_default()
}

fn role(r: RaftState) -> i64 {
    match r {
        RaftState::Follower => 0,
        RaftState::Candidate => 1,
        RaftState::Leader => 2,
        _ => 9,
    }
}

fn snapshot(n: &RaftNode) -> Value {
    let (log, vote) = n.verif_log_and_vote();
    json!({"log": log, "voted_for": vote, "term": n.current_term(), "commit_index": n.commit_index(), "log_length": n.log_length(),
           "last_log_term": n.last_log_term(), "last_log_index": n.last_log_index(), "role": role(n.state()), "leader": n.current_leader()})
}

fn build(req: &Value) -> RaftNode {
    let pre = &req["pre"];
    let id = format!("self{}", pre["node_id"]);
    let peers: Vec<String> = req["peers"].as_array().map(|a| a.iter().map(sid).collect()).unwrap_or_else(|| vec!["p1".into(), "p2".into()]);
    let mut cfg = RaftConfig::default();
    if let Some(b) = req["config"]["enable_fast_path"].as_bool() { cfg.enable_fast_path = b; }
    if let Some(b) = req["config"]["enable_geometric_tiebreak"].as_bool() { cfg.enable_geometric_tiebreak = b; }
    if let Some(b) = req["config"]["enable_pre_vote"].as_bool() { cfg.enable_pre_vote = b; }
    cfg.auto_heartbeat = false;
    let voted = if pre["voted_for"].is_null() { None } else { Some(sid(&pre["voted_for"])) };
    let log = entries(&pre["log_terms"], 1);
    let t: Arc<MemoryTransport> = Arc::new(MemoryTransport::new(id.clone()));
    let node = RaftNode::with_state(id, peers, t, cfg, pre["term"].as_u64().unwrap_or(0), voted, log);
    // bring commit_index to the requested pre-value with a heartbeat from a leader of the node's own term
    let want = pre["commit_index"].as_u64().unwrap_or(0);
    if want > 0 {
        let n = node.log_length() as u64;
        let hb = AppendEntries { term: node.current_term(), leader_id: "setup-leader".into(), prev_log_index: n,
            prev_log_term: node.last_log_term(), entries: vec![], leader_commit: want, block_embedding: None };
        let _ = node.handle_message(&"setup-leader".to_string(), &Message::AppendEntries(hb));
    }
    node
}

pub fn handle(op: &str, req: &Value) -> Option<Value> {
    Some(match op {
        "raft_append_entries" => {
            let node = build(req);
            let before = snapshot(&node);
            let ae = &req["ae"];
            let prev = ae["prev_log_index"].as_u64().unwrap_or(0);
            let msg = AppendEntries { term: ae["term"].as_u64().unwrap_or(0), leader_id: sid(&ae["leader"]), prev_log_index: prev,
                prev_log_term: ae["prev_log_term"].as_u64().unwrap_or(0), entries: entries(&ae["entry_terms"], prev + 1),
                leader_commit: ae["leader_commit"].as_u64().unwrap_or(0), block_embedding: None };
            let k = msg.entries.len() as u64;
            let resp = node.handle_message(&sid(&ae["leader"]), &Message::AppendEntries(msg));
            let r = match resp {
                Some(Message::AppendEntriesResponse(AppendEntriesResponse { term, success, match_index, .. })) =>
                    json!({"term": term, "success": success, "match_index": match_index}),
                _ => json!(null),
            };
            json!({"before": before, "after": snapshot(&node), "response": r, "sent_upto": prev + k})
        },
        "raft_request_vote" => {
            let node = build(req);
            let before = snapshot(&node);
            let rv = &req["rv"];
            let msg = RequestVote { term: rv["term"].as_u64().unwrap_or(0), candidate_id: sid(&rv["candidate"]),
                last_log_index: rv["last_log_index"].as_u64().unwrap_or(0), last_log_term: rv["last_log_term"].as_u64().unwrap_or(0),
                state_embedding: SparseVector::new(0) };
            let resp = node.handle_message(&sid(&rv["candidate"]), &Message::RequestVote(msg));
            let r = match resp {
                Some(Message::RequestVoteResponse(RequestVoteResponse { term, vote_granted, .. })) => json!({"term": term, "vote_granted": vote_granted}),
                _ => json!(null),
            };
            // a second, different candidate in the same term must be refused after a grant
            let msg2 = RequestVote { term: rv["term"].as_u64().unwrap_or(0), candidate_id: "other-candidate".into(),
                last_log_index: u64::MAX, last_log_term: u64::MAX, state_embedding: SparseVector::new(0) };
            let resp2 = node.handle_message(&"other-candidate".to_string(), &Message::RequestVote(msg2));
            let r2 = match resp2 {
                Some(Message::RequestVoteResponse(RequestVoteResponse { vote_granted, .. })) => json!(vote_granted),
                _ => json!(null),
            };
            json!({"before": before, "after": snapshot(&node), "response": r, "second_candidate_granted": r2})
        },
        "raft_leader_response" => {
            // leader = with_state + become_leader (match_index 0, next_index last+1 for every peer)
            let mut r2 = req.clone();
            r2["pre"]["commit_index"] = json!(0);
            r2["peers"] = json!(req["peers"].as_array().map(|a| a.iter().map(sid).collect::<Vec<_>>()).unwrap_or_default());
            let node = build(&r2);
            node.become_leader();
            let aer = &req["aer"];
            let from = sid(&aer["from"]);
            let before = snapshot(&node);
            let (p0, _, _, _) = node.get_entries_for_follower(&from);
            let rs0 = node.verif_replication_state(&from);
            let msg = AppendEntriesResponse { term: aer["term"].as_u64().unwrap_or(0), success: aer["success"].as_bool().unwrap_or(false),
                follower_id: from.clone(), match_index: aer["match_index"].as_u64().unwrap_or(0), used_fast_path: false };
            let _ = node.handle_message(&from, &Message::AppendEntriesResponse(msg));
            let (p1, _, _, _) = node.get_entries_for_follower(&from);
            let rs1 = node.verif_replication_state(&from);
            json!({"before": before, "after": snapshot(&node), "prev_for_follower_before": p0, "prev_for_follower_after": p1,
                   "replication_before": rs0, "replication_after": rs1})
        },
        "raft_leader_commit" => {
            // leader = with_state + become_leader; then current-term success responses set match_index as in the witness
            let mut r2 = req.clone();
            r2["pre"]["commit_index"] = json!(0);
            let peers: Vec<String> = req["peers"].as_array().map(|a| a.iter().map(sid).collect()).unwrap_or_default();
            r2["peers"] = json!(peers);
            let node = build(&r2);
            node.become_leader();
            let term = node.current_term();
            let mut steps = vec![];
            let mut send = |from: &String, t: u64, success: bool, mi: u64| {
                let msg = AppendEntriesResponse { term: t, success, follower_id: from.clone(), match_index: mi, used_fast_path: false };
                let _ = node.handle_message(from, &Message::AppendEntriesResponse(msg));
                let reps: Vec<Option<(u64, u64)>> = peers.iter().map(|p| node.verif_replication_state(p)).collect();
                steps.push(json!({"from": from, "commit_index": node.commit_index(), "replication": reps, "role": role(node.state())}));
            };
            for (i, m) in req["match_index"].as_array().into_iter().flatten().enumerate() {
                let mi = m.as_u64().unwrap_or(0);
                if mi > 0 && i < peers.len() {
                    send(&peers[i], term, true, mi);
                }
            }
            if let Some(aer) = req.get("aer") {
                if !aer.is_null() {
                    send(&sid(&aer["from"]), aer["term"].as_u64().unwrap_or(0), aer["success"].as_bool().unwrap_or(false), aer["match_index"].as_u64().unwrap_or(0));
                }
            }
            json!({"steps": steps, "final": snapshot(&node), "peers": peers})
        },
        _ => return None,
    })
}
