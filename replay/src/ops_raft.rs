use serde_json::{json, Value};
use std::sync::Arc;
use tensor_chain::block::Block;
use tensor_chain::network::{AppendEntries, AppendEntriesResponse, LogEntry, MemoryTransport, Message, RequestVote, RequestVoteResponse};
use tensor_chain::raft::{RaftConfig, RaftNode, RaftState};
use tensor_store::SparseVector;

fn sid(v: &Value) -> String {
    match v {
        Value::String(s) => s.clone(),
        Value::Null => "none".into(),
        other => format!("n{other}"),
    }
}

fn entries(v: &Value, first_index: u64) -> Vec<LogEntry> {
    v.as_array()
        .map(|a| a.iter().enumerate().map(|(i, t)| LogEntry::new(t.as_u64().unwrap_or(0), first_index + i as u64, Block::default())).collect())
        .unwrap_or_default()
}

fn role(r: RaftState) -> i64 {
    match r {
        RaftState::Follower => 0,
        RaftState::Candidate => 1,
        RaftState::Leader => 2,
        _ => 9,
    }
}

fn snapshot(n: &RaftNode) -> Value {
    let (log, vote) = n.verif_log_and_vote();
    json!({"log": log, "voted_for": vote, "term": n.current_term(), "commit_index": n.commit_index(), "log_length": n.log_length(),
           "last_log_term": n.last_log_term(), "last_log_index": n.last_log_index(), "role": role(n.state()), "leader": n.current_leader()})
}

fn build(req: &Value) -> RaftNode {
    let pre = &req["pre"];
    let id = format!("self{}", pre["node_id"]);
    let peers: Vec<String> = req["peers"].as_array().map(|a| a.iter().map(sid).collect()).unwrap_or_else(|| vec!["p1".into(), "p2".into()]);
    let mut cfg = RaftConfig::default();
    if let Some(b) = req["config"]["enable_fast_path"].as_bool() { cfg.enable_fast_path = b; }
    if let Some(b) = req["config"]["enable_geometric_tiebreak"].as_bool() { cfg.enable_geometric_tiebreak = b; }
    if let Some(b) = req["config"]["enable_pre_vote"].as_bool() { cfg.enable_pre_vote = b; }
    cfg.auto_heartbeat = false;
    let voted = if pre["voted_for"].is_null() { None } else { Some(sid(&pre["voted_for"])) };
    let log = entries(&pre["log_terms"], 1);
    let t: Arc<MemoryTransport> = Arc::new(MemoryTransport::new(id.clone()));
    let node = RaftNode::with_state(id, peers, t, cfg, pre["term"].as_u64().unwrap_or(0), voted, log);
    // bring commit_index to the requested pre-value with a heartbeat from a leader of the node's own term
    let want = pre["commit_index"].as_u64().unwrap_or(0);
    if want > 0 {
        let n = node.log_length() as u64;
        let hb = AppendEntries { term: node.current_term(), leader_id: "setup-leader".into(), prev_log_index: n,
            prev_log_term: node.last_log_term(), entries: vec![], leader_commit: want, block_embedding: None };
        let _ = node.handle_message(&"setup-leader".to_string(), &Message::AppendEntries(hb));
    }
    node
}

pub fn handle(op: &str, req: &Value) -> Option<Value> {
    Some(match op {
        "raft_append_entries" => {
            let node = build(req);
            let before = snapshot(&node);
            let ae = &req["ae"];
            let prev = ae["prev_log_index"].as_u64().unwrap_or(0);
            let msg = AppendEntries { term: ae["term"].as_u64().unwrap_or(0), leader_id: sid(&ae["leader"]), prev_log_index: prev,
                prev_log_term: ae["prev_log_term"].as_u64().unwrap_or(0), entries: entries(&ae["entry_terms"], prev + 1),
                leader_commit: ae["leader_commit"].as_u64().unwrap_or(0), block_embedding: None };
            let k = msg.entries.len() as u64;
            let resp = node.handle_message(&sid(&ae["leader"]), &Message::AppendEntries(msg));
            let r = match resp {
                Some(Message::AppendEntriesResponse(AppendEntriesResponse { term, success, match_index, .. })) =>
                    json!({"term": term, "success": success, "match_index": match_index}),
                _ => json!(null),
            };
            json!({"before": before, "after": snapshot(&node), "response": r, "sent_upto": prev + k})
        },
        "raft_request_vote" => {
            let node = build(req);
            let before = snapshot(&node);
            let rv = &req["rv"];
            let msg = RequestVote { term: rv["term"].as_u64().unwrap_or(0), candidate_id: sid(&rv["candidate"]),
                last_log_index: rv["last_log_index"].as_u64().unwrap_or(0), last_log_term: rv["last_log_term"].as_u64().unwrap_or(0),
                state_embedding: SparseVector::new(0) };
            let resp = node.handle_message(&sid(&rv["candidate"]), &Message::RequestVote(msg));
            let r = match resp {
                Some(Message::RequestVoteResponse(RequestVoteResponse { term, vote_granted, .. })) => json!({"term": term, "vote_granted": vote_granted}),
                _ => json!(null),
            };
            // a second, different candidate in the same term must be refused after a grant
            let msg2 = RequestVote { term: rv["term"].as_u64().unwrap_or(0), candidate_id: "other-candidate".into(),
                last_log_index: u64::MAX, last_log_term: u64::MAX, state_embedding: SparseVector::new(0) };
            let resp2 = node.handle_message(&"other-candidate".to_string(), &Message::RequestVote(msg2));
            let r2 = match resp2 {
                Some(Message::RequestVoteResponse(RequestVoteResponse { vote_granted, .. })) => json!(vote_granted),
                _ => json!(null),
            };
            json!({"before": before, "after": snapshot(&node), "response": r, "second_candidate_granted": r2})
        },
        "raft_vote_compacted" => {
            // voter whose log was compacted: base entries snapshotted away, the witness's entries retained in memory
            let pre = &req["pre"];
            let terms: Vec<u64> = pre["log_terms"].as_array().into_iter().flatten().map(|x| x.as_u64().unwrap_or(1)).collect();
            let base = pre["base"].as_u64().unwrap_or(2).clamp(2, 64);
            let n = terms.len() as u64;
            let mut all: Vec<LogEntry> = (1..=base).map(|i| LogEntry::new(terms.first().copied().unwrap_or(1), i, Block::default())).collect();
            for (i, t) in terms.iter().enumerate() {
                all.push(LogEntry::new(*t, base + 1 + i as u64, Block::default()));
            }
            let mut cfg = RaftConfig::default();
            cfg.auto_heartbeat = false;
            cfg.snapshot_trailing_logs = n as usize;
            let id = format!("self{}", pre["node_id"]);
            let t: Arc<MemoryTransport> = Arc::new(MemoryTransport::new(id.clone()));
            let term0 = pre["term"].as_u64().unwrap_or(1).max(terms.last().copied().unwrap_or(1));
            let voted = if pre["voted_for"].is_null() { None } else { Some(sid(&pre["voted_for"])) };
            let node = RaftNode::with_state(id, vec!["p1".into(), "p2".into()], t, cfg, term0, voted, all);
            let hb = AppendEntries { term: term0, leader_id: "setup-leader".into(), prev_log_index: base + n, prev_log_term: node.last_log_term(),
                entries: vec![], leader_commit: base + n, block_embedding: None };
            let _ = node.handle_message(&"setup-leader".to_string(), &Message::AppendEntries(hb));
            let mut detail = json!({});
            if let (Ok(()), Ok((meta, _))) = (node.finalize_to(base + n), node.create_snapshot()) {
                detail["snapshot_index"] = json!(meta.last_included_index);
                let _ = node.truncate_log(&meta);
            }
            let before = snapshot(&node);
            let rv = &req["rv"];
            // keep the witness's position of the candidate relative to the voter's last index when the base had to be clamped
            let wb = pre["base"].as_u64().unwrap_or(1);
            let lli = rv["last_log_index"].as_u64().unwrap_or(0);
            let lli = if wb == base || lli <= n { lli } else if lli >= wb.saturating_add(n) { lli - wb + base } else { n + 1 };
            let msg = RequestVote { term: rv["term"].as_u64().unwrap_or(0), candidate_id: sid(&rv["candidate"]), last_log_index: lli,
                last_log_term: rv["last_log_term"].as_u64().unwrap_or(0), state_embedding: SparseVector::new(0) };
            let resp = node.handle_message(&sid(&rv["candidate"]), &Message::RequestVote(msg));
            let r = match resp {
                Some(Message::RequestVoteResponse(RequestVoteResponse { term, vote_granted, .. })) => json!({"term": term, "vote_granted": vote_granted}),
                _ => json!(null),
            };
            json!({"before": before, "after": snapshot(&node), "response": r, "candidate_last_log_index": lli, "detail": detail})
        },
        "raft_leader_response" => {
            // leader = with_state + become_leader (match_index 0, next_index last+1 for every peer)
            let mut r2 = req.clone();
            r2["pre"]["commit_index"] = json!(0);
            r2["peers"] = json!(req["peers"].as_array().map(|a| a.iter().map(sid).collect::<Vec<_>>()).unwrap_or_default());
            let node = build(&r2);
            node.become_leader();
            let aer = &req["aer"];
            let from = sid(&aer["from"]);
            let before = snapshot(&node);
            let (p0, _, _, _) = node.get_entries_for_follower(&from);
            let rs0 = node.verif_replication_state(&from);
            let msg = AppendEntriesResponse { term: aer["term"].as_u64().unwrap_or(0), success: aer["success"].as_bool().unwrap_or(false),
                follower_id: from.clone(), match_index: aer["match_index"].as_u64().unwrap_or(0), used_fast_path: false };
            let _ = node.handle_message(&from, &Message::AppendEntriesResponse(msg));
            let (p1, _, _, _) = node.get_entries_for_follower(&from);
            let rs1 = node.verif_replication_state(&from);
            json!({"before": before, "after": snapshot(&node), "prev_for_follower_before": p0, "prev_for_follower_after": p1,
                   "replication_before": rs0, "replication_after": rs1})
        },
        "raft_wal_mirror" => {
            // follower with a WAL whose in-memory log was compacted (log_base_index = base), then a conflicting AppendEntries,
            // then a restart from the WAL: the recovered log must equal what the node held in memory
            use tensor_chain::raft_wal::{RaftRecoveryState, RaftWal};
            let base = req["base"].as_u64().unwrap_or(1).max(1);
            let pre_terms: Vec<u64> = req["pre_terms"].as_array().into_iter().flatten().map(|x| x.as_u64().unwrap_or(1)).collect();
            let p_off = req["prev_offset"].as_u64().unwrap_or(0);
            let entry_terms: Vec<u64> = req["entry_terms"].as_array().into_iter().flatten().map(|x| x.as_u64().unwrap_or(1)).collect();
            let ae_term = req["ae_term"].as_u64().unwrap_or(1);
            let dir = std::env::var("VERIF_BUILD").unwrap_or_else(|_| "/verif/.build".into());
            let dir = std::path::PathBuf::from(dir).join("replay-tmp").join(format!("m{}-{}", std::process::id(),
                std::time::SystemTime::now().duration_since(std::time::UNIX_EPOCH).map(|d| d.as_nanos()).unwrap_or(0)));
            let _ = std::fs::create_dir_all(&dir);
            let wal_path = dir.join("n1.wal");
            let mk = || {
                let t: Arc<MemoryTransport> = Arc::new(MemoryTransport::new("n1".to_string()));
                let mut cfg = RaftConfig::default();
                cfg.enable_fast_path = false;
                cfg.snapshot_trailing_logs = 1;
                cfg.auto_heartbeat = false;
                RaftNode::with_wal("n1".to_string(), vec!["n2".into(), "n3".into()], t, cfg, &wal_path)
            };
            let mut detail = json!({});
            let mem_log;
            {
                let node = match mk() { Ok(n) => n, Err(e) => return Some(json!({"error": e.to_string()})) };
                // first leader (term t0) replicates base+1 compacted-to-be entries followed by the in-memory ones
                let first_term = pre_terms.first().copied().unwrap_or(1).max(1);
                let lead_term = pre_terms.last().copied().unwrap_or(first_term).max(first_term);
                let mut all: Vec<LogEntry> = (1..=base).map(|i| LogEntry::new(first_term.min(lead_term), i, Block::default())).collect();
                for (i, t) in pre_terms.iter().enumerate() {
                    all.push(LogEntry::new((*t).max(1), base + 1 + i as u64, Block::default()));
                }
                let commit = base + u64::from(!pre_terms.is_empty());
                let ae0 = AppendEntries { term: lead_term, leader_id: "n2".into(), prev_log_index: 0, prev_log_term: 0, entries: all, leader_commit: commit, block_embedding: None };
                let _ = node.handle_message(&"n2".to_string(), &Message::AppendEntries(ae0));
                // compaction: snapshot at `commit`, keep 1 trailing entry => log_base_index = commit - 1
                let fin = node.finalize_to(commit);
                let snap = node.create_snapshot();
                if let (Ok(()), Ok((meta, _))) = (fin, snap) {
                    detail["snapshot_index"] = json!(meta.last_included_index);
                    let _ = node.truncate_log(&meta);
                }
                detail["log_after_compaction"] = json!(node.verif_log_and_vote().0);
                let first_mem = node.verif_log_and_vote().0.first().map(|e| e.1).unwrap_or(base + 1);
                let real_base = first_mem - 1;
                let prev = real_base + p_off;
                let prev_term = node.verif_log_and_vote().0.iter().find(|e| e.1 == prev).map(|e| e.0).unwrap_or(first_term);
                let ents: Vec<LogEntry> = entry_terms.iter().enumerate().map(|(j, t)| LogEntry::new(*t, prev + 1 + j as u64, Block::default())).collect();
                let ae1 = AppendEntries { term: ae_term.max(lead_term), leader_id: "n3".into(), prev_log_index: prev, prev_log_term: prev_term, entries: ents, leader_commit: 0, block_embedding: None };
                let r = node.handle_message(&"n3".to_string(), &Message::AppendEntries(ae1));
                detail["response"] = json!(format!("{r:?}").chars().take(160).collect::<String>());
                mem_log = node.verif_log_and_vote().0;
            }
            let rec: Vec<(u64, u64)> = RaftWal::open(&wal_path).ok().and_then(|w| RaftRecoveryState::from_wal(&w).ok()).map(|s| {
                s.recovered_log.iter().filter_map(|b| bitcode_entry(b)).collect()
            }).unwrap_or_default();
            let _ = std::fs::remove_dir_all(&dir);
            // compare on the indices the node held in memory before the crash
            let lo = mem_log.first().map(|e| e.1).unwrap_or(0);
            let rec_tail: Vec<(u64, u64)> = rec.iter().copied().filter(|e| e.1 >= lo).collect();
            json!({"memory_log": mem_log, "recovered_log": rec, "differs": rec_tail != mem_log, "detail": detail})
        },
        "raft_log_restart" => {
            // follower with a WAL: a first leader installs the pre-log, a second AppendEntries follows, then the log is
            // rebuilt from the WAL file alone and compared with what the node held in memory
            use tensor_chain::raft_wal::{RaftRecoveryState, RaftWal};
            let pre_terms: Vec<u64> = req["pre_terms"].as_array().into_iter().flatten().map(|x| x.as_u64().unwrap_or(1)).collect();
            let prev = req["prev"].as_u64().unwrap_or(0);
            let entry_terms: Vec<u64> = req["entry_terms"].as_array().into_iter().flatten().map(|x| x.as_u64().unwrap_or(1)).collect();
            let node_term = req["node_term"].as_u64().unwrap_or(1);
            let dir = std::env::var("VERIF_BUILD").unwrap_or_else(|_| "/verif/.build".into());
            let dir = std::path::PathBuf::from(dir).join("replay-tmp").join(format!("l{}-{}", std::process::id(),
                std::time::SystemTime::now().duration_since(std::time::UNIX_EPOCH).map(|d| d.as_nanos()).unwrap_or(0)));
            let _ = std::fs::create_dir_all(&dir);
            let wal_path = dir.join("n1.wal");
            let t: Arc<MemoryTransport> = Arc::new(MemoryTransport::new("n1".to_string()));
            let mut cfg = RaftConfig::default();
            cfg.enable_fast_path = false;
            cfg.auto_heartbeat = false;
            let mem_log;
            let resp;
            {
                let node = match RaftNode::with_wal("n1".to_string(), vec!["n2".into(), "n3".into()], t, cfg, &wal_path) {
                    Ok(n) => n, Err(e) => return Some(json!({"error": e.to_string()})) };
                let all: Vec<LogEntry> = pre_terms.iter().enumerate().map(|(i, t)| LogEntry::new(*t, 1 + i as u64, Block::default())).collect();
                let ae0 = AppendEntries { term: node_term, leader_id: "n2".into(), prev_log_index: 0, prev_log_term: 0, entries: all, leader_commit: 0, block_embedding: None };
                let _ = node.handle_message(&"n2".to_string(), &Message::AppendEntries(ae0));
                let ents: Vec<LogEntry> = entry_terms.iter().enumerate().map(|(j, t)| LogEntry::new(*t, prev + 1 + j as u64, Block::default())).collect();
                let ae1 = AppendEntries { term: req["ae_term"].as_u64().unwrap_or(0), leader_id: "n3".into(), prev_log_index: prev, prev_log_term: req["prev_term"].as_u64().unwrap_or(0),
                    entries: ents, leader_commit: 0, block_embedding: None };
                let r = node.handle_message(&"n3".to_string(), &Message::AppendEntries(ae1));
                resp = format!("{r:?}").chars().take(200).collect::<String>();
                mem_log = node.verif_log_and_vote().0;
            }
            let rec: Vec<(u64, u64)> = RaftWal::open(&wal_path).ok().and_then(|w| RaftRecoveryState::from_wal(&w).ok()).map(|s| {
                s.recovered_log.iter().filter_map(|b| bitcode_entry(b)).collect()
            }).unwrap_or_default();
            let _ = std::fs::remove_dir_all(&dir);
            json!({"memory_log": mem_log, "recovered_log": rec, "differs": rec != mem_log, "response": resp})
        },
        "raft_leader_accepts" => {
            // single-node cluster with a WAL: the node elects itself, accepts a proposal, and the log is rebuilt from the file alone
            use tensor_chain::raft_wal::{RaftRecoveryState, RaftWal};
            let dir = std::env::var("VERIF_BUILD").unwrap_or_else(|_| "/verif/.build".into());
            let dir = std::path::PathBuf::from(dir).join("replay-tmp").join(format!("p{}-{}", std::process::id(),
                std::time::SystemTime::now().duration_since(std::time::UNIX_EPOCH).map(|d| d.as_nanos()).unwrap_or(0)));
            let _ = std::fs::create_dir_all(&dir);
            let wal_path = dir.join("n1.wal");
            let t: Arc<MemoryTransport> = Arc::new(MemoryTransport::new("n1".to_string()));
            let mut cfg = RaftConfig::default();
            cfg.enable_fast_path = false;
            cfg.auto_heartbeat = false;
            let (mem_log, result, role_now);
            {
                let node = match RaftNode::with_wal("n1".to_string(), vec![], t, cfg, &wal_path) { Ok(n) => n, Err(e) => return Some(json!({"error": e.to_string()})) };
                node.start_election();
                node.become_leader();
                role_now = role(node.state());
                // pre-log: earlier proposals of this leader
                for _ in req["pre_terms"].as_array().into_iter().flatten() {
                    let _ = node.propose(Block::default());
                }
                result = match req["leader_accepts"].as_str().unwrap_or("propose") {
                    "propose" => node.propose(Block::default()).map_err(|e| e.to_string()),
                    _ => node.propose_codebook_replace(tensor_chain::codebook::GlobalCodebookSnapshot::new(2, vec![], 7)).map_err(|e| e.to_string()),
                };
                mem_log = node.verif_log_and_vote().0;
            }
            let rec: Vec<(u64, u64)> = RaftWal::open(&wal_path).ok().and_then(|w| RaftRecoveryState::from_wal(&w).ok()).map(|s| {
                s.recovered_log.iter().filter_map(|b| bitcode_entry(b)).collect()
            }).unwrap_or_default();
            let _ = std::fs::remove_dir_all(&dir);
            json!({"role": role_now, "result": format!("{result:?}"), "memory_log": mem_log, "recovered_log": rec, "violates": result.is_ok() && rec != mem_log})
        },
        "raft_snapshot_install_restart" => {
            // a leader builds a snapshot of k finalized entries; a follower with a WAL (holding `own` older entries) installs
            // it; the follower's log is then rebuilt from its WAL file alone
            use tensor_chain::raft_wal::{RaftRecoveryState, RaftWal};
            let k = req["entries"].as_u64().unwrap_or(2).max(1);
            let own = req["own"].as_u64().unwrap_or(0);
            let dir = std::env::var("VERIF_BUILD").unwrap_or_else(|_| "/verif/.build".into());
            let dir = std::path::PathBuf::from(dir).join("replay-tmp").join(format!("i{}-{}", std::process::id(),
                std::time::SystemTime::now().duration_since(std::time::UNIX_EPOCH).map(|d| d.as_nanos()).unwrap_or(0)));
            let _ = std::fs::create_dir_all(&dir);
            let mk_cfg = || { let mut c = RaftConfig::default(); c.enable_fast_path = false; c.auto_heartbeat = false; c };
            // leader: single node, proposes k entries, finalizes them, snapshots
            let lt: Arc<MemoryTransport> = Arc::new(MemoryTransport::new("l".to_string()));
            let leader = RaftNode::new("l".to_string(), vec!["x".into()], lt, mk_cfg());
            {
                // the source node learns k committed entries the ordinary way
                let ents: Vec<LogEntry> = (1..=k).map(|i| LogEntry::new(2, i, Block::default())).collect();
                let ae = AppendEntries { term: 2, leader_id: "x".into(), prev_log_index: 0, prev_log_term: 0, entries: ents, leader_commit: k, block_embedding: None };
                let _ = leader.handle_message(&"x".to_string(), &Message::AppendEntries(ae));
            }
            let _ = leader.finalize_to(k);
            let (meta, data) = match leader.create_snapshot() { Ok(x) => x, Err(e) => return Some(json!({"error": format!("create_snapshot: {e}")})) };
            let wal_path = dir.join("f.wal");
            let (mem_log, res);
            {
                let ft: Arc<MemoryTransport> = Arc::new(MemoryTransport::new("f".to_string()));
                let f = match RaftNode::with_wal("f".to_string(), vec!["l".into()], ft, mk_cfg(), &wal_path) { Ok(n) => n, Err(e) => return Some(json!({"error": e.to_string()})) };
                if own > 0 {
                    let ents: Vec<LogEntry> = (1..=own).map(|i| LogEntry::new(1, i, Block::default())).collect();
                    let ae = AppendEntries { term: 1, leader_id: "l".into(), prev_log_index: 0, prev_log_term: 0, entries: ents, leader_commit: 0, block_embedding: None };
                    let _ = f.handle_message(&"l".to_string(), &Message::AppendEntries(ae));
                }
                res = f.install_snapshot(meta.clone(), &data).map_err(|e| e.to_string());
                mem_log = f.verif_log_and_vote().0;
            }
            let rec: Vec<(u64, u64)> = RaftWal::open(&wal_path).ok().and_then(|w| RaftRecoveryState::from_wal(&w).ok()).map(|s| {
                s.recovered_log.iter().filter_map(|b| bitcode_entry(b)).collect()
            }).unwrap_or_default();
            let _ = std::fs::remove_dir_all(&dir);
            json!({"install": format!("{res:?}"), "snapshot_index": meta.last_included_index, "memory_log": mem_log, "recovered_log": rec, "violates": res.is_ok() && rec != mem_log})
        },
        "raft_node_restart" => {
            // node backed by a real WAL that already holds its (term, vote); one handler call; restart; compare
            use tensor_chain::raft_wal::{RaftRecoveryState, RaftWal, RaftWalEntry};
            let pre = &req["pre"];
            let dir = std::env::var("VERIF_BUILD").unwrap_or_else(|_| "/verif/.build".into());
            let dir = std::path::PathBuf::from(dir).join("replay-tmp").join(format!("n{}-{}", std::process::id(),
                std::time::SystemTime::now().duration_since(std::time::UNIX_EPOCH).map(|d| d.as_nanos()).unwrap_or(0)));
            let _ = std::fs::create_dir_all(&dir);
            let wal_path = dir.join("node.wal");
            {
                let mut w = RaftWal::open(&wal_path).unwrap();
                // the node is "n1": a pre-state vote for the node's own id is a vote for "n1", any other voter id must not collide with it
                let vote = if pre["voted_for"].is_null() { None } else if pre["voted_for"] == pre["node_id"] { Some("n1".to_string()) }
                           else { Some(sid(&pre["voted_for"])).map(|v| if v == "n1" { "n1-other".to_string() } else { v }) };
                // a candidate pre-state (role 1, voted for itself) is reached the real way: one term lower on disk, then start_election()
                let as_candidate = pre["role"].as_u64() == Some(1) && pre["voted_for"] == pre["node_id"] && !pre["voted_for"].is_null() && pre["term"].as_u64().unwrap_or(0) >= 1
                    && req["node_level"].as_str() != Some("start_election");
                let (t0, vote) = if as_candidate { (pre["term"].as_u64().unwrap_or(1) - 1, None) } else { (pre["term"].as_u64().unwrap_or(1), vote) };
                w.append(&RaftWalEntry::TermAndVote { term: t0, voted_for: vote }).unwrap();
                // the node's pre-log, as persist_log_entry would have written it
                for (i, t) in pre["log_terms"].as_array().into_iter().flatten().enumerate() {
                    let e = LogEntry::new(t.as_u64().unwrap_or(1), i as u64 + 1, Block::default());
                    w.append(&RaftWalEntry::LogEntryFull { index: e.index, term: e.term, entry_data: bitcode::serialize(&e).unwrap() }).unwrap();
                }
            }
            let mk = || {
                let t: Arc<MemoryTransport> = Arc::new(MemoryTransport::new("n1".to_string()));
                let mut cfg = RaftConfig::default();
                cfg.enable_fast_path = false;
                cfg.auto_heartbeat = false;
                RaftNode::with_wal("n1".to_string(), vec!["p1".into(), "p2".into()], t, cfg, &wal_path)
            };
            let (mem_term, mem_vote);
            {
                let node = match mk() { Ok(n) => n, Err(e) => return Some(json!({"error": e.to_string()})) };
                let m = &req["msg"];
                if pre["role"].as_u64() == Some(1) && pre["voted_for"] == pre["node_id"] && !pre["voted_for"].is_null() && pre["term"].as_u64().unwrap_or(0) >= 1
                    && req["node_level"].as_str() != Some("start_election") {
                    node.start_election();
                }
                match req["node_level"].as_str().unwrap_or("") {
                    "request_vote" => {
                        let rv = RequestVote { term: m["rv.0"].as_u64().unwrap_or(0), candidate_id: sid(&m["rv.1"]), last_log_index: m["rv.2"].as_u64().unwrap_or(0),
                            last_log_term: m["rv.3"].as_u64().unwrap_or(0), state_embedding: SparseVector::new(0) };
                        let _ = node.handle_message(&"p1".to_string(), &Message::RequestVote(rv));
                    },
                    "start_election" => node.start_election(),
                    "append_entries_response" => {
                        // a leader that learns of a higher term from a response
                        node.start_election();
                        node.become_leader();
                        let t = node.current_term() + 1;
                        let msg = AppendEntriesResponse { term: t, success: false, follower_id: "p1".into(), match_index: 0, used_fast_path: false };
                        let _ = node.handle_message(&"p1".to_string(), &Message::AppendEntriesResponse(msg));
                    },
                    "request_vote_response" => {
                        node.start_election();
                        let t = node.current_term() + 1;
                        let msg = RequestVoteResponse { term: t, vote_granted: false, voter_id: "p1".into() };
                        let _ = node.handle_message(&"p1".to_string(), &Message::RequestVoteResponse(msg));
                    },
                    _ => {
                        let ae = AppendEntries { term: m["ae.0"].as_u64().unwrap_or(0), leader_id: sid(&m["ae.1"]), prev_log_index: m["ae.2"].as_u64().unwrap_or(0),
                            prev_log_term: m["ae.3"].as_u64().unwrap_or(0), entries: vec![], leader_commit: m["ae.5"].as_u64().unwrap_or(0), block_embedding: None };
                        let _ = node.handle_message(&"p1".to_string(), &Message::AppendEntries(ae));
                    },
                }
                mem_term = node.current_term();
                mem_vote = node.verif_log_and_vote().1;
            }
            let rec = RaftWal::open(&wal_path).ok().and_then(|w| RaftRecoveryState::from_wal(&w).ok());
            let _ = std::fs::remove_dir_all(&dir);
            let (rt, rv_) = rec.map(|r| (r.current_term, r.voted_for)).unwrap_or((0, None));
            json!({"memory": {"term": mem_term, "vote": mem_vote}, "recovered": {"term": rt, "vote": rv_}, "violates": rt != mem_term || rv_ != mem_vote})
        },
        "raft_vote_stability" => {
            use tensor_chain::network::{PreVoteResponse, TimeoutNow};
            let node = build(req);
            let handler = req["handler"].as_str().unwrap_or("");
            if handler == "handle_pre_vote_response" {
                node.start_pre_vote();
            }
            let before = snapshot(&node);
            let m = &req["msg"];
            let msg = if handler == "handle_pre_vote_response" {
                Message::PreVoteResponse(PreVoteResponse { term: m["pvr.0"].as_u64().unwrap_or(0), vote_granted: m["pvr.1"].as_bool().unwrap_or(false), voter_id: "p1".into() })
            } else {
                Message::TimeoutNow(TimeoutNow { term: m["tn.0"].as_u64().unwrap_or(0), leader_id: "p1".into() })
            };
            let _ = node.handle_message(&"p1".to_string(), &msg);
            let after = snapshot(&node);
            let bad = after["term"].as_u64() < before["term"].as_u64()
                || (after["term"] == before["term"] && !before["voted_for"].is_null() && after["voted_for"] != before["voted_for"]);
            json!({"before": before, "after": after, "violates": bad})
        },
        "raft_become_leader_twice" => {
            // first leadership: peers acknowledge `old_match`; step down through a higher-term AppendEntries (keeps the old
            // leader state around); second leadership: replication state must start from zero
            let node = build(req);
            node.become_leader();
            let term = node.current_term();
            let peers: Vec<String> = req["peers"].as_array().map(|a| a.iter().map(sid).collect()).unwrap_or_default();
            for (i, m) in req["old_match"].as_array().into_iter().flatten().enumerate() {
                let mi = m.as_u64().unwrap_or(0).min(node.last_log_index());
                if mi > 0 && i < peers.len() {
                    let msg = AppendEntriesResponse { term, success: true, follower_id: peers[i].clone(), match_index: mi, used_fast_path: false };
                    let _ = node.handle_message(&peers[i], &Message::AppendEntriesResponse(msg));
                }
            }
            let first: Vec<Option<(u64, u64)>> = peers.iter().map(|p| node.verif_replication_state(p)).collect();
            let ae = AppendEntries { term: term + 1, leader_id: peers.first().cloned().unwrap_or_default(), prev_log_index: 0, prev_log_term: 0, entries: vec![], leader_commit: 0, block_embedding: None };
            let _ = node.handle_message(&ae.leader_id.clone(), &Message::AppendEntries(ae));
            node.start_election();
            node.become_leader();
            let second: Vec<Option<(u64, u64)>> = peers.iter().map(|p| node.verif_replication_state(p)).collect();
            let last = node.last_log_index();
            let bad = second.iter().any(|r| match r { Some((next, mat)) => *mat != 0 || *next != last + 1, None => true });
            json!({"first_leadership": first, "second_leadership": second, "last_log_index": last, "violates": bad})
        },
        "raft_leader_commit" => {
            // leader = with_state + become_leader; then current-term success responses set match_index as in the witness
            let mut r2 = req.clone();
            r2["pre"]["commit_index"] = json!(0);
            let peers: Vec<String> = req["peers"].as_array().map(|a| a.iter().map(sid).collect()).unwrap_or_default();
            r2["peers"] = json!(peers);
            let node = build(&r2);
            node.become_leader();
            let term = node.current_term();
            let mut steps = vec![];
            let mut send = |from: &String, t: u64, success: bool, mi: u64| {
                let msg = AppendEntriesResponse { term: t, success, follower_id: from.clone(), match_index: mi, used_fast_path: false };
                let _ = node.handle_message(from, &Message::AppendEntriesResponse(msg));
                let reps: Vec<Option<(u64, u64)>> = peers.iter().map(|p| node.verif_replication_state(p)).collect();
                steps.push(json!({"from": from, "commit_index": node.commit_index(), "replication": reps, "role": role(node.state())}));
            };
            for (i, m) in req["match_index"].as_array().into_iter().flatten().enumerate() {
                let mi = m.as_u64().unwrap_or(0);
                if mi > 0 && i < peers.len() {
                    send(&peers[i], term, true, mi);
                }
            }
            if let Some(aer) = req.get("aer") {
                if !aer.is_null() {
                    send(&sid(&aer["from"]), aer["term"].as_u64().unwrap_or(0), aer["success"].as_bool().unwrap_or(false), aer["match_index"].as_u64().unwrap_or(0));
                }
            }
            json!({"steps": steps, "final": snapshot(&node), "peers": peers})
        },
        _ => return None,
    })
}

fn bitcode_entry(b: &[u8]) -> Option<(u64, u64)> {
    let e: LogEntry = bitcode::deserialize(b).ok()?;
    Some((e.term, e.index))
}
