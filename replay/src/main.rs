//! Native replay driver: runs the real compiled functions of /repo on concrete inputs
//! chosen by the solver.  One JSON request per line on stdin, one JSON reply per line.
use serde_json::{json, Value};
use std::io::{BufRead, Write};
use std::panic::{catch_unwind, AssertUnwindSafe};

mod ops_blob;
mod ops_chain;
mod ops_codec;
mod ops_coord;
mod ops_gossip;
mod ops_graph;
mod ops_locks;
mod ops_misc;
mod ops_parser;
mod ops_part;
mod ops_raft;
mod ops_rel;
mod ops_snap;
mod ops_store;
mod ops_wal;

fn dispatch(req: &Value) -> Value {
    let op = req["op"].as_str().unwrap_or("");
    if let Some(v) = ops_codec::handle(op, req) {
        return v;
    }
    if let Some(v) = ops_blob::handle(op, req) {
        return v;
    }
    if let Some(v) = ops_graph::handle(op, req) {
        return v;
    }
    if let Some(v) = ops_gossip::handle(op, req) {
        return v;
    }
    if let Some(v) = ops_raft::handle(op, req) {
        return v;
    }
    if let Some(v) = ops_wal::handle(op, req) {
        return v;
    }
    if let Some(v) = ops_parser::handle(op, req) {
        return v;
    }
    if let Some(v) = ops_rel::handle(op, req) {
        return v;
    }
    if let Some(v) = ops_misc::handle(op, req) {
        return v;
    }
    if let Some(v) = ops_locks::handle(op, req) {
        return v;
    }
    if let Some(v) = ops_chain::handle(op, req) {
        return v;
    }
    if let Some(v) = ops_store::handle(op, req) {
        return v;
    }
    if let Some(v) = ops_snap::handle(op, req) {
        return v;
    }
    if let Some(v) = ops_part::handle(op, req) {
        return v;
    }
    if let Some(v) = ops_coord::handle(op, req) {
        return v;
    }
    json!({"error": format!("unknown op {op}")})
}

fn main() {
    let args: Vec<String> = std::env::args().collect();
    if args.len() >= 5 && args[1] == "--lock-restart-phase" {
        // child process of the `lock_handle_restart` op: one phase, one JSON line
        println!("{}", ops_locks::restart_phase(&args[2], &args[3], args[4].parse().unwrap_or(1)));
        return;
    }
    std::panic::set_hook(Box::new(|_| {}));
    let stdin = std::io::stdin();
    let stdout = std::io::stdout();
    for line in stdin.lock().lines() {
        let Ok(line) = line else { break };
        if line.trim().is_empty() {
            continue;
        }
        let reply = match serde_json::from_str::<Value>(&line) {
            Ok(req) => match catch_unwind(AssertUnwindSafe(|| dispatch(&req))) {
                Ok(v) => v,
                Err(e) => {
                    let msg = e
                        .downcast_ref::<String>()
                        .cloned()
                        .or_else(|| e.downcast_ref::<&str>().map(|s| (*s).to_string()))
                        .unwrap_or_default();
                    json!({"panic": true, "msg": msg})
                },
            },
            Err(e) => json!({"error": e.to_string()}),
        };
        let mut out = stdout.lock();
        let _ = writeln!(out, "{reply}");
        let _ = out.flush();
    }
}

pub fn u64s(v: &Value) -> Vec<u64> {
    v.as_array().map(|a| a.iter().map(|x| x.as_u64().unwrap_or(0)).collect()).unwrap_or_default()
}

pub fn bytes(v: &Value) -> Vec<u8> {
    v.as_array().map(|a| a.iter().map(|x| x.as_u64().unwrap_or(0) as u8).collect()).unwrap_or_default()
}
