//! C08 (store-level mechanism): data placed in the router's specialised slabs, a checkpoint image taken with snapshot_bytes, more
//! changes, restore_from_bytes - afterwards each slab must hold what it held when the image was taken.
use serde_json::{json, Value};
use tensor_store::{EntityId, TensorStore};

/// C2: a small-segment blob log with sealed segments is snapshotted and restored; more blobs are appended until the restored active
/// segment seals; every blob of the snapshot must still read back.
fn blob_log_restore(req: &Value) -> Value {
    use tensor_store::blob_log::BlobLog;
    let log = BlobLog::new(64);
    let blob = |i: u8| vec![i; 40];
    let hashes: Vec<_> = (1u8..=3).map(|i| (i, log.append(&blob(i)))).collect();
    let segments_before = log.segment_count();
    let snap = log.snapshot();
    let restored = if req["fn"].as_str() == Some("restore") { BlobLog::restore(snap) } else { let l = BlobLog::new(64); l.restore_from(snap); l };
    // after every further append, every blob written so far must read back as itself (a reused segment id shadows one of them)
    let mut all = hashes.clone();
    let mut bad: Vec<String> = vec![];
    for i in 10u8..14 {
        all.push((i, restored.append(&blob(i))));
        for (j, h) in &all {
            if restored.get(h) != Some(blob(*j)) {
                bad.push(format!("after appending blob {i}: blob {j} reads back as {:?}", restored.get(h).map(|b| b.first().copied())));
            }
        }
    }
    json!({"segments_in_snapshot": segments_before, "segments_now": restored.segment_count(), "problems": bad, "violates": !bad.is_empty()})
}

pub fn handle(op: &str, _req: &Value) -> Option<Value> {
    if op == "blob_log_restore" {
        return Some(blob_log_restore(_req));
    }
    if op != "store_rollback" {
        return None;
    }
    let store = TensorStore::new();
    let r = store.router();
    let e = r.graph.add_edge(EntityId(1), EntityId(2), "T", true);
    let h = r.blobs.append(b"checkpointed blob bytes");
    let edges0 = r.graph.edge_count();
    let chunks0 = r.blobs.chunk_count();
    let img = match store.snapshot_bytes() { Ok(b) => b, Err(e) => return Some(json!({"error": format!("{e:?}")})) };
    // changes after the checkpoint
    let _ = r.graph.add_edge(EntityId(2), EntityId(3), "T", true);
    let _ = r.blobs.append(b"later blob");
    let restored = store.restore_from_bytes(&img).is_ok();
    let r = store.router();
    let mut lost = vec![];
    if r.graph.edge_count() != edges0 || !r.graph.edge_exists(EntityId(1), EntityId(2), None) { lost.push(format!("graph: {} edges after rollback, {} at the checkpoint", r.graph.edge_count(), edges0)); }
    if r.blobs.chunk_count() != chunks0 || !r.blobs.contains(&h) { lost.push(format!("blobs: {} chunks after rollback, {} at the checkpoint", r.blobs.chunk_count(), chunks0)); }
    let _ = e;
    Some(json!({"restore_ok": restored, "not_as_checkpointed": lost, "violates": restored && !lost.is_empty()}))
}
