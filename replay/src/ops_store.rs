//! C08 (store-level mechanism): data placed in the router's specialised slabs, a checkpoint image taken with snapshot_bytes, more
//! changes, restore_from_bytes - afterwards each slab must hold what it held when the image was taken.
use serde_json::{json, Value};
use tensor_store::{EntityId, TensorStore};

/// C2: a small-segment blob log with sealed segments is snapshotted and restored; more blobs are appended until the restored active
/// segment seals; every blob of the snapshot must still read back.
fn blob_log_restore(req: &Value) -> Value {
    use tensor_store::blob_log::BlobLog;
    let log = BlobLog::new(64);
    let blob = |i: u8| vec![i; 40];
    let hashes: Vec<_> = (1u8..=3).map(|i| (i, log.append(&blob(i)))).collect();
    let segments_before = log.segment_count();
    let snap = log.snapshot();
    let restored = if req["fn"].as_str() == Some("restore") { BlobLog::restore(snap) } else { let l = BlobLog::new(64); l.restore_from(snap); l };
    // after every further append, every blob written so far must read back as itself (a reused segment id shadows one of them)
    let mut all = hashes.clone();
    let mut bad: Vec<String> = vec![];
    for i in 10u8..14 {
        all.push((i, restored.append(&blob(i))));
        for (j, h) in &all {
            if restored.get(h) != Some(blob(*j)) {
                bad.push(format!("after appending blob {i}: blob {j} reads back as {:?}", restored.get(h).map(|b| b.first().copied())));
            }
        }
    }
    json!({"segments_in_snapshot": segments_before, "segments_now": restored.segment_count(), "problems": bad, "violates": !bad.is_empty()})
}


/// C3: a store that has deleted entries (free slots, tombstones) is rolled back to an image; every key of the image must read back
/// with its own value, also after one more write (a clear() that keeps a free list or a reverse map lets two keys share storage).
fn store_clear_reuse(_req: &Value) -> Value {
    use tensor_store::{ScalarValue, TensorData, TensorValue};
    const DIM: usize = 384;
    let vector_for = |i: usize| { let mut v = vec![0.0f32; DIM]; v[i % DIM] = (i + 1) as f32; v[(100 + 2 * i) % DIM] = 0.5; v };
    let emb = |i: usize| { let mut t = TensorData::new(); t.set("_embedding", TensorValue::Vector(vector_for(i))); t };
    let meta = |i: usize| { let mut t = TensorData::new(); t.set("v", TensorValue::Scalar(ScalarValue::Int(i as i64))); t };
    let store = TensorStore::new();
    for i in 0..6 { store.put(format!("emb:k{i}"), emb(i)).unwrap(); store.put(format!("doc:k{i}"), meta(i)).unwrap(); }
    let image = match store.snapshot_bytes() { Ok(b) => b, Err(e) => return json!({"error": e.to_string()}) };
    // after the checkpoint: deletions (slots go to free lists, ids to tombstones) and additions
    for k in ["emb:k1", "emb:k4", "doc:k2"] { let _ = store.delete(k); }
    for i in 6..9 { store.put(format!("emb:k{i}"), emb(i)).unwrap(); }
    let _ = store.delete("emb:k7");
    if let Err(e) = store.restore_from_bytes(&image) { return json!({"error": e.to_string()}); }
    let mut bad: Vec<String> = vec![];
    let check = |bad: &mut Vec<String>, when: &str| {
        for i in 0..6 {
            match store.get(&format!("emb:k{i}")) {
                Ok(d) => match d.get("_embedding") { Some(TensorValue::Vector(v)) if *v == vector_for(i) => {}, other => bad.push(format!("{when}: emb:k{i} reads back {:?}", other.map(|_| "another vector"))) },
                Err(e) => bad.push(format!("{when}: emb:k{i}: {e}")),
            }
            match store.get(&format!("doc:k{i}")) {
                Ok(d) => if d.get("v") != Some(&TensorValue::Scalar(ScalarValue::Int(i as i64))) { bad.push(format!("{when}: doc:k{i} differs")) },
                Err(e) => bad.push(format!("{when}: doc:k{i}: {e}")),
            }
        }
        for i in 6..9 { if store.get(&format!("emb:k{i}")).is_ok() { bad.push(format!("{when}: emb:k{i} (added after the checkpoint) is still there")); } }
    };
    check(&mut bad, "after rollback");
    store.put("emb:extra", emb(99)).unwrap();
    store.put("doc:extra", meta(99)).unwrap();
    check(&mut bad, "after one more write");
    json!({"problems": bad, "violates": !bad.is_empty()})
}

pub fn handle(op: &str, _req: &Value) -> Option<Value> {
    if op == "store_clear_reuse" {
        return Some(store_clear_reuse(_req));
    }
    if op == "blob_log_restore" {
        return Some(blob_log_restore(_req));
    }
    if op != "store_rollback" {
        return None;
    }
    let store = TensorStore::new();
    let r = store.router();
    let e = r.graph.add_edge(EntityId(1), EntityId(2), "T", true);
    let h = r.blobs.append(b"checkpointed blob bytes");
    let edges0 = r.graph.edge_count();
    let chunks0 = r.blobs.chunk_count();
    let img = match store.snapshot_bytes() { Ok(b) => b, Err(e) => return Some(json!({"error": format!("{e:?}")})) };
    // changes after the checkpoint
    let _ = r.graph.add_edge(EntityId(2), EntityId(3), "T", true);
    let _ = r.blobs.append(b"later blob");
    let restored = store.restore_from_bytes(&img).is_ok();
    let r = store.router();
    let mut lost = vec![];
    if r.graph.edge_count() != edges0 || !r.graph.edge_exists(EntityId(1), EntityId(2), None) { lost.push(format!("graph: {} edges after rollback, {} at the checkpoint", r.graph.edge_count(), edges0)); }
    if r.blobs.chunk_count() != chunks0 || !r.blobs.contains(&h) { lost.push(format!("blobs: {} chunks after rollback, {} at the checkpoint", r.blobs.chunk_count(), chunks0)); }
    let _ = e;
    Some(json!({"restore_ok": restored, "not_as_checkpointed": lost, "violates": restored && !lost.is_empty()}))
}
