//! C08 (store-level mechanism): data placed in the router's specialised slabs, a checkpoint image taken with snapshot_bytes, more
//! changes, restore_from_bytes - afterwards each slab must hold what it held when the image was taken.
use serde_json::{json, Value};
use tensor_store::{EntityId, TensorStore};

pub fn handle(op: &str, _req: &Value) -> Option<Value> {
    if op != "store_rollback" {
        return None;
    }
    let store = TensorStore::new();
    let r = store.router();
    let e = r.graph.add_edge(EntityId(1), EntityId(2), "T", true);
    let h = r.blobs.append(b"checkpointed blob bytes");
    let edges0 = r.graph.edge_count();
    let chunks0 = r.blobs.chunk_count();
    let img = match store.snapshot_bytes() { Ok(b) => b, Err(e) => return Some(json!({"error": format!("{e:?}")})) };
    // changes after the checkpoint
    let _ = r.graph.add_edge(EntityId(2), EntityId(3), "T", true);
    let _ = r.blobs.append(b"later blob");
    let restored = store.restore_from_bytes(&img).is_ok();
    let r = store.router();
    let mut lost = vec![];
    if r.graph.edge_count() != edges0 || !r.graph.edge_exists(EntityId(1), EntityId(2), None) { lost.push(format!("graph: {} edges after rollback, {} at the checkpoint", r.graph.edge_count(), edges0)); }
    if r.blobs.chunk_count() != chunks0 || !r.blobs.contains(&h) { lost.push(format!("blobs: {} chunks after rollback, {} at the checkpoint", r.blobs.chunk_count(), chunks0)); }
    let _ = e;
    Some(json!({"restore_ok": restored, "not_as_checkpointed": lost, "violates": restored && !lost.is_empty()}))
}
