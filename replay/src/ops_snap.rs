//! snapshot files through the public API (C07 file level)
use serde_json::{json, Value};
use tensor_store::{snapshot, ColumnDef, ColumnType, ColumnValue, ScalarValue, SlabRouter, TableSchema, TensorData, TensorValue};

fn tmpdir() -> std::path::PathBuf {
    let base = std::env::var("VERIF_BUILD").unwrap_or_else(|_| "/verif/.build".into());
    let d = std::path::PathBuf::from(base).join("replay-tmp").join(format!("s{}-{}", std::process::id(),
        std::time::SystemTime::now().duration_since(std::time::UNIX_EPOCH).map(|d| d.as_nanos()).unwrap_or(0)));
    let _ = std::fs::create_dir_all(&d);
    d
}

/// a router whose header estimate is 0 (content only in the table slab) or > 0 (one keyed entry), tagged by `tag`
fn make(tag: i64, estimate_zero: bool) -> SlabRouter {
    let r = SlabRouter::new();
    let schema = TableSchema::new(vec![ColumnDef::new("id", ColumnType::Int, false)]);
    r.relations.create_table("t", schema).unwrap();
    r.relations.insert("t", vec![ColumnValue::Int(tag)]).unwrap();
    if !estimate_zero {
        let mut d = TensorData::new();
        d.set("tag", TensorValue::Scalar(ScalarValue::Int(tag)));
        r.put("k", d).unwrap();
    }
    r
}

fn tag_of(r: &SlabRouter) -> Value {
    match r.relations.scan_all("t") {
        Ok(rows) if rows.len() == 1 => json!(format!("{:?}", rows[0])),
        Ok(rows) => json!(format!("{} rows", rows.len())),
        Err(e) => json!(format!("no table: {e}")),
    }
}

pub fn handle(op: &str, req: &Value) -> Option<Value> {
    if op != "snapshot_files" {
        return None;
    }
    let dir = tmpdir();
    let path = dir.join("snap");
    let compress = req["compress"].as_bool().unwrap_or(true);
    let zero = req["estimate_zero"].as_bool().unwrap_or(false);
    let save = |r: &SlabRouter, p: &std::path::Path, c: bool| if c { snapshot::save_v3(r, p) } else { snapshot::save_v3_uncompressed(r, p) };
    let mut out = json!({});
    let old = make(1, zero);
    let new = make(2, zero);
    if req["previous"].as_bool().unwrap_or(false) {
        out["previous_save_ok"] = json!(save(&old, &path, !compress).is_ok());
    }
    if req["stale_tmp"].as_bool().unwrap_or(false) && req["stage"].as_str() != Some("before-rename") {
        // an earlier save died while writing: a long temporary file is still there
        std::fs::write(path.with_extension("tmp"), vec![0xA5u8; 200_000]).unwrap();
    }
    if req["stage"].as_str() == Some("before-rename") {
        // the bytes the new save would write, cut at the requested fraction, sit in the temporary file; path is untouched
        let scratch = dir.join("scratch");
        let _ = save(&new, &scratch, compress);
        let bytes = std::fs::read(&scratch).unwrap_or_default();
        let _ = std::fs::remove_file(&scratch);
        let (cut, total) = (req["cut"].as_u64().unwrap_or(0), req["total"].as_u64().unwrap_or(1).max(1));
        let n = (bytes.len() as u64 * cut / total) as usize;
        std::fs::write(path.with_extension("tmp"), &bytes[..n.min(bytes.len())]).unwrap();
    } else {
        out["save_ok"] = json!(save(&new, &path, compress).is_ok());
        out["tmp_left"] = json!(path.with_extension("tmp").exists());
    }
    out["loaded"] = match snapshot::load(&path) {
        Ok(r) => tag_of(&r),
        Err(e) => json!(format!("Err: {e}")),
    };
    out["old"] = tag_of(&old);
    out["new"] = tag_of(&new);
    let _ = std::fs::remove_dir_all(&dir);
    Some(out)
}
