use serde_json::{json, Value};
use tensor_chain::distributed_tx::TxPhase;
use tensor_chain::tx_wal::{PrepareVoteKind, TxOutcome, TxRecoveryState, TxWalEntry};
use tensor_store::SparseVector;

fn hexu(v: &Value) -> u64 {
    match v {
        Value::String(s) => u64::from_str_radix(s.trim_start_matches("0x"), 16).unwrap_or(0),
        Value::Number(n) => n.as_u64().unwrap_or(0),
        _ => 0,
    }
}

fn phase(d: u64) -> TxPhase {
    match d {
        0 => TxPhase::Preparing,
        1 => TxPhase::Prepared,
        2 => TxPhase::Committing,
        3 => TxPhase::Committed,
        4 => TxPhase::Aborting,
        _ => TxPhase::Aborted,
    }
}

pub fn handle(op: &str, req: &Value) -> Option<Value> {
    Some(match op {
        // C06 Q1: vectors of the given lengths stored into a collection, the dimension (if any) configured afterwards, one search:
        // every hit has the query's dimension, hits are ordered best first, exactly min(top_k, matching) of them
        "vector_collection_search" => {
            use vector_engine::{VectorCollectionConfig, VectorEngine};
            let e = VectorEngine::new();
            let lens: Vec<usize> = req["lens"].as_array().into_iter().flatten().filter_map(Value::as_u64).map(|x| x as usize).collect();
            let qn = req["query_len"].as_u64().unwrap_or(2) as usize;
            for (i, n) in lens.iter().enumerate() {
                let v: Vec<f32> = (0..*n).map(|j| 1.0 + (i * 3 + j) as f32).collect();
                if let Err(err) = e.store_in_collection("c", &format!("k{i}"), v) { return Some(json!({"error": err.to_string()})); }
            }
            if let Some(d) = req["cfg_dim"].as_u64() {
                let _ = e.create_collection("c", VectorCollectionConfig::default().with_dimension(d as usize));
            }
            let q: Vec<f32> = (0..qn).map(|j| 1.0 + j as f32).collect();
            let k = req["top_k"].as_u64().unwrap_or(10).min(1000) as usize;
            let matching = lens.iter().filter(|n| **n == qn).count();
            let mut bad: Vec<String> = vec![];
            match e.search_in_collection("c", &q, k) {
                Ok(hits) => {
                    for h in &hits {
                        let i: usize = h.key.trim_start_matches('k').parse().unwrap_or(99);
                        if lens.get(i).copied() != Some(qn) { bad.push(format!("hit {} has dimension {:?}, the query {qn}", h.key, lens.get(i))); }
                    }
                    if hits.len() != k.min(matching) { bad.push(format!("{} hits, expected {}", hits.len(), k.min(matching))); }
                    if hits.windows(2).any(|w| w[0].score < w[1].score) { bad.push("hits are not ordered best first".into()); }
                    let mut keys: Vec<&String> = hits.iter().map(|h| &h.key).collect();
                    keys.sort(); keys.dedup();
                    if keys.len() != hits.len() { bad.push("a key is returned twice".into()); }
                }
                Err(err) => {
                    let legit = k == 0 || req["cfg_dim"].as_u64().is_some_and(|d| d as usize != qn);
                    if !legit { bad.push(format!("search refused: {err}")); }
                }
            }
            json!({"problems": bad, "violates": !bad.is_empty()})
        },
        // C06 Q2: three embeddings, an index built and cached, one mutator, one search: no deleted key, and an overwritten vector
        // is found by its new direction
        "vector_stale_index" => {
            use vector_engine::{VectorCollectionConfig, VectorEngine};
            let m = req["mutator"].as_str().unwrap_or("");
            let in_coll = matches!(m, "store_in_collection_with_metadata" | "delete_from_collection" | "delete_collection");
            let e = VectorEngine::new();
            let vs = [("a", vec![1.0f32, 0.0, 0.0]), ("b", vec![0.0, 1.0, 0.0]), ("c", vec![0.0, 0.0, 1.0])];
            if in_coll { let _ = e.create_collection("c", VectorCollectionConfig::default()); }
            for (k, v) in &vs {
                let r = if in_coll { e.store_in_collection("c", k, v.clone()) } else { e.store_embedding(k, v.clone()) };
                if let Err(err) = r { return Some(json!({"error": err.to_string()})); }
            }
            let coll = if in_coll { "c" } else { "_default" };
            if in_coll {
                // no builder for named collections: the index is filled by hand, positions map to the storage keys
                let idx = tensor_store::HNSWIndex::new();
                let mut keys = vec![];
                for (k, v) in &vs { idx.insert(v.clone()); keys.push(format!("coll:c:emb:{k}")); }
                e.cache_hnsw_index(coll, std::sync::Arc::new(idx), keys);
            } else {
                match e.build_hnsw_index(tensor_store::HNSWConfig::default()) { Ok((idx, keys)) => e.cache_hnsw_index(coll, std::sync::Arc::new(idx), keys), Err(err) => return Some(json!({"error": err.to_string()})) }
            }
            let mut overwritten = false;
            let r = match m {
                "store_embedding" => { overwritten = true; e.store_embedding("a", vec![0.0, 1.0, 0.0]) }
                "store_embedding_with_metadata" => { overwritten = true; e.store_embedding_with_metadata("a", vec![0.0, 1.0, 0.0], std::collections::HashMap::new()) }
                "store_in_collection_with_metadata" => { overwritten = true; e.store_in_collection_with_metadata("c", "a", vec![0.0, 1.0, 0.0], std::collections::HashMap::new()) }
                "delete_embedding" => e.delete_embedding("a"),
                "delete_from_collection" => e.delete_from_collection("c", "a"),
                "batch_delete_embeddings" => e.batch_delete_embeddings(vec!["a".to_string()]).map(|_| ()),
                "clear" => e.clear().map(|_| ()),
                "delete_collection" => e.delete_collection("c"),
                _ => return Some(json!({"error": "unknown mutator"})),
            };
            if let Err(err) = r { return Some(json!({"error": err.to_string()})); }
            let hits = if in_coll { e.search_in_collection("c", &[1.0, 0.0, 0.0], 3) } else { e.search_similar(&[1.0, 0.0, 0.0], 3) };
            let mut bad: Vec<String> = vec![];
            match hits {
                Ok(hits) => {
                    for h in &hits {
                        if h.key == "a" && !overwritten { bad.push(format!("deleted key a is returned (score {})", h.score)); }
                        if h.key == "a" && overwritten && h.score > 0.5 { bad.push(format!("overwritten key a is returned with the score of its old vector ({})", h.score)); }
                        if matches!(m, "clear" | "delete_collection") { bad.push(format!("key {} returned after {m}", h.key)); }
                    }
                }
                Err(err) => { if m != "delete_collection" { bad.push(format!("search failed: {err}")); } }
            }
            json!({"problems": bad, "violates": !bad.is_empty()})
        },
        "dijkstra_cmp" => {
            let g = |n: &str| (f64::from_bits(hexu(&req[n]["cost_bits"])), req[n]["node_id"].as_u64().unwrap_or(0));
            let (a, b, c) = (g("a"), g("b"), g("c"));
            let cmp = |x: (f64, u64), y: (f64, u64)| graph_engine::verif_dijkstra_cmp(x.0, x.1, y.0, y.1);
            let (ab, ba, bc, ac, aa) = (cmp(a, b), cmp(b, a), cmp(b, c), cmp(a, c), cmp(a, a));
            let mut bad = aa != 0 || ab != -ba;
            if ab == 1 && bc == 1 && ac != 1 { bad = true; }
            if ab == 0 && bc == 0 && ac != 0 { bad = true; }
            if ab == 0 && (a.0.to_bits() != b.0.to_bits() || a.1 != b.1) { bad = true; }
            if !a.0.is_nan() && !b.0.is_nan() && a.0 < b.0 && ab != 1 { bad = true; }
            if a.0.to_bits() == b.0.to_bits() && a.1 > b.1 && ab != 1 { bad = true; }
            if a.0.is_nan() && a.0.is_sign_positive() && !b.0.is_nan() && ab != -1 { bad = true; }
            // the heap compares through partial_cmp: it must agree with cmp on every pair
            let pcmp = |x: (f64, u64), y: (f64, u64)| graph_engine::verif_dijkstra_partial_cmp(x.0, x.1, y.0, y.1);
            let (pab, pba, pbc, pac) = (pcmp(a, b), pcmp(b, a), pcmp(b, c), pcmp(a, c));
            if pab != ab || pba != ba || pbc != bc || pac != ac { bad = true; }
            json!({"ab": ab, "ba": ba, "bc": bc, "ac": ac, "aa": aa, "partial_ab": pab, "partial_ba": pba, "violates": bad})
        },
        "tcp_frame" => {
            use tensor_chain::network::Message;
            use tensor_chain::tcp::{CompressionConfig, LengthDelimitedCodec};
            let msg = Message::Ping { term: 0x0102_0304_0506_0708 };
            let probe = LengthDelimitedCodec::new(1 << 20).encode(&msg).map(|f| f.len() - 4).unwrap_or(0);
            let l = req["payload_len"].as_u64().unwrap_or(0) as i128;
            let m = req["max_frame_length"].as_u64().unwrap_or(0) as i128;
            // keep the witness's distance between the limit and the payload length
            let mreal = (probe as i128 + (m - l)).clamp(0, 1 << 40) as usize;
            let compress = req["compress"].as_bool().unwrap_or(false);
            let lc = req["compressed_len"].as_u64().unwrap_or(0) as i128;
            if compress && lc < l && m >= 1 + lc {
                // witness shape "fits only once compressed": a highly compressible message and a limit between the two sizes
                use tensor_chain::network::RequestVote;
                let big = Message::RequestVote(RequestVote { term: 1, candidate_id: "a".repeat(4000), last_log_index: 0, last_log_term: 0,
                    state_embedding: tensor_store::SparseVector::new(0) });
                let ser = LengthDelimitedCodec::new(1 << 20).encode(&big).map(|f| f.len() - 4).unwrap_or(0);
                let mut probe_c = LengthDelimitedCodec::with_compression(1 << 20, CompressionConfig::default());
                probe_c.set_compression_enabled(true);
                let comp = probe_c.encode_v2(&big).map(|f| f.len() - 4).unwrap_or(0);
                // below the serialized size: midway between the two sizes; at or above it: keep the witness's distance from the serialized size
                let limit = if m < l { (comp + ser) / 2 } else { ser + (m - l) as usize };
                let mut codec = LengthDelimitedCodec::with_compression(limit, CompressionConfig::default());
                codec.set_compression_enabled(true);
                let bad = match codec.encode_v2(&big) {
                    Ok(f) => codec.decode_payload_v2(&f[4..]).is_err(),
                    Err(_) => false,
                };
                return Some(json!({"serialized": ser, "compressed_frame": comp, "max_frame_length": limit, "violates": bad,
                                   "detail": "encode_v2 emitted a frame its own decode_payload_v2 rejects"}));
            }
            let mut codec = LengthDelimitedCodec::with_compression(mreal, CompressionConfig::default());
            codec.set_compression_enabled(compress);
            let mut bad = false;
            let mut detail = vec![];
            match codec.encode(&msg) {
                Ok(f) => {
                    let n = u32::from_be_bytes([f[0], f[1], f[2], f[3]]) as usize;
                    if n != f.len() - 4 || n > mreal { bad = true; }
                    match codec.decode_payload(&f[4..]) { Ok(Message::Ping { term }) if term == 0x0102_0304_0506_0708 => {}, _ => bad = true }
                    detail.push(format!("v1 ok len {n}"));
                },
                Err(_) => { if probe <= mreal { bad = true; } detail.push("v1 refused".into()); },
            }
            match codec.encode_v2(&msg) {
                Ok(f) => {
                    let n = u32::from_be_bytes([f[0], f[1], f[2], f[3]]) as usize;
                    if n != f.len() - 4 || n > mreal || n == 0 { bad = true; }
                    match codec.decode_payload_v2(&f[4..]) { Ok(Message::Ping { term }) if term == 0x0102_0304_0506_0708 => {}, Err(_) if probe > mreal => {}, _ => bad = true }
                    detail.push(format!("v2 ok len {n}"));
                },
                Err(_) => { if !compress && probe + 1 <= mreal { bad = true; } detail.push("v2 refused".into()); },
            }
            if codec.decode_payload_v2(&[]).is_ok() { bad = true; }
            let long = vec![0u8; mreal + 1];
            if mreal < (1 << 20) && codec.decode_payload(&long).is_ok() { bad = true; }
            json!({"max_frame_length": mreal, "payload": probe, "detail": detail, "violates": bad})
        },
        "sparse_roundtrip" => {
            let dense: Vec<f32> = req["bits"].as_array().into_iter().flatten().map(|x| f32::from_bits(x.as_u64().unwrap_or(0) as u32)).collect();
            let sv = SparseVector::from_dense(&dense);
            let back = sv.to_dense();
            let same = back.len() == dense.len()
                && back.iter().zip(&dense).all(|(x, y)| x.to_bits() == y.to_bits() || (*x == 0.0 && *y == 0.0));
            json!({"back_bits": back.iter().map(|x| x.to_bits()).collect::<Vec<_>>(), "violates": !same})
        },
        "tx_from_entries" => {
            let a = req["a"].as_u64().unwrap_or(1);
            let shape = req["shape"].as_str().unwrap_or("");
            let yes = |h: u64| PrepareVoteKind::Yes { lock_handle: h };
            let (entries, check): (Vec<TxWalEntry>, Box<dyn Fn(&TxRecoveryState) -> bool>) = match shape {
                "R1" => {
                    let b = req["b"].as_u64().unwrap_or(2);
                    let pb = req["phase_b"].as_u64().unwrap_or(0);
                    let es = vec![
                        TxWalEntry::TxBegin { tx_id: a, participants: vec![0] },
                        TxWalEntry::PrepareVote { tx_id: a, shard: 0, vote: yes(7) },
                        TxWalEntry::PhaseChange { tx_id: a, from: TxPhase::Preparing, to: phase(req["phase_a"].as_u64().unwrap_or(0)) },
                        TxWalEntry::TxBegin { tx_id: b, participants: vec![1] },
                        TxWalEntry::PhaseChange { tx_id: b, from: TxPhase::Preparing, to: phase(pb) },
                        TxWalEntry::TxComplete { tx_id: a, outcome: TxOutcome::Committed },
                    ];
                    (es, Box::new(move |s: &TxRecoveryState| {
                        let has = |v: &Vec<tensor_chain::tx_wal::RecoveredPreparedTx>, id: u64| v.iter().any(|t| t.tx_id == id);
                        let a_any = has(&s.prepared_txs, a) || has(&s.committing_txs, a) || has(&s.aborting_txs, a);
                        a_any || has(&s.prepared_txs, b) != (pb == 1) || has(&s.committing_txs, b) != (pb == 2) || has(&s.aborting_txs, b) != (pb == 4)
                    }))
                },
                "R2" => {
                    let es = vec![
                        TxWalEntry::TxBegin { tx_id: a, participants: vec![3, 4] },
                        TxWalEntry::PrepareVote { tx_id: a, shard: 3, vote: yes(11) },
                        TxWalEntry::PrepareVote { tx_id: a, shard: 4, vote: PrepareVoteKind::No },
                        TxWalEntry::PhaseChange { tx_id: a, from: TxPhase::Preparing, to: TxPhase::Prepared },
                    ];
                    (es, Box::new(move |s: &TxRecoveryState| {
                        !(s.prepared_txs.len() == 1 && s.prepared_txs[0].tx_id == a && s.prepared_txs[0].participants == vec![3, 4]
                            && s.prepared_txs[0].votes == vec![(3, yes(11)), (4, PrepareVoteKind::No)])
                    }))
                },
                "R5" => {
                    let es = vec![
                        TxWalEntry::TxBegin { tx_id: a, participants: vec![3, 4] },
                        TxWalEntry::PrepareVote { tx_id: a, shard: 3, vote: yes(11) },
                        TxWalEntry::PrepareVote { tx_id: a, shard: 3, vote: yes(11) },
                        TxWalEntry::PrepareVote { tx_id: a, shard: 4, vote: PrepareVoteKind::No },
                        TxWalEntry::PhaseChange { tx_id: a, from: TxPhase::Preparing, to: TxPhase::Prepared },
                    ];
                    (es, Box::new(move |s: &TxRecoveryState| {
                        !(s.prepared_txs.len() == 1 && s.prepared_txs[0].votes.iter().any(|v| *v == (4, PrepareVoteKind::No)) && s.prepared_txs[0].votes.iter().any(|v| v.0 == 3))
                    }))
                },
                "R3" => {
                    let es = vec![TxWalEntry::TxBegin { tx_id: a, participants: vec![0] }, TxWalEntry::PrepareVote { tx_id: a, shard: 0, vote: yes(5) }];
                    (es, Box::new(|s: &TxRecoveryState| {
                        !(s.prepared_txs.is_empty() && s.committing_txs.is_empty() && s.aborting_txs.is_empty() && s.orphaned_locks.is_empty())
                    }))
                },
                _ => {
                    let (x, h0, h1, hx) = (req["x"].as_u64().unwrap_or(0), req["h0"].as_u64().unwrap_or(0), req["h1"].as_u64().unwrap_or(0), req["hx"].as_u64().unwrap_or(0));
                    let v1yes = req["v1"].as_u64().unwrap_or(0) == 0;
                    let y = req["y"].as_u64();
                    let mut es = vec![
                        TxWalEntry::TxBegin { tx_id: a, participants: vec![0, 1] },
                        TxWalEntry::PrepareVote { tx_id: a, shard: 0, vote: yes(h0) },
                        TxWalEntry::PrepareVote { tx_id: a, shard: 1, vote: if v1yes { yes(h1) } else { PrepareVoteKind::No } },
                        TxWalEntry::TxComplete { tx_id: a, outcome: TxOutcome::Aborted },
                        TxWalEntry::LockRelease { tx_id: x, lock_handle: hx },
                    ];
                    if let Some(y) = y { es.push(TxWalEntry::AllLocksReleased { tx_id: y }); }
                    (es, Box::new(move |s: &TxRecoveryState| {
                        let allrel = y == Some(a);
                        let exp = |h: u64, isyes: bool| isyes && !allrel && !(x == a && hx == h);
                        let has = |h: u64| s.orphaned_locks.iter().any(|o| o.tx_id == a && o.lock_handle == h);
                        has(h0) != exp(h0, true) || (h1 != h0 && has(h1) != exp(h1, v1yes))
                    }))
                },
            };
            let s = TxRecoveryState::from_entries(&entries);
            json!({"prepared": s.prepared_txs.iter().map(|t| t.tx_id).collect::<Vec<_>>(), "committing": s.committing_txs.iter().map(|t| t.tx_id).collect::<Vec<_>>(),
                   "aborting": s.aborting_txs.iter().map(|t| t.tx_id).collect::<Vec<_>>(),
                   "orphaned": s.orphaned_locks.iter().map(|o| (o.tx_id, o.lock_handle)).collect::<Vec<_>>(), "violates": check(&s)})
        },
        _ => return None,
    })
}
