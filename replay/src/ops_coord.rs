use serde_json::{json, Value};
use std::collections::{HashMap, HashSet};
use tensor_chain::consensus::{ConsensusManager, DeltaVector};
use tensor_chain::distributed_tx::{
    CoordinatorState, DistributedTransaction, DistributedTxConfig, DistributedTxCoordinator, PrepareVote, SerializableLockState, TxPhase,
};
use tensor_store::{ScalarValue, TensorData, TensorStore, TensorValue};

fn phase(d: u64) -> TxPhase {
    match d {
        0 => TxPhase::Preparing,
        1 => TxPhase::Prepared,
        2 => TxPhase::Committing,
        3 => TxPhase::Committed,
        4 => TxPhase::Aborting,
        _ => TxPhase::Aborted,
    }
}

fn phase_num(p: TxPhase) -> u64 {
    match p {
        TxPhase::Preparing => 0,
        TxPhase::Prepared => 1,
        TxPhase::Committing => 2,
        TxPhase::Committed => 3,
        TxPhase::Aborting => 4,
        _ => 5,
    }
}

fn vote(kind: u64, handle: u64, tx: u64) -> PrepareVote {
    match kind {
        0 => PrepareVote::Yes { lock_handle: handle, delta: DeltaVector::new(&[0.0], HashSet::new(), tx) },
        1 => PrepareVote::No { reason: "no".into() },
        _ => PrepareVote::Conflict { similarity: 0.5, conflicting_tx: 1 },
    }
}

fn now_ms() -> u64 {
    std::time::SystemTime::now().duration_since(std::time::UNIX_EPOCH).map(|d| d.as_millis() as u64).unwrap_or(0)
}

fn dump(c: &DistributedTxCoordinator) -> Value {
    let st = c.to_state();
    let mut txs: Vec<Value> = st.pending.values().map(|t| {
        let mut votes: Vec<(usize, u64)> = t.votes.iter().map(|(s, v)| (*s, match v { PrepareVote::Yes { .. } => 0, PrepareVote::No { .. } => 1, _ => 2 })).collect();
        votes.sort_unstable();
        json!({"tx": t.tx_id, "phase": phase_num(t.phase), "votes": votes, "participants": t.participants})
    }).collect();
    txs.sort_by_key(|v| v["tx"].as_u64().unwrap_or(0));
    json!(txs)
}

pub fn handle(op: &str, req: &Value) -> Option<Value> {
    Some(match op {
        "coordinator_step" => {
            let t = &req["table"];
            let txid = t["tx"].as_u64().unwrap_or(1);
            let parts: Vec<usize> = t["participants"].as_array().into_iter().flatten().map(|x| x.as_u64().unwrap_or(0) as usize).collect();
            let timed_out = req["timed_out"].as_bool().unwrap_or(false);
            let mut votes = HashMap::new();
            for v in t["votes"].as_array().into_iter().flatten() {
                votes.insert(v["shard"].as_u64().unwrap_or(0) as usize, vote(v["kind"].as_u64().unwrap_or(0), v["handle"].as_u64().unwrap_or(0), txid));
            }
            let mk = |id: u64, parts: Vec<usize>, ph: TxPhase, votes: HashMap<usize, PrepareVote>| DistributedTransaction {
                tx_id: id, coordinator: "c".into(), participants: parts, phase: ph, operations: HashMap::new(), deltas: HashMap::new(), votes,
                started_at: if timed_out { 1 } else { now_ms() }, timeout_ms: if timed_out { 1 } else { 3_600_000 },
            };
            let mut pending = HashMap::new();
            pending.insert(txid, mk(txid, parts, phase(t["phase"].as_u64().unwrap_or(0)), votes));
            if let Some(o) = t["other"].as_u64() {
                pending.insert(o, mk(o, vec![0], TxPhase::Preparing, HashMap::new()));
            }
            let state = CoordinatorState { pending, lock_state: SerializableLockState::new(HashMap::new(), HashMap::new(), 30_000) };
            let bytes = match bitcode::serialize(&state) { Ok(b) => b, Err(e) => return Some(json!({"error": e.to_string()})) };
            let store = TensorStore::new();
            let mut data = TensorData::new();
            data.set("state", TensorValue::Scalar(ScalarValue::Bytes(bytes)));
            let _ = store.put("_dtx:coordinator:n:state", data);
            let c = match DistributedTxCoordinator::load_from_store("n", &store, ConsensusManager::default_config(), DistributedTxConfig::default()) {
                Ok(c) => c,
                Err(e) => return Some(json!({"error": e.to_string()})),
            };
            let before = dump(&c);
            let result = match req["call"].as_str().unwrap_or("") {
                "record_vote" => {
                    let r = c.record_vote(req["tx_arg"].as_u64().unwrap_or(0), req["shard"].as_u64().unwrap_or(0) as usize, vote(req["vote_kind"].as_u64().unwrap_or(0), 77, txid));
                    match r { Ok(Some(p)) => json!({"ok": phase_num(p)}), Ok(None) => json!({"ok": null}), Err(e) => json!({"err": format!("{e:?}")}) }
                },
                "commit" => match c.commit(req["tx_arg"].as_u64().unwrap_or(0)) { Ok(()) => json!({"ok": true}), Err(e) => json!({"err": e.to_string()}) },
                "abort" => match c.abort(req["tx_arg"].as_u64().unwrap_or(0), "r") { Ok(()) => json!({"ok": true}), Err(e) => json!({"err": e.to_string()}) },
                _ => json!({"timed_out": c.cleanup_timeouts()}),
            };
            let aborts: Vec<u64> = c.take_pending_aborts().into_iter().map(|a| a.0).collect();
            json!({"before": before, "after": dump(&c), "result": result, "aborts_queued": aborts})
        },
        "coordinator_vote_log" => {
            // C13 X2: two participants, real TxWal; first vote Yes, second vote of the given kind; `conflict` makes the two
            // Yes deltas parallel on a shared key.  Then the log alone is recovered and compared with the in-memory phase.
            use tensor_chain::tx_wal::{TxRecoveryState, TxWal};
            let dir = std::env::var("VERIF_BUILD").unwrap_or_else(|_| "/verif/.build".into());
            let dir = std::path::PathBuf::from(dir).join("replay-tmp").join(format!("v{}-{}", std::process::id(), now_ms()));
            let _ = std::fs::create_dir_all(&dir);
            let path = dir.join("tx.wal");
            let wal = match TxWal::open(&path) { Ok(w) => w, Err(e) => return Some(json!({"error": e.to_string()})) };
            let c = DistributedTxCoordinator::new(ConsensusManager::default_config(), DistributedTxConfig::default()).with_wal(wal);
            let tx = match c.begin(&"c".to_string(), &[0, 1]) { Ok(t) => t, Err(e) => return Some(json!({"error": e.to_string()})) };
            let keys = |k: &str| { let mut h = HashSet::new(); h.insert(k.to_string()); h };
            let conflict = req["conflict"].as_bool().unwrap_or(false);
            let d0 = DeltaVector::new(&[1.0, 0.0], keys("shared"), tx.tx_id);
            let d1 = if conflict { DeltaVector::new(&[1.0, 0.0], keys("shared"), tx.tx_id) } else { DeltaVector::new(&[0.0, 1.0], keys("other"), tx.tx_id) };
            let r0 = c.record_vote(tx.tx_id, 0, PrepareVote::Yes { lock_handle: 1, delta: d0 });
            let v1 = match req["vote_kind"].as_u64().unwrap_or(0) {
                0 => PrepareVote::Yes { lock_handle: 2, delta: d1 },
                1 => PrepareVote::No { reason: "no".into() },
                _ => PrepareVote::Conflict { similarity: 0.9, conflicting_tx: 5 },
            };
            let r1 = c.record_vote(tx.tx_id, 1, v1);
            let mem = dump(&c);
            let rec = TxWal::open(&path).ok().and_then(|w| TxRecoveryState::from_wal(&w).ok());
            let (np, nc) = rec.map_or((99, 99), |r| (r.prepared_txs.len(), r.committing_txs.len()));
            let _ = std::fs::remove_dir_all(&dir);
            let phase_now = mem.as_array().and_then(|a| a.first()).and_then(|t| t["phase"].as_u64());
            let prepared = phase_now == Some(1);
            json!({"first": format!("{r0:?}").chars().take(60).collect::<String>(), "second": format!("{r1:?}").chars().take(60).collect::<String>(), "memory": mem,
                   "recovered_prepared": np, "recovered_committing": nc, "violates": if prepared { np != 1 } else { np != 0 || nc != 0 }})
        },
        "coordinator_recover" => {
            // histories H1 (begin, Yes vote, Prepared) and H2 (H1 + Committing + TxComplete) written by a first coordinator,
            // optionally cut inside the last record, then a second coordinator recovers from the file
            use tensor_chain::tx_wal::TxWal;
            let dir = std::env::var("VERIF_BUILD").unwrap_or_else(|_| "/verif/.build".into());
            let dir = std::path::PathBuf::from(dir).join("replay-tmp").join(format!("x{}-{}", std::process::id(), now_ms()));
            let _ = std::fs::create_dir_all(&dir);
            let path = dir.join("tx.wal");
            let h2 = req["recover"].as_str() == Some("H2");
            let tx_id;
            let mut sizes = vec![];
            {
                let wal = match TxWal::open(&path) { Ok(w) => w, Err(e) => return Some(json!({"error": e.to_string()})) };
                let c = DistributedTxCoordinator::new(ConsensusManager::default_config(), DistributedTxConfig::default()).with_wal(wal);
                let tx = match c.begin(&"c".to_string(), &[0]) { Ok(t) => t, Err(e) => return Some(json!({"error": e.to_string()})) };
                tx_id = tx.tx_id;
                sizes.push(std::fs::metadata(&path).map(|m| m.len()).unwrap_or(0));
                let mut keys = HashSet::new();
                keys.insert("k".to_string());
                let _ = c.record_vote(tx_id, 0, PrepareVote::Yes { lock_handle: 41, delta: DeltaVector::new(&[1.0], keys, tx_id) });
                sizes.push(std::fs::metadata(&path).map(|m| m.len()).unwrap_or(0));
                if h2 { let _ = c.commit(tx_id); }
            }
            let end = std::fs::metadata(&path).map(|m| m.len()).unwrap_or(0);
            if !h2 {
                // the last record of H1 is the Prepared phase change: cut it proportionally
                let vote_end = sizes[1];
                // find where the PhaseChange record starts: everything after the vote record. record_vote writes vote then phase.
                let (off, frame) = (req["cut_offset"].as_u64().unwrap_or(0), req["frame_len"].as_u64().unwrap_or(10).max(1));
                let _ = vote_end;
                // the vote record and the phase record were both written by record_vote: split the tail in two halves by replaying lengths
                let entries = TxWal::open(&path).ok().and_then(|w| w.replay().ok()).map(|e| e.len()).unwrap_or(0);
                let _ = entries;
                let phase_len = 4 + 4 + bitcode::serialize(&tensor_chain::tx_wal::TxWalEntry::PhaseChange { tx_id, from: TxPhase::Preparing, to: TxPhase::Prepared }).map(|b| b.len() as u64).unwrap_or(0);
                let start = end.saturating_sub(phase_len);
                let cut = if off >= frame { end } else { start + (off * phase_len / frame).min(phase_len.saturating_sub(1)) };
                std::fs::OpenOptions::new().write(true).open(&path).unwrap().set_len(cut).unwrap();
            }
            let wal2 = match TxWal::open(&path) { Ok(w) => w, Err(e) => return Some(json!({"error": e.to_string()})) };
            let c2 = DistributedTxCoordinator::new(ConsensusManager::default_config(), DistributedTxConfig::default()).with_wal(wal2);
            let stats = c2.recover_from_wal().map(|s| format!("{s:?}")).map_err(|e| e.to_string());
            let pending = dump(&c2);
            let n = pending.as_array().map_or(0, Vec::len);
            let prepared_ok = pending.as_array().and_then(|a| a.first()).map_or(false, |t| t["tx"].as_u64() == Some(tx_id) && t["phase"].as_u64() == Some(1) && t["votes"] == json!([[0, 0]]));
            let commit_ok = if n == 1 { Some(c2.commit(tx_id).is_ok()) } else { None };
            let _ = std::fs::remove_dir_all(&dir);
            let whole = req["cut_offset"].as_u64().unwrap_or(0) >= req["frame_len"].as_u64().unwrap_or(10);
            let violates = stats.is_err() || if h2 { n != 0 } else if whole { !(n == 1 && prepared_ok && commit_ok == Some(true)) } else { n != 0 };
            json!({"stats": format!("{stats:?}"), "pending": pending, "commit_after_recovery": commit_ok, "violates": violates})
        },
        _ => return None,
    })
}
