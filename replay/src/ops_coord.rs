use serde_json::{json, Value};
use std::collections::{HashMap, HashSet};
use tensor_chain::consensus::{ConsensusManager, DeltaVector};
use tensor_chain::distributed_tx::{
    CoordinatorState, DistributedTransaction, DistributedTxConfig, DistributedTxCoordinator, PrepareVote, SerializableLockState, TxPhase,
};
use tensor_store::{ScalarValue, TensorData, TensorStore, TensorValue};

fn phase(d: u64) -> TxPhase {
    match d {
        0 => TxPhase::Preparing,
        1 => TxPhase::Prepared,
        2 => TxPhase::Committing,
        3 => TxPhase::Committed,
        4 => TxPhase::Aborting,
        _ => TxPhase::Aborted,
    }
}

fn phase_num(p: TxPhase) -> u64 {
    match p {
        TxPhase::Preparing => 0,
        TxPhase::Prepared => 1,
        TxPhase::Committing => 2,
        TxPhase::Committed => 3,
        TxPhase::Aborting => 4,
        _ => 5,
    }
}

fn vote(kind: u64, handle: u64, tx: u64) -> PrepareVote {
    match kind {
        0 => PrepareVote::Yes { lock_handle: handle, delta: DeltaVector::new(&[0.0], HashSet::new(), tx) },
        1 => PrepareVote::No { reason: "no".into() },
        _ => PrepareVote::Conflict { similarity: 0.5, conflicting_tx: 1 },
    }
}

fn now_ms() -> u64 {
    std::time::SystemTime::now().duration_since(std::time::UNIX_EPOCH).map(|d| d.as_millis() as u64).unwrap_or(0)
}

fn dump(c: &DistributedTxCoordinator) -> Value {
    let st = c.to_state();
    let mut txs: Vec<Value> = st.pending.values().map(|t| {
        let mut votes: Vec<(usize, u64)> = t.votes.iter().map(|(s, v)| (*s, match v { PrepareVote::Yes { .. } => 0, PrepareVote::No { .. } => 1, _ => 2 })).collect();
        votes.sort_unstable();
        json!({"tx": t.tx_id, "phase": phase_num(t.phase), "votes": votes, "participants": t.participants})
    }).collect();
    txs.sort_by_key(|v| v["tx"].as_u64().unwrap_or(0));
    json!(txs)
}

pub fn handle(op: &str, req: &Value) -> Option<Value> {
    Some(match op {
        "coordinator_step" => {
            let t = &req["table"];
            let txid = t["tx"].as_u64().unwrap_or(1);
            let parts: Vec<usize> = t["participants"].as_array().into_iter().flatten().map(|x| x.as_u64().unwrap_or(0) as usize).collect();
            let timed_out = req["timed_out"].as_bool().unwrap_or(false);
            let mut votes = HashMap::new();
            for v in t["votes"].as_array().into_iter().flatten() {
                votes.insert(v["shard"].as_u64().unwrap_or(0) as usize, vote(v["kind"].as_u64().unwrap_or(0), v["handle"].as_u64().unwrap_or(0), txid));
            }
            let mk = |id: u64, parts: Vec<usize>, ph: TxPhase, votes: HashMap<usize, PrepareVote>| DistributedTransaction {
                tx_id: id, coordinator: "c".into(), participants: parts, phase: ph, operations: HashMap::new(), deltas: HashMap::new(), votes,
                started_at: if timed_out { 1 } else { now_ms() }, timeout_ms: if timed_out { 1 } else { 3_600_000 },
            };
            let mut pending = HashMap::new();
            pending.insert(txid, mk(txid, parts, phase(t["phase"].as_u64().unwrap_or(0)), votes));
            if let Some(o) = t["other"].as_u64() {
                pending.insert(o, mk(o, vec![0], TxPhase::Preparing, HashMap::new()));
            }
            let state = CoordinatorState { pending, lock_state: SerializableLockState::new(HashMap::new(), HashMap::new(), 30_000) };
            let bytes = match bitcode::serialize(&state) { Ok(b) => b, Err(e) => return Some(json!({"error": e.to_string()})) };
            let store = TensorStore::new();
            let mut data = TensorData::new();
            data.set("state", TensorValue::Scalar(ScalarValue::Bytes(bytes)));
            let _ = store.put("_dtx:coordinator:n:state", data);
            let c = match DistributedTxCoordinator::load_from_store("n", &store, ConsensusManager::default_config(), DistributedTxConfig::default()) {
                Ok(c) => c,
                Err(e) => return Some(json!({"error": e.to_string()})),
            };
            let before = dump(&c);
            let result = match req["call"].as_str().unwrap_or("") {
                "record_vote" => {
                    let r = c.record_vote(req["tx_arg"].as_u64().unwrap_or(0), req["shard"].as_u64().unwrap_or(0) as usize, vote(req["vote_kind"].as_u64().unwrap_or(0), 77, txid));
                    match r { Ok(Some(p)) => json!({"ok": phase_num(p)}), Ok(None) => json!({"ok": null}), Err(e) => json!({"err": format!("{e:?}")}) }
                },
                "commit" => match c.commit(req["tx_arg"].as_u64().unwrap_or(0)) { Ok(()) => json!({"ok": true}), Err(e) => json!({"err": e.to_string()}) },
                "abort" => match c.abort(req["tx_arg"].as_u64().unwrap_or(0), "r") { Ok(()) => json!({"ok": true}), Err(e) => json!({"err": e.to_string()}) },
                _ => json!({"timed_out": c.cleanup_timeouts()}),
            };
            let aborts: Vec<u64> = c.take_pending_aborts().into_iter().map(|a| a.0).collect();
            json!({"before": before, "after": dump(&c), "result": result, "aborts_queued": aborts})
        },
        _ => return None,
    })
}
