use neumann_parser::{parse, parse_expr, Expr, ExprKind, Literal, Statement, StatementKind};
use serde_json::{json, Value};

fn tree(e: &Expr) -> Value {
    match &e.kind {
        ExprKind::Binary(l, op, r) => json!([format!("{op:?}"), tree(l), tree(r)]),
        ExprKind::Literal(Literal::Integer(n)) => json!(n),
        ExprKind::Unary(op, inner) => json!({"unary": format!("{op:?}"), "of": tree(inner)}),
        ExprKind::IsNull { expr, negated } => json!({"postfix": if *negated { "IS NOT NULL" } else { "IS NULL" }, "of": tree(expr)}),
        ExprKind::Between { high, negated, .. } => json!({"special": "Between", "negated": negated, "last": tree(high)}),
        ExprKind::Like { pattern, negated, .. } => json!({"special": "Like", "negated": negated, "last": tree(pattern)}),
        other => json!(format!("{other:?}").chars().take(40).collect::<String>()),
    }
}

fn select_where(s: &Statement) -> Option<&Expr> {
    if let StatementKind::Select(sel) = &s.kind {
        return sel.where_clause.as_deref();
    }
    None
}

pub fn handle(op: &str, req: &Value) -> Option<Value> {
    Some(match op {
        // {"text": "0 + 1 * 2"}: the expression parser and the statement parser (SELECT .. WHERE <text>)
        "parse_grouping" => {
            let text = req["text"].as_str().unwrap_or("");
            let a = parse_expr(text).map(|e| tree(&e)).map_err(|e| format!("{e:?}"));
            let stmt = format!("SELECT * FROM t WHERE {text}");
            let b = parse(&stmt).map_err(|e| format!("{e:?}")).and_then(|s| select_where(&s).map(tree).ok_or_else(|| "no where".to_string()));
            json!({"expr_parser": a.clone().ok(), "expr_error": a.err(), "stmt_parser": b.clone().ok(), "stmt_error": b.err()})
        },
        _ => return None,
    })
}
