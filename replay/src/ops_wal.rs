use serde_json::{json, Value};
use std::fs::OpenOptions;
use tensor_chain::raft_wal::{RaftRecoveryState, RaftWal, RaftWalEntry};
use tensor_chain::tx_wal::{TxOutcome, TxWal, TxWalEntry};
use tensor_store::{SyncMode, TensorWal, WalConfig, WalEntry};

fn tmpdir() -> std::path::PathBuf {
    let base = std::env::var("VERIF_BUILD").unwrap_or_else(|_| "/verif/.build".into());
    let d = std::path::PathBuf::from(base).join("replay-tmp").join(format!("w{}-{}", std::process::id(), rand_suffix()));
    let _ = std::fs::create_dir_all(&d);
    d
}

fn rand_suffix() -> u128 {
    std::time::SystemTime::now().duration_since(std::time::UNIX_EPOCH).map(|d| d.as_nanos()).unwrap_or(0)
}

fn raft_rec(i: u64) -> RaftWalEntry {
    RaftWalEntry::TermAndVote { term: i, voted_for: Some(format!("candidate-{i}")) }
}

/// map a cut offset inside a model frame (8 header bytes + payload_len) onto the real frame
fn map_offset(off: u64, model_frame: u64, real_frame: u64) -> u64 {
    if off == 0 { return 0; }
    if off >= model_frame { return real_frame; }
    if off < 8 { return off; }
    // inside the payload: keep the distance from the start of the payload, capped inside the real payload
    (8 + (off - 8)).min(real_frame - 1)
}

fn raft_torn(req: &Value) -> Value {
    let k = req["k"].as_u64().unwrap_or(1);
    let off = req["cut_offset"].as_u64().unwrap_or(0);
    let mframe = req["frame_len"].as_u64().unwrap_or(10);
    let dir = tmpdir();
    let path = dir.join("raft.wal");
    let mut sizes = vec![0u64];
    {
        let mut wal = RaftWal::open(&path).unwrap();
        for i in 1..=k {
            wal.append(&raft_rec(i)).unwrap();
            sizes.push(std::fs::metadata(&path).unwrap().len());
        }
    }
    let before = sizes[(k - 1) as usize];
    let real_frame = sizes[k as usize] - before;
    let cut = before + map_offset(off, mframe, real_frame);
    OpenOptions::new().write(true).open(&path).unwrap().set_len(cut).unwrap();
    let full = cut == sizes[k as usize];
    let expect1: Vec<RaftWalEntry> = (1..=(if full { k } else { k - 1 })).map(raft_rec).collect();
    // recovery #1
    let (r1_ok, r1_match) = match RaftWal::open(&path).and_then(|w| w.replay()) {
        Ok(es) => (true, es == expect1),
        Err(_) => (false, false),
    };
    // append after recovery (acknowledged: fsync returned), then restart
    let newrec = raft_rec(1000);
    let app_ok = match RaftWal::open(&path) {
        Ok(mut w) => w.append(&newrec).is_ok(),
        Err(_) => false,
    };
    let (r2_ok, r2_has_new, r2_prefix) = match RaftWal::open(&path).and_then(|w| w.replay()) {
        Ok(es) => (true, es.last() == Some(&newrec), es.len() == expect1.len() + 1 && es[..expect1.len()] == expect1[..]),
        Err(_) => (false, false, false),
    };
    let rs = RaftWal::open(&path).ok().and_then(|w| RaftRecoveryState::from_wal(&w).ok());
    let _ = std::fs::remove_dir_all(&dir);
    json!({"cut": cut, "sizes": sizes, "replay1_ok": r1_ok, "replay1_matches": r1_match, "append_ok": app_ok,
           "replay2_ok": r2_ok, "new_record_recovered": r2_has_new, "replay2_prefix_matches": r2_prefix,
           "recovered_term": rs.as_ref().map(|s| s.current_term), "recovered_vote": rs.and_then(|s| s.voted_for)})
}

fn tx_rec(i: u64) -> TxWalEntry {
    TxWalEntry::TxComplete { tx_id: i, outcome: if i % 2 == 0 { TxOutcome::Committed } else { TxOutcome::Aborted } }
}

fn tx_torn(req: &Value) -> Value {
    let k = req["k"].as_u64().unwrap_or(1);
    let off = req["cut_offset"].as_u64().unwrap_or(0);
    let mframe = req["frame_len"].as_u64().unwrap_or(10);
    let dir = tmpdir();
    let path = dir.join("tx.wal");
    let mut sizes = vec![0u64];
    {
        let mut wal = TxWal::open(&path).unwrap();
        for i in 1..=k {
            wal.append(&tx_rec(i)).unwrap();
            sizes.push(std::fs::metadata(&path).unwrap().len());
        }
    }
    let before = sizes[(k - 1) as usize];
    let real_frame = sizes[k as usize] - before;
    let cut = before + map_offset(off, mframe, real_frame);
    OpenOptions::new().write(true).open(&path).unwrap().set_len(cut).unwrap();
    let full = cut == sizes[k as usize];
    let expect1: Vec<TxWalEntry> = (1..=(if full { k } else { k - 1 })).map(tx_rec).collect();
    let (r1_ok, r1_match) = match TxWal::open(&path).and_then(|w| w.replay()) {
        Ok(es) => (true, es == expect1),
        Err(_) => (false, false),
    };
    let newrec = tx_rec(1000);
    let app_ok = match TxWal::open(&path) {
        Ok(mut w) => w.append(&newrec).is_ok(),
        Err(_) => false,
    };
    let (r2_ok, r2_has_new, r2_prefix) = match TxWal::open(&path).and_then(|w| w.replay()) {
        Ok(es) => (true, es.last() == Some(&newrec), es.len() == expect1.len() + 1 && es[..expect1.len()] == expect1[..]),
        Err(_) => (false, false, false),
    };
    let _ = std::fs::remove_dir_all(&dir);
    json!({"cut": cut, "sizes": sizes, "replay1_ok": r1_ok, "replay1_matches": r1_match, "append_ok": app_ok,
           "replay2_ok": r2_ok, "new_record_recovered": r2_has_new, "replay2_prefix_matches": r2_prefix})
}

fn ts_rec(i: u64) -> WalEntry {
    WalEntry::MetadataDelete { key: format!("key-{i}") }
}

fn tensor_torn(req: &Value) -> Value {
    let k = req["k"].as_u64().unwrap_or(1);
    let off = req["cut_offset"].as_u64().unwrap_or(0);
    let mframe = req["frame_len"].as_u64().unwrap_or(10);
    let dir = tmpdir();
    let path = dir.join("store.wal");
    let mut sizes = vec![0u64];
    {
        let mut wal = TensorWal::open(&path, WalConfig::default()).unwrap();
        for i in 1..=k {
            wal.append(&ts_rec(i)).unwrap();
            sizes.push(std::fs::metadata(&path).unwrap().len());
        }
    }
    let before = sizes[(k - 1) as usize];
    let real_frame = sizes[k as usize] - before;
    let cut = before + map_offset(off, mframe, real_frame);
    OpenOptions::new().write(true).open(&path).unwrap().set_len(cut).unwrap();
    let full = cut == sizes[k as usize];
    let expect1: Vec<WalEntry> = (1..=(if full { k } else { k - 1 })).map(ts_rec).collect();
    let (r1_ok, r1_match) = match TensorWal::open(&path, WalConfig::default()).map_err(|e| e.to_string()).and_then(|w| w.replay().map_err(|e| e.to_string())) {
        Ok(es) => (true, es == expect1),
        Err(_) => (false, false),
    };
    let newrec = ts_rec(1000);
    let app_ok = match TensorWal::open(&path, WalConfig::default()) {
        Ok(mut w) => w.append(&newrec).is_ok(),
        Err(_) => false,
    };
    let (r2_ok, r2_has_new, r2_prefix) = match TensorWal::open(&path, WalConfig::default()).map_err(|e| e.to_string()).and_then(|w| w.replay().map_err(|e| e.to_string())) {
        Ok(es) => (true, es.last() == Some(&newrec), es.len() == expect1.len() + 1 && es[..expect1.len()] == expect1[..]),
        Err(_) => (false, false, false),
    };
    let _ = std::fs::remove_dir_all(&dir);
    json!({"cut": cut, "sizes": sizes, "replay1_ok": r1_ok, "replay1_matches": r1_match, "append_ok": app_ok,
           "replay2_ok": r2_ok, "new_record_recovered": r2_has_new, "replay2_prefix_matches": r2_prefix})
}

/// manual-sync scenario: steps "rN" (append record N), "sync", "truncate"; then optionally flush (the OS has the
/// buffered bytes, nothing fsynced), "crash" = copy the file as it is on disk while the writer is still alive, cut it to
/// `cut` bytes (mapped proportionally when frame sizes differ), reopen and replay.
fn tensor_manual(req: &Value) -> Value {
    let dir = tmpdir();
    let path = dir.join("store.wal");
    let batched = req["batched"].as_u64();
    // `rotate_at_second`: a size limit that the second record exceeds (the model uses 15 bytes with 10-byte records)
    let limit = if req["rotate_at_second"].as_bool().unwrap_or(false) { Some(20u64) } else { None };
    let cfg = || { let mut c = WalConfig { sync_mode: batched.map_or(SyncMode::Manual, |n| SyncMode::Batched { max_entries: n as usize }), ..WalConfig::default() };
        if let Some(l) = limit { c.max_size_bytes = l; c.auto_rotate = true; } c };
    let mut wal = TensorWal::open(&path, cfg()).unwrap();
    let mut errs = vec![];
    for s in req["steps"].as_array().into_iter().flatten() {
        let s = s.as_str().unwrap_or("");
        let r = match s {
            "sync" => wal.sync().map(|_| ()).map_err(|e| e.to_string()),
            "truncate" => wal.truncate().map_err(|e| e.to_string()),
            "rotate" => wal.rotate().map_err(|e| e.to_string()),
            _ => wal.append(&ts_rec(s[1..].parse().unwrap_or(0))).map(|_| ()).map_err(|e| e.to_string()),
        };
        if let Err(e) = r {
            errs.push(format!("{s}: {e}"));
        }
    }
    if req["flushed"].as_bool().unwrap_or(false) {
        let _ = wal.flush();
    }
    let disk_len = std::fs::metadata(&path).map(|m| m.len()).unwrap_or(0);
    let crash = dir.join("crashed.wal");
    std::fs::copy(&path, &crash).unwrap();
    // model frame = 10 bytes per record at payload 2; scale the cut to real record boundaries
    let mlen = req["len"].as_u64().unwrap_or(0).max(1);
    let mcut = req["cut"].as_u64().unwrap_or(mlen);
    let cut = if mcut >= mlen { disk_len } else {
        let frame = 10u64;
        let real_frame = if mlen / frame > 0 { disk_len / (mlen / frame).max(1) } else { disk_len };
        (mcut / frame) * real_frame + map_offset(mcut % frame, frame, real_frame.max(1))
    };
    OpenOptions::new().write(true).open(&crash).unwrap().set_len(cut.min(disk_len)).unwrap();
    let out = match TensorWal::open(&crash, cfg()).map_err(|e| e.to_string()).and_then(|w| w.replay().map_err(|e| e.to_string())) {
        Ok(es) => json!({"ok": true, "names": es.iter().map(|e| match e {
            WalEntry::MetadataDelete { key } => format!("r{}", key.trim_start_matches("key-")),
            _ => "?".to_string() }).collect::<Vec<_>>()}),
        Err(e) => json!({"ok": false, "error": e}),
    };
    drop(wal);
    let _ = std::fs::remove_dir_all(&dir);
    json!({"disk_len": disk_len, "cut": cut, "step_errors": errs, "replay": out})
}

/// C02 L1: a durable store performs put_durable (and, for delete, then delete_durable) on a key of the given class whose
/// value carries an embedding; the records in the log afterwards, in order, and whether the call succeeded.
fn durable_op(req: &Value) -> Value {
    use tensor_store::{TensorData, TensorStore, TensorValue, ScalarValue};
    let dir = tmpdir();
    let path = dir.join("store.wal");
    let key = match req["key_class"].as_str().unwrap_or("Metadata") {
        "Embedding" => "emb:k1", "Graph" => "node:k1", "Table" => "table:k1", "Cache" => "_cache:k1", _ => "k1",
    };
    let store = match TensorStore::open_durable(&path, WalConfig::default()) { Ok(s) => s, Err(e) => return json!({"error": e.to_string()}) };
    let mut d = TensorData::new();
    d.set("f", TensorValue::Scalar(ScalarValue::Int(1)));
    d.set("_embedding", TensorValue::Vector(vec![1.0, 2.0]));
    let put_ok = store.put_durable(key, d).is_ok();
    let n_after_put = TensorWal::open(&path, WalConfig::default()).ok().and_then(|w| w.replay().ok()).map_or(0, |e| e.len());
    let mut del_ok = None;
    if req["router_op"].as_str() == Some("delete_durable") {
        del_ok = Some(store.delete_durable(key).is_ok());
    }
    let kinds: Vec<String> = TensorWal::open(&path, WalConfig::default()).ok().and_then(|w| w.replay().ok()).unwrap_or_default().iter().map(|e| match e {
        WalEntry::MetadataSet { key, .. } => format!("MetadataSet:{key}"),
        WalEntry::MetadataDelete { key } => format!("MetadataDelete:{key}"),
        WalEntry::EmbeddingSet { .. } => "EmbeddingSet".into(),
        WalEntry::EmbeddingDelete { .. } => "EmbeddingDelete".into(),
        WalEntry::EntityCreate { key, .. } => format!("EntityCreate:{key}"),
        WalEntry::EntityRemove { key } => format!("EntityRemove:{key}"),
        _ => "other".into(),
    }).collect();
    drop(store);
    let _ = std::fs::remove_dir_all(&dir);
    json!({"key": key, "put_ok": put_ok, "delete_ok": del_ok, "records": kinds, "records_after_put": n_after_put})
}

/// P1: acknowledged writes, optional restart (recover), checkpoint, restart: every acknowledged key must still be there.
/// With "save_fails" the snapshot path is unusable: the checkpoint must fail and leave the log alone.
fn durable_checkpoint(req: &Value) -> Value {
    use tensor_store::{TensorData, TensorStore, TensorValue, ScalarValue};
    let dir = tmpdir();
    let path = dir.join("store.wal");
    let snap = dir.join("store.snap");
    let cfg = WalConfig::default();
    let val = |i: i64| { let mut d = TensorData::new(); d.set("v", TensorValue::Scalar(ScalarValue::Int(i))); d };
    let n = req["records"].as_u64().unwrap_or(1);
    let mut acked: Vec<String> = vec![];
    let mut store = match TensorStore::open_durable(&path, cfg.clone()) { Ok(s) => s, Err(e) => return json!({"error": e.to_string()}) };
    if req["snapshot_exists"].as_bool().unwrap_or(false) {
        if store.put_durable("old", val(0)).is_ok() { acked.push("old".into()); }
        if let Err(e) = store.checkpoint(&snap) { return json!({"error": format!("first checkpoint: {e}")}); }
    }
    for i in 0..n {
        let k = format!("key{i}");
        if store.put_durable(k.clone(), val(i as i64 + 1)).is_ok() { acked.push(k); }
    }
    if req["inherited"].as_bool().unwrap_or(false) {
        drop(store);
        store = match TensorStore::recover(&path, &cfg, Some(&snap)) { Ok(s) => s, Err(e) => return json!({"error": format!("recover: {e}")}) };
    }
    let target = if req["save_fails"].as_bool().unwrap_or(false) { dir.join("no-such-dir").join("x.snap") } else { snap.clone() };
    let cp = store.checkpoint(&target);
    drop(store);
    let rec = TensorStore::recover(&path, &cfg, Some(&snap));
    let missing: Vec<String> = match &rec { Ok(s) => acked.iter().filter(|k| s.get(k).is_err()).cloned().collect(), Err(_) => acked.clone() };
    let _ = std::fs::remove_dir_all(&dir);
    json!({"acknowledged": acked, "checkpoint_ok": cp.is_ok(), "missing_after_restart": missing, "recover_error": rec.err().map(|e| e.to_string()),
           "violates": !missing.is_empty()})
}

/// C11 D1: a second durable write of the same key is started between the first one's log append and its in-memory apply
/// (schedule hook); afterwards the value readers see must be the value a restart recovers from the log.
fn durable_order(req: &Value) -> Value {
    // schedules that depend on which thread wins a lock hand-over are tried several times; one reproduction is enough
    let attempts = req["attempts"].as_u64().unwrap_or(1).max(1);
    let mut last = json!({});
    for i in 0..attempts {
        last = durable_order_once(req);
        if last["violates"] == json!(true) {
            last["attempt"] = json!(i + 1);
            return last;
        }
    }
    last
}

fn durable_order_once(req: &Value) -> Value {
    use std::sync::{mpsc, Arc, Mutex};
    use tensor_store::{TensorData, TensorStore, TensorValue, ScalarValue};
    let dir = tmpdir();
    let path = dir.join("order.wal");
    let key = match req["key_class"].as_str().unwrap_or("Metadata") {
        "Embedding" => "emb:k1", "Graph" => "node:k1", "Table" => "table:k1", _ => "k1",
    };
    let with_emb = req["embedding"].as_bool().unwrap_or(false);
    let val = |i: i64| { let mut d = TensorData::new(); d.set("v", TensorValue::Scalar(ScalarValue::Int(i))); if with_emb { d.set("_embedding", TensorValue::Vector(vec![i as f32, 0.5])); } d };
    // the value readers see: the scalar field and, for embedding keys, the first component of the vector (both carry the writer's number)
    let read = |s: &TensorStore| s.get(key).ok().and_then(|t| {
        let v = match t.get("v") { Some(TensorValue::Scalar(ScalarValue::Int(i))) => Some(*i), _ => None }?;
        let e = match t.get("_embedding") { Some(TensorValue::Vector(x)) => x.first().map(|f| *f as i64), Some(TensorValue::Sparse(x)) => x.to_dense().first().map(|f| *f as i64), _ => None };
        Some(v * 1000 + e.unwrap_or(0))
    });
    let store = match TensorStore::open_durable(&path, WalConfig::default()) { Ok(s) => s, Err(e) => return json!({"error": e.to_string()}) };
    if !req["fresh_key"].as_bool().unwrap_or(false) {
        let _ = store.put_durable(key, val(0));
    }
    let slot: Arc<Mutex<Option<std::thread::JoinHandle<bool>>>> = Arc::new(Mutex::new(None));
    let main_thread = std::thread::current().id();
    let fired = Arc::new(std::sync::atomic::AtomicBool::new(false));
    let (s2, slot2, fired2, key2) = (store.clone(), slot.clone(), fired.clone(), key.to_string());
    // window: "after_append" (between this write's log append and its apply) or "before_lock" (just before it takes the log lock)
    let before_lock = req["window"].as_str() == Some("before_lock");
    let with_embedding = req["embedding"].as_bool().unwrap_or(false);
    *tensor_store::slab_router::VERIF_DURABLE_WINDOW.write().unwrap() = Some(Arc::new(move |k: &str| {
        let wanted = if before_lock { k == "before log lock" } else { k == key2 };
        if std::thread::current().id() != main_thread || !wanted || fired2.swap(true, std::sync::atomic::Ordering::SeqCst) {
            return;
        }
        let (tx, rx) = mpsc::channel();
        let (s3, k3) = (s2.clone(), key2.clone());
        let h = std::thread::spawn(move || {
            let mut d = TensorData::new();
            d.set("v", TensorValue::Scalar(ScalarValue::Int(2)));
            if with_embedding {
                d.set("_embedding", TensorValue::Vector(vec![2.0, 0.5]));
            }
            let r = s3.put_durable(k3, d).is_ok();
            let _ = tx.send(());
            r
        });
        let _ = rx.recv_timeout(std::time::Duration::from_millis(300));
        *slot2.lock().unwrap() = Some(h);
    }));
    let first_ok = if req["router_op"].as_str() == Some("delete_durable") { store.delete_durable(key).is_ok() } else { store.put_durable(key, val(1)).is_ok() };
    *tensor_store::slab_router::VERIF_DURABLE_WINDOW.write().unwrap() = None;
    let second_ok = slot.lock().unwrap().take().map(|h| h.join().unwrap_or(false));
    let in_memory = read(&store);
    let in_memory_exists = store.exists(key);
    drop(store);
    let rec = TensorStore::recover(&path, &WalConfig::default(), None);
    let recovered = rec.as_ref().ok().and_then(|s| read(s));
    let recovered_exists = rec.as_ref().map(|s| s.exists(key)).unwrap_or(false);
    let _ = std::fs::remove_dir_all(&dir);
    json!({"first_ok": first_ok, "second_ok": second_ok, "readers_last_saw": in_memory, "recovered_after_restart": recovered, "recover_error": rec.err().map(|e| e.to_string()),
           "exists_in_memory": in_memory_exists, "exists_after_restart": recovered_exists,
           "violates": second_ok == Some(true) && (in_memory != recovered || in_memory_exists != recovered_exists) && (first_ok || before_lock)})
}

/// C11 D2: a durable write is started right after the checkpoint saved its snapshot (schedule hook); after a restart from
/// snapshot + log the acknowledged write must still be there.
fn checkpoint_race(req: &Value) -> Value {
    use std::sync::{mpsc, Arc, Mutex};
    use tensor_store::{TensorData, TensorStore, TensorValue, ScalarValue};
    let dir = tmpdir();
    let (path, snap) = (dir.join("race.wal"), dir.join("race.snap"));
    let val = |i: i64| { let mut d = TensorData::new(); d.set("v", TensorValue::Scalar(ScalarValue::Int(i))); d };
    let store = match TensorStore::open_durable(&path, WalConfig::default()) { Ok(s) => s, Err(e) => return json!({"error": e.to_string()}) };
    for i in 0..req["records"].as_u64().unwrap_or(1) {
        let _ = store.put_durable(format!("old{i}"), val(i as i64));
    }
    let slot: Arc<Mutex<Option<std::thread::JoinHandle<bool>>>> = Arc::new(Mutex::new(None));
    let main_thread = std::thread::current().id();
    let (s2, slot2) = (store.clone(), slot.clone());
    *tensor_store::slab_router::VERIF_DURABLE_WINDOW.write().unwrap() = Some(Arc::new(move |k: &str| {
        if std::thread::current().id() != main_thread || !k.starts_with("checkpoint") {
            return;
        }
        let (tx, rx) = mpsc::channel();
        let s3 = s2.clone();
        let h = std::thread::spawn(move || {
            let mut d = TensorData::new();
            d.set("v", TensorValue::Scalar(ScalarValue::Int(42)));
            let r = s3.put_durable("during-checkpoint", d).is_ok();
            let _ = tx.send(());
            r
        });
        let _ = rx.recv_timeout(std::time::Duration::from_millis(300));
        *slot2.lock().unwrap() = Some(h);
    }));
    let cp = store.checkpoint(&snap).is_ok();
    *tensor_store::slab_router::VERIF_DURABLE_WINDOW.write().unwrap() = None;
    let acked = slot.lock().unwrap().take().map(|h| h.join().unwrap_or(false));
    let seen = store.get("during-checkpoint").is_ok();
    drop(store);
    let rec = TensorStore::recover(&path, &WalConfig::default(), Some(&snap));
    let recovered = rec.as_ref().map(|s| s.get("during-checkpoint").is_ok()).unwrap_or(false);
    let _ = std::fs::remove_dir_all(&dir);
    json!({"checkpoint_ok": cp, "write_acknowledged": acked, "readers_saw_it": seen, "present_after_restart": recovered, "recover_error": rec.err().map(|e| e.to_string()),
           "violates": cp && acked == Some(true) && seen && !recovered})
}

/// C11: several threads write one embedding key durably at the same time; after they are done, what readers see must be what a
/// restart recovers.  Used when a counterexample's window has no schedule point in the code under test: rounds are repeated
/// until one shows the disagreement (a probabilistic confirmation, reported as such).
fn durable_stress(req: &Value) -> Value {
    use std::sync::{Arc, Barrier};
    use tensor_store::{TensorData, TensorStore, TensorValue, ScalarValue};
    let rounds = req["rounds"].as_u64().unwrap_or(100);
    let (threads, puts) = (req["threads"].as_u64().unwrap_or(4) as usize, req["puts"].as_u64().unwrap_or(6) as i64);
    let key = "emb:hot";
    let read = |s: &TensorStore| s.get(key).ok().map(|t| {
        let v = match t.get("v") { Some(TensorValue::Scalar(ScalarValue::Int(i))) => *i, _ => -1 };
        let e = match t.get("_embedding") { Some(TensorValue::Vector(x)) => x.first().map_or(-1, |f| *f as i64), Some(TensorValue::Sparse(x)) => x.to_dense().first().map_or(-1, |f| *f as i64), _ => -1 };
        (v, e)
    });
    for round in 0..rounds {
        let dir = tmpdir();
        let path = dir.join("stress.wal");
        let store = match TensorStore::open_durable(&path, WalConfig::default()) { Ok(s) => s, Err(e) => return json!({"error": e.to_string()}) };
        let barrier = Arc::new(Barrier::new(threads));
        let hs: Vec<_> = (0..threads).map(|t| {
            let (s, b) = (store.clone(), barrier.clone());
            std::thread::spawn(move || {
                b.wait();
                for i in 0..puts {
                    let n = (t as i64 + 1) * 1000 + i;
                    let mut d = TensorData::new();
                    d.set("v", TensorValue::Scalar(ScalarValue::Int(n)));
                    d.set("_embedding", TensorValue::Vector(vec![n as f32, 0.5]));
                    let _ = s.put_durable(key, d);
                }
            })
        }).collect();
        for h in hs { let _ = h.join(); }
        let mem = read(&store);
        drop(store);
        let rec = TensorStore::recover(&path, &WalConfig::default(), None).ok().and_then(|s| read(&s));
        let _ = std::fs::remove_dir_all(&dir);
        if mem != rec || mem.map_or(false, |(v, e)| v != e) {
            return json!({"round": round + 1, "readers_last_saw": mem, "recovered_after_restart": rec, "violates": true});
        }
    }
    json!({"rounds": rounds, "violates": false})
}

/// C11 D4, single-threaded: the schedule hook fires right before a durable write is applied in memory; if the log file is longer
/// when the call returns than it was at that moment, a record of this write was logged after it took effect.  A second durable
/// write of the same key that runs in that gap is then logged before that record although it was applied later.
fn durable_log_growth(req: &Value) -> Value {
    use std::sync::Arc;
    use std::sync::atomic::{AtomicU64, Ordering};
    use tensor_store::{TensorData, TensorStore, TensorValue, ScalarValue};
    let dir = tmpdir();
    let path = dir.join("growth.wal");
    let store = match TensorStore::open_durable(&path, WalConfig::default()) { Ok(s) => s, Err(e) => return json!({"error": e.to_string()}) };
    let at_apply = Arc::new(AtomicU64::new(u64::MAX));
    let (p2, a2) = (path.clone(), at_apply.clone());
    *tensor_store::slab_router::VERIF_DURABLE_WINDOW.write().unwrap() = Some(Arc::new(move |k: &str| {
        if k == "emb:k1" {
            a2.store(std::fs::metadata(&p2).map(|m| m.len()).unwrap_or(0), Ordering::SeqCst);
        }
    }));
    let mut d = TensorData::new();
    d.set("v", TensorValue::Scalar(ScalarValue::Int(1)));
    d.set("_embedding", TensorValue::Vector(vec![1.0, 0.5]));
    let ok = if req["router_op"].as_str() == Some("delete_durable") {
        let _ = store.put_durable("emb:k1", d);
        at_apply.store(u64::MAX, Ordering::SeqCst);
        store.delete_durable("emb:k1").is_ok()
    } else {
        store.put_durable("emb:k1", d).is_ok()
    };
    *tensor_store::slab_router::VERIF_DURABLE_WINDOW.write().unwrap() = None;
    let at_return = std::fs::metadata(&path).map(|m| m.len()).unwrap_or(0);
    drop(store);
    let tail_kind = TensorWal::open(&path, WalConfig::default()).ok().and_then(|w| w.replay().ok()).and_then(|es| es.last().map(|e| format!("{e:?}").chars().take(24).collect::<String>()));
    let _ = std::fs::remove_dir_all(&dir);
    let a = at_apply.load(Ordering::SeqCst);
    json!({"ok": ok, "log_bytes_when_apply_started": a, "log_bytes_at_return": at_return, "last_record": tail_kind, "violates": ok && a != u64::MAX && at_return > a})
}

/// C11 D5: an embedding key written without a vector first (so that entity ids of the live run and of the replay drift apart),
/// then a second embedding key written twice with different vectors; after a restart from the log the key must show the last one.
fn durable_replay_embedding(_req: &Value) -> Value {
    use tensor_store::{TensorData, TensorStore, TensorValue, ScalarValue};
    let dir = tmpdir();
    let path = dir.join("replay.wal");
    let store = match TensorStore::open_durable(&path, WalConfig::default()) { Ok(s) => s, Err(e) => return json!({"error": e.to_string()}) };
    // 384 is the store's default embedding dimension (the slab refuses other sizes)
    let val = |rev: i64, v: Option<f32>| { let mut d = TensorData::new(); d.set("rev", TensorValue::Scalar(ScalarValue::Int(rev))); if let Some(x) = v { d.set("_embedding", TensorValue::Vector(vec![x; 384])); } d };
    let _ = store.put_durable("emb:plain", val(0, None));
    let _ = store.put_durable("emb:doc", val(1, Some(1.0)));
    let _ = store.put_durable("emb:doc", val(2, Some(2.0)));
    let read = |s: &TensorStore| s.get("emb:doc").ok().map(|t| {
        let rev = match t.get("rev") { Some(TensorValue::Scalar(ScalarValue::Int(i))) => *i, _ => -1 };
        let e = match t.get("_embedding") { Some(TensorValue::Vector(x)) => x.first().copied().unwrap_or(-1.0), Some(TensorValue::Sparse(x)) => x.to_dense().first().copied().unwrap_or(-1.0), _ => -1.0 };
        (rev, e)
    });
    let mem = read(&store);
    drop(store);
    let rec = TensorStore::recover(&path, &WalConfig::default(), None).ok().and_then(|s| read(&s));
    let _ = std::fs::remove_dir_all(&dir);
    json!({"readers_last_saw": mem, "recovered_after_restart": rec, "violates": mem != rec})
}

/// W5: r1, cut inside it, reopen, append r2, cut inside it, reopen, append r3, restart; which records the final replay has.
macro_rules! double_crash {
    ($name:ident, $open:expr, $rec:expr) => {
        fn $name(req: &Value) -> Value {
            let mframe = req["frame_len"].as_u64().unwrap_or(10);
            let (c1, c2) = (req["cut1"].as_u64().unwrap_or(0), req["cut2"].as_u64().unwrap_or(0));
            let dir = tmpdir();
            let path = dir.join("double.wal");
            let len = |p: &std::path::Path| std::fs::metadata(p).map(|m| m.len()).unwrap_or(0);
            let mut errs: Vec<String> = vec![];
            let mut base = 0u64;
            for (i, cut) in [(1u64, Some(c1)), (2, Some(c2)), (3, None)] {
                match $open(&path) {
                    Ok(mut w) => { if let Err(e) = w.append(&$rec(i)) { errs.push(format!("append {i}: {e}")); } },
                    Err(e) => errs.push(format!("open before {i}: {e}")),
                }
                let end = len(&path);
                if let Some(c) = cut {
                    let real = end.saturating_sub(base);
                    let at = base + map_offset(c, mframe, real.max(1));
                    OpenOptions::new().write(true).open(&path).unwrap().set_len(at.min(end)).unwrap();
                }
                // the next append starts where recovery leaves the file
                if let Ok(w) = $open(&path) { drop(w); }
                base = len(&path);
            }
            let got: Vec<u64> = match $open(&path).map_err(|e| e.to_string()).and_then(|w| w.replay().map_err(|e| e.to_string())) {
                Ok(es) => (1..=3u64).filter(|i| es.contains(&$rec(*i))).collect(),
                Err(e) => { errs.push(format!("final replay: {e}")); vec![] },
            };
            let _ = std::fs::remove_dir_all(&dir);
            json!({"present": got, "errors": errs})
        }
    };
}
double_crash!(raft_double, |p: &std::path::Path| RaftWal::open(p), raft_rec);
double_crash!(tx_double, |p: &std::path::Path| TxWal::open(p), tx_rec);
double_crash!(tensor_double, |p: &std::path::Path| TensorWal::open(p, WalConfig::default()), ts_rec);

pub fn handle(op: &str, req: &Value) -> Option<Value> {
    Some(match op {
        "durable_op" => durable_op(req),
        "durable_order" => durable_order(req),
        "durable_stress" => durable_stress(req),
        "durable_replay_embedding" => durable_replay_embedding(req),
        "durable_log_growth" => durable_log_growth(req),
        "checkpoint_race" => checkpoint_race(req),
        "durable_checkpoint" => durable_checkpoint(req),
        "durable_rotation" => {
            // acknowledged puts across a log rotation (no checkpoint), then recovery from the log alone
            use tensor_store::{TensorData, TensorStore, TensorValue, ScalarValue};
            let dir = tmpdir();
            let path = dir.join("store.wal");
            let cfg = WalConfig { max_size_bytes: req["max_size"].as_u64().unwrap_or(300), auto_rotate: true, ..WalConfig::default() };
            let n = req["puts"].as_u64().unwrap_or(10);
            let mut acked = vec![];
            {
                let store = match TensorStore::open_durable(&path, cfg.clone()) { Ok(s) => s, Err(e) => return Some(json!({"error": e.to_string()})) };
                for i in 0..n {
                    let mut d = TensorData::new();
                    d.set("v", TensorValue::Scalar(ScalarValue::Int(i as i64)));
                    if store.put_durable(format!("key{i}"), d).is_ok() { acked.push(i); }
                }
            }
            let rotated: Vec<String> = std::fs::read_dir(&dir).map(|r| r.filter_map(|e| e.ok()).map(|e| format!("{}:{}", e.file_name().to_string_lossy(), e.metadata().map(|m| m.len()).unwrap_or(0))).collect()).unwrap_or_default();
            let rec = TensorStore::recover(&path, &cfg, None);
            let present: Vec<u64> = match &rec { Ok(s) => (0..n).filter(|i| s.get(&format!("key{i}")).is_ok()).collect(), Err(_) => vec![] };
            let _ = std::fs::remove_dir_all(&dir);
            json!({"acknowledged": acked, "recovered": present, "files": rotated, "recover_error": rec.err().map(|e| e.to_string()), "violates": present != acked})
        },
        "wal_double" => match req["wal"].as_str().unwrap_or("") {
            "raft-double" => raft_double(req),
            "tx-double" => tx_double(req),
            _ => tensor_double(req),
        },
        "wal_manual" => tensor_manual(req),
        "wal_torn" => match req["wal"].as_str().unwrap_or("") {
            "raft" => raft_torn(req),
            "tx" => tx_torn(req),
            "tensor" => tensor_torn(req),
            other => json!({"error": format!("unknown wal {other}")}),
        },
        "raft_from_entries" => {
            let es: Vec<RaftWalEntry> = req["records"].as_array().into_iter().flatten().map(|r| RaftWalEntry::TermAndVote {
                term: r["term"].as_u64().unwrap_or(0),
                voted_for: if r["vote"].is_null() { None } else { Some(format!("n{}", r["vote"])) },
            }).collect();
            let s = RaftRecoveryState::from_entries(&es);
            json!({"term": s.current_term, "vote": s.voted_for})
        },
        _ => return None,
    })
}
