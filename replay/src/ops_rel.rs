use relational_engine::{Column, ColumnType, Condition, RelationalEngine, Schema, Value as RV};
use serde_json::{json, Value};
use std::collections::HashMap;

fn raw_u64(v: &Value) -> u64 {
    match v {
        Value::String(s) => u64::from_str_radix(s.trim_start_matches("0x"), 16).unwrap_or(0),
        Value::Number(n) => n.as_u64().unwrap_or_else(|| n.as_i64().unwrap_or(0) as u64),
        Value::Bool(b) => u64::from(*b),
        _ => 0,
    }
}

fn value(v: &Value) -> (RV, ColumnType) {
    match v["kind"].as_str().unwrap_or("") {
        "Int" => (RV::Int(raw_u64(&v["raw"]) as i64), ColumnType::Int),
        "Float" => (RV::Float(f64::from_bits(raw_u64(&v["raw"]))), ColumnType::Float),
        "Bool" => (RV::Bool(raw_u64(&v["raw"]) != 0), ColumnType::Bool),
        _ => (RV::Null, ColumnType::Int),
    }
}

pub fn handle(op: &str, req: &Value) -> Option<Value> {
    Some(match op {
        "row_lock_step" => row_lock_step(req),
        // one row with value `row`; condition on `cond`; the same statement with and without an index
        "relational_index_vs_scan" => {
            let (rowv, ty) = value(&req["row"]);
            let (condv, _) = value(&req["cond"]);
            let kind = req["kind"].as_str().unwrap_or("hash");
            let order = req["order"].as_str().unwrap_or("");
            let ops: Vec<u8> = if kind == "hash" { vec![4] } else { vec![0, 1, 2, 3] };
            let mk = |o: u8, c: &str, v: RV| match o {
                4 => Condition::Eq(c.into(), v),
                0 => Condition::Lt(c.into(), v),
                1 => Condition::Le(c.into(), v),
                2 => Condition::Gt(c.into(), v),
                _ => Condition::Ge(c.into(), v),
            };
            let _ = order;
            let run = |indexed: bool| -> Result<Vec<usize>, String> {
                let e = RelationalEngine::new();
                let mut col = Column::new("x", ty.clone());
                col = col.nullable();
                e.create_table("t", Schema::new(vec![col])).map_err(|e| e.to_string())?;
                if indexed {
                    if kind == "hash" { e.create_index("t", "x").map_err(|e| e.to_string())?; } else { e.create_btree_index("t", "x").map_err(|e| e.to_string())?; }
                }
                e.insert("t", HashMap::from([("x".to_string(), rowv.clone())])).map_err(|e| e.to_string())?;
                let mut out = vec![];
                for o in &ops {
                    out.push(e.select("t", mk(*o, "x", condv.clone())).map(|r| r.len()).map_err(|e| e.to_string())?);
                }
                Ok(out)
            };
            let scan = run(false);
            let idx = run(true);
            json!({"scan_rows": scan.clone().ok(), "index_rows": idx.clone().ok(), "scan_err": scan.clone().err(), "index_err": idx.clone().err(),
                   "differs": scan.is_ok() && idx.is_ok() && scan != idx})
        },
        // the same statement before and after a restart of a durable engine (B-tree index rebuilt from its persisted keys)
        // U2: a statement refused with a lock conflict must not have changed (or locked) any of the other rows it matches
        "relational_tx_refused" => {
            let e = RelationalEngine::new();
            let cols = vec![Column::new("name", ColumnType::String), Column::new("age", ColumnType::Int)];
            if let Err(err) = e.create_table("people", Schema::new(cols)) { return Some(json!({"error": err.to_string()})); }
            let _ = e.create_index("people", "age");
            for (n, a) in [("a", 10), ("b", 20), ("c", 30), ("d", 40)] {
                let _ = e.insert("people", HashMap::from([("name".to_string(), RV::String(n.to_string())), ("age".to_string(), RV::Int(a))]));
            }
            let ages = |e: &RelationalEngine| -> Vec<i64> {
                let mut rows = e.select("people", Condition::True).unwrap_or_default();
                rows.sort_by_key(|r| r.id);
                rows.iter().map(|r| match r.get("age") { Some(RV::Int(v)) => *v, _ => -1 }).collect()
            };
            let delete = req["statement"].as_str() == Some("tx_delete");
            let mut bad: Vec<String> = vec![];
            // the row held by the other transaction is, in turn, each row of the table
            for held in ["a", "b", "c", "d"] {
                let tx_a = e.begin_transaction();
                let _ = e.tx_update(tx_a, "people", Condition::Eq("name".to_string(), RV::String(held.to_string())), HashMap::from([("name".to_string(), RV::String(held.to_string()))]));
                let before = ages(&e);
                let tx_b = e.begin_transaction();
                let r = if delete { e.tx_delete(tx_b, "people", Condition::True) } else { e.tx_update(tx_b, "people", Condition::True, HashMap::from([("age".to_string(), RV::Int(99))])) };
                if r.is_ok() { bad.push(format!("row {held} held by another transaction, yet the statement succeeded")); }
                if ages(&e) != before { bad.push(format!("row {held} held: refused statement left {:?}, was {:?}", ages(&e), before)); }
                if e.tx_manager().locks_held_by(tx_b) != 0 { bad.push(format!("row {held} held: the refused transaction holds {} locks", e.tx_manager().locks_held_by(tx_b))); }
                let _ = e.commit(tx_b);
                let _ = e.rollback(tx_a);
                if ages(&e) != vec![10, 20, 30, 40] { bad.push(format!("after commit of the refused and rollback of the holder: {:?}", ages(&e))); break; }
            }
            json!({"problems": bad, "violates": !bad.is_empty()})
        },
        // U3: after a committed multi-row update / delete, every answer through the index on the changed column equals the scan's
        "relational_index_follow" => {
            let e = RelationalEngine::new();
            let cols = vec![Column::new("name", ColumnType::String), Column::new("age", ColumnType::Int)];
            if let Err(err) = e.create_table("people", Schema::new(cols)) { return Some(json!({"error": err.to_string()})); }
            for (n, a) in [("a", 10), ("b", 20), ("c", 10), ("d", 40)] {
                let _ = e.insert("people", HashMap::from([("name".to_string(), RV::String(n.to_string())), ("age".to_string(), RV::Int(a))]));
            }
            if req["hash_index"].as_bool().unwrap_or(true) { let _ = e.create_index("people", "age"); }
            if req["btree_index"].as_bool().unwrap_or(false) { let _ = e.create_btree_index("people", "age"); }
            let tx = e.begin_transaction();
            let cond = Condition::Lt("age".to_string(), RV::Int(30));
            let r = if req["statement"].as_str() == Some("tx_delete") { e.tx_delete(tx, "people", cond) } else { e.tx_update(tx, "people", cond, HashMap::from([("age".to_string(), RV::Int(99))])) };
            if let Err(err) = r { return Some(json!({"error": err.to_string()})); }
            let _ = e.commit(tx);
            // a second update assigns the value some of the matching rows already hold
            if req["statement"].as_str() != Some("tx_delete") {
                let tx2 = e.begin_transaction();
                let r2 = e.tx_update(tx2, "people", Condition::Ge("age".to_string(), RV::Int(40)), HashMap::from([("age".to_string(), RV::Int(99))]));
                if let Err(err) = r2 { return Some(json!({"error": err.to_string()})); }
                let _ = e.commit(tx2);
            }
            let all = e.select("people", Condition::True).unwrap_or_default();
            let age = |r: &relational_engine::Row| match r.get("age") { Some(RV::Int(v)) => *v, _ => -1 };
            let mut bad: Vec<String> = vec![];
            for v in [10i64, 20, 40, 99] {
                let want = all.iter().filter(|r| age(r) == v).count();
                let got = e.select("people", Condition::Eq("age".to_string(), RV::Int(v))).map(|r| r.len()).unwrap_or(usize::MAX);
                if got != want { bad.push(format!("age = {v}: {got} rows through the index, {want} by scan")); }
                let want_ge = all.iter().filter(|r| age(r) >= v).count();
                let got_ge = e.select("people", Condition::Ge("age".to_string(), RV::Int(v))).map(|r| r.len()).unwrap_or(usize::MAX);
                if got_ge != want_ge { bad.push(format!("age >= {v}: {got_ge} rows through the index, {want_ge} by scan")); }
            }
            json!({"problems": bad, "violates": !bad.is_empty()})
        },
        // I1: rows inserted BEFORE the index is created must be found through it
        "relational_index_build" => {
            let mut bad: Vec<String> = vec![];
            // with and without a deleted row in front (slab ids and row ids then no longer line up with positions)
            for delete_first in [false, true] {
                let e = RelationalEngine::new();
                let cols = vec![Column::new("name", ColumnType::String), Column::new("age", ColumnType::Int)];
                if let Err(err) = e.create_table("people", Schema::new(cols)) { return Some(json!({"error": err.to_string()})); }
                let n = req["rows"].as_u64().unwrap_or(3).max(2) as i64;
                for i in 0..n {
                    let _ = e.insert("people", HashMap::from([("name".to_string(), RV::String(format!("n{i}"))), ("age".to_string(), RV::Int(10 * (i % 3)))]));
                }
                if delete_first { let _ = e.delete_rows("people", Condition::Eq("name".to_string(), RV::String("n0".to_string()))); }
                let r = if req["kind"].as_str() == Some("btree") { e.create_btree_index("people", "age") } else { e.create_index("people", "age") };
                if let Err(err) = r { return Some(json!({"error": err.to_string()})); }
                let all = e.select("people", Condition::True).unwrap_or_default();
                let age = |r: &relational_engine::Row| match r.get("age") { Some(RV::Int(v)) => *v, _ => -1 };
                for v in [0i64, 10, 20] {
                    let want: Vec<u64> = { let mut w: Vec<u64> = all.iter().filter(|r| age(r) == v).map(|r| r.id).collect(); w.sort(); w };
                    let got: Vec<u64> = { let mut g: Vec<u64> = e.select("people", Condition::Eq("age".to_string(), RV::Int(v))).unwrap_or_default().iter().map(|r| r.id).collect(); g.sort(); g };
                    if got != want { bad.push(format!("age = {v}: rows {got:?} through the index, {want:?} by scan")); }
                    let want_ge = all.iter().filter(|r| age(r) >= v).count();
                    let got_ge = e.select("people", Condition::Ge("age".to_string(), RV::Int(v))).map(|r| r.len()).unwrap_or(usize::MAX);
                    if got_ge != want_ge { bad.push(format!("age >= {v}: {got_ge} rows through the index, {want_ge} by scan")); }
                }
            }
            json!({"problems": bad, "violates": !bad.is_empty()})
        },
        "relational_rollback" => {
            // U1: a table with a hash and an ordered index on x; one transaction performing, on ONE row where possible, the
            // statements whose undo entries the witness lists (so that the order of undo matters); rollback; every row and every
            // index answer must be as before the transaction.
            let e = RelationalEngine::new();
            let cols = vec![Column::new("id", ColumnType::Int), Column::new("x", ColumnType::Int)];
            if let Err(err) = e.create_table("t", Schema::new(cols)) { return Some(json!({"error": err.to_string()})); }
            let with_idx = req["undo"].as_array().map_or(true, |a| a.iter().any(|u| u[1].as_u64().unwrap_or(0) > 0));
            if with_idx {
                let _ = e.create_index("t", "x");
                let _ = e.create_btree_index("t", "x");
            }
            for (id, x) in [(1i64, 10i64), (2, 20)] {
                let _ = e.insert("t", HashMap::from([("id".to_string(), RV::Int(id)), ("x".to_string(), RV::Int(x))]));
            }
            let observe = |e: &RelationalEngine| -> Vec<String> {
                let mut out = vec![];
                let mut rows: Vec<String> = e.select("t", Condition::True).map(|rs| rs.iter().map(|r| format!("{:?}/{:?}", r.get("id"), r.get("x"))).collect()).unwrap_or_default();
                rows.sort();
                out.push(format!("rows {rows:?}"));
                for v in [10i64, 11, 12, 20, 30] {
                    out.push(format!("x={v}: {:?}", e.select("t", Condition::Eq("x".into(), RV::Int(v))).map(|r| r.len()).ok()));
                    out.push(format!("x>={v}: {:?}", e.select("t", Condition::Ge("x".into(), RV::Int(v))).map(|r| r.len()).ok()));
                }
                out
            };
            let before = observe(&e);
            let tx = e.begin_transaction();
            let mut cur = 10i64;     // value of row 1 as the transaction sees it; row 1 may get deleted, then later statements use row 2
            let mut alive = true;
            let mut steps = vec![];
            for u in req["undo"].as_array().into_iter().flatten() {
                let r = match u[0].as_str().unwrap_or("") {
                    "InsertedRow" => e.tx_insert(tx, "t", HashMap::from([("id".to_string(), RV::Int(3)), ("x".to_string(), RV::Int(30))])).map(|_| 1),
                    "UpdatedRow" => {
                        let (idv, from) = if alive { (1, cur) } else { (2, 20) };
                        let _ = from;
                        cur += 1;
                        e.tx_update(tx, "t", Condition::Eq("id".into(), RV::Int(idv)), HashMap::from([("x".to_string(), RV::Int(cur))]))
                    },
                    _ => { let idv = if alive { alive = false; 1 } else { 2 }; e.tx_delete(tx, "t", Condition::Eq("id".into(), RV::Int(idv))) },
                };
                steps.push(format!("{}: {:?}", u[0], r.map_err(|e| e.to_string())));
            }
            let rb = e.rollback(tx).map_err(|e| e.to_string());
            let after = observe(&e);
            json!({"steps": steps, "rollback": rb, "before": before, "after": after, "violates": before != after})
        },
        "relational_index_after_recover" => {
            let (rowv, ty) = value(&req["row"]);
            let (condv, _) = value(&req["cond"]);
            let dir = std::env::var("VERIF_BUILD").unwrap_or_else(|_| "/verif/.build".into());
            let dir = std::path::PathBuf::from(dir).join("replay-tmp").join(format!("r{}-{}", std::process::id(),
                std::time::SystemTime::now().duration_since(std::time::UNIX_EPOCH).map(|d| d.as_nanos()).unwrap_or(0)));
            let _ = std::fs::create_dir_all(&dir);
            let wal = dir.join("rel.wal");
            let mk = |o: u8, v: RV| match o { 0 => Condition::Lt("x".into(), v), 1 => Condition::Le("x".into(), v), 2 => Condition::Gt("x".into(), v), _ => Condition::Ge("x".into(), v) };
            let ask = |e: &RelationalEngine| -> Vec<Option<usize>> { (0..4u8).map(|o| e.select("t", mk(o, condv.clone())).ok().map(|r| r.len())).collect() };
            let before;
            {
                let e = match RelationalEngine::open_durable(&wal, tensor_store::WalConfig::default()) { Ok(e) => e, Err(e) => return Some(json!({"error": e.to_string()})) };
                let col = Column::new("x", ty.clone()).nullable();
                if let Err(e2) = e.create_table("t", Schema::new(vec![col])) { return Some(json!({"error": e2.to_string()})); }
                if let Err(e2) = e.create_btree_index("t", "x") { return Some(json!({"error": e2.to_string()})); }
                if let Err(e2) = e.insert("t", HashMap::from([("x".to_string(), rowv.clone())])) { return Some(json!({"error": e2.to_string()})); }
                before = ask(&e);
            }
            let after = match RelationalEngine::recover(&wal, &tensor_store::WalConfig::default(), None) { Ok(e) => ask(&e), Err(e) => return Some(json!({"error": e.to_string()})) };
            let scan_after = RelationalEngine::recover(&wal, &tensor_store::WalConfig::default(), None).ok().map(|e| {
                let all = e.select("t", Condition::True).map(|r| r.len()).map_err(|e| e.to_string());
                let _ = e.drop_btree_index("t", "x");
                (format!("{all:?}"), ask(&e))
            });
            let _ = std::fs::remove_dir_all(&dir);
            json!({"before_restart": before, "after_restart": after, "after_restart_without_index": scan_after, "differs": before != after})
        },
        "simd_filter_i64" => {
            let opc = req["opc"].as_u64().unwrap_or(0) as u8;
            let vals: Vec<i64> = req["vals"].as_array().into_iter().flatten().map(|x| x.as_i64().unwrap_or(0)).collect();
            let thr = req["thr"].as_i64().unwrap_or(0);
            let pre = req["pre"].as_u64().unwrap_or(0);
            let mut res = [pre];
            relational_engine::verif_simd::filter_i64(opc, &vals, thr, &mut res);
            let mut expect = pre;
            for (i, v) in vals.iter().enumerate() {
                let hit = match opc { 0 => *v < thr, 1 => *v <= thr, 2 => *v > thr, 3 => *v >= thr, 4 => *v == thr, _ => *v != thr };
                if hit { expect |= 1u64 << i; }
            }
            json!({"got": res[0], "expected": expect, "differs": res[0] != expect})
        },
        "simd_filter_f64" => {
            let opc = req["opc"].as_u64().unwrap_or(0) as u8;
            let vals: Vec<f64> = req["bits"].as_array().into_iter().flatten().map(|x| f64::from_bits(raw_u64(x))).collect();
            let thr = f64::from_bits(raw_u64(&req["thr_bits"]));
            let pre = req["pre"].as_u64().unwrap_or(0);
            let mut res = [pre];
            relational_engine::verif_simd::filter_f64(opc, &vals, thr, &mut res);
            let mut expect = pre;
            for (i, v) in vals.iter().enumerate() {
                let hit = match opc { 0 => *v < thr, 2 => *v > thr, _ => *v == thr };
                if hit { expect |= 1u64 << i; }
            }
            json!({"got": res[0], "expected": expect, "differs": res[0] != expect})
        },
        _ => return None,
    })
}

/// C09: one RowLockManager operation through the `verif_rowlock` hook; the checker supplies `expired` per entry.
pub fn row_lock_step(req: &Value) -> Value {
    use relational_engine::transaction::verif_rowlock;
    let tname = |v: &Value| format!("t{v}");
    let locks: Vec<verif_rowlock::Entry> = req["table"]["locks"].as_array().into_iter().flatten()
        .map(|l| (tname(&l["table"]), l["row"].as_u64().unwrap_or(0), l["tx"].as_u64().unwrap_or(0), l["expired"].as_bool().unwrap_or(false))).collect();
    let idx: Vec<(u64, Vec<(String, u64)>)> = req["table"]["tx_locks"].as_array().into_iter().flatten()
        .map(|t| (t["tx"].as_u64().unwrap_or(0), t["rows"].as_array().into_iter().flatten().map(|r| (tname(&r[0]), r[1].as_u64().unwrap_or(0))).collect())).collect();
    let rows: Vec<(String, u64)> = req["rows"].as_array().into_iter().flatten().map(|r| (tname(&r[0]), r[1].as_u64().unwrap_or(0))).collect();
    let (result, after, index) = verif_rowlock::step(&locks, &idx, req["rowlock_op"].as_str().unwrap_or(""), req["tx"].as_u64().unwrap_or(0), &rows);
    json!({"result": result, "after": after, "index": index, "before": locks.iter().map(|l| (l.0.clone(), l.1, l.2, l.3)).collect::<Vec<_>>(), "rows": rows})
}
