//! C19 (reference-count kernel): artifacts with shared chunks built through BlobStore's public API, one or two operations
//! (the second started from the schedule hook inside the first one's count update), then every chunk's stored count is
//! compared with the number of references in the artifacts' metadata.
use serde_json::{json, Value};
use std::future::Future;
use std::pin::pin;
use std::sync::atomic::{AtomicUsize, Ordering};
use std::sync::{mpsc, Arc, Mutex};
use std::task::{Context, Poll, RawWaker, RawWakerVTable, Waker};
use std::time::Duration;
use tensor_blob::{compute_hash, BlobConfig, BlobStore, PutOptions};
use tensor_store::{ScalarValue, TensorStore, TensorValue};

const CS: usize = 4;

fn noop_waker() -> Waker {
    fn clone(_: *const ()) -> RawWaker { RawWaker::new(std::ptr::null(), &VT) }
    fn noop(_: *const ()) {}
    static VT: RawWakerVTable = RawWakerVTable::new(clone, noop, noop, noop);
    unsafe { Waker::from_raw(RawWaker::new(std::ptr::null(), &VT)) }
}

/// the blob store's async functions never suspend (no awaits on external events): poll until ready
fn block_on<F: Future>(f: F) -> F::Output {
    let w = noop_waker();
    let mut cx = Context::from_waker(&w);
    let mut f = pin!(f);
    loop {
        if let Poll::Ready(v) = f.as_mut().poll(&mut cx) {
            return v;
        }
        std::thread::yield_now();
    }
}

fn content(i: u64) -> Vec<u8> {
    vec![0xA0 + i as u8; CS]
}

fn mismatches(store: &TensorStore) -> Vec<String> {
    let mut want: std::collections::BTreeMap<String, i64> = std::collections::BTreeMap::new();
    for mk in store.scan("_blob:meta:") {
        if let Ok(t) = store.get(&mk) {
            if let Some(TensorValue::Pointers(cs)) = t.get("_chunks") {
                for c in cs {
                    *want.entry(c.clone()).or_insert(0) += 1;
                }
            }
        }
    }
    let mut bad = vec![];
    for ck in store.scan("_blob:chunk:") {
        let refs = store.get(&ck).ok().and_then(|t| match t.get("_refs") { Some(TensorValue::Scalar(ScalarValue::Int(i))) => Some(*i), _ => None });
        let w = want.get(&ck).copied().unwrap_or(0);
        if refs != Some(w) {
            bad.push(format!("chunk {} stores count {refs:?}, {w} references exist", &ck[..28.min(ck.len())]));
        }
    }
    for (c, _) in want {
        if !store.exists(&c) {
            bad.push(format!("referenced chunk {} is missing", &c[..28.min(c.len())]));
        }
    }
    bad
}

/// R6: two streamed writes and finish with the given chunk size, then the artifact read back.
fn chunking(req: &Value) -> Value {
    let cs = req["chunk_size"].as_u64().unwrap_or(2).max(1) as usize;
    let (l1, l2) = (req["len1"].as_u64().unwrap_or(0) as usize, req["len2"].as_u64().unwrap_or(0) as usize);
    let store = TensorStore::new();
    let cfg = BlobConfig { chunk_size: cs, ..BlobConfig::default() };
    let blob = match block_on(BlobStore::new(store.clone(), cfg)) { Ok(b) => b, Err(e) => return json!({"error": e.to_string()}) };
    let d1: Vec<u8> = (0..l1).map(|i| 0x10 + i as u8).collect();
    let d2: Vec<u8> = (0..l2).map(|i| 0x80 + i as u8).collect();
    let mut w = match block_on(blob.writer("f", PutOptions::default())) { Ok(w) => w, Err(e) => return json!({"error": e.to_string()}) };
    let r1 = block_on(w.write(&d1)).map_err(|e| e.to_string());
    let r2 = block_on(w.write(&d2)).map_err(|e| e.to_string());
    let id = match block_on(w.finish()) { Ok(i) => i, Err(e) => return json!({"finish_error": e.to_string(), "violates": l1 + l2 > 0}) };
    let back = block_on(blob.get(&id)).map_err(|e| e.to_string());
    let want: Vec<u8> = d1.iter().chain(d2.iter()).copied().collect();
    let sizes: Vec<usize> = store.get(&format!("_blob:meta:{id}")).ok().and_then(|t| match t.get("_chunks") { Some(TensorValue::Pointers(cs_)) => Some(cs_.clone()), _ => None })
        .unwrap_or_default().iter().map(|k| store.get(k).ok().and_then(|t| match t.get("_data") { Some(TensorValue::Scalar(ScalarValue::Bytes(b))) => Some(b.len()), _ => None }).unwrap_or(usize::MAX)).collect();
    let shape_ok = sizes.iter().rev().skip(1).all(|n| *n == cs) && sizes.last().map_or(true, |n| *n >= 1 && *n <= cs);
    json!({"write1": r1.err(), "write2": r2.err(), "chunk_sizes": sizes, "read_back_equal": back.as_ref().ok() == Some(&want), "read_error": back.err(),
           "violates": (l1 + l2 > 0) && (back_is_wrong(&want, &store, &id, &blob) || !shape_ok)})
}

fn back_is_wrong(want: &[u8], _store: &TensorStore, id: &str, blob: &BlobStore) -> bool {
    !matches!(block_on(blob.get(id)), Ok(ref b) if b == want)
}


/// C08 C4: n checkpoints with strictly increasing creation times, names all distinct and then all equal; enforce(max) must leave
/// exactly the newest min(n, max), each loadable by id with its own image, and report n - kept deletions.
fn retention_enforce(req: &Value) -> Value {
    use tensor_checkpoint::{CheckpointMetadata, CheckpointState, CheckpointStorage, RetentionManager};
    let n = req["n"].as_u64().unwrap_or(4).max(1);
    let n = if req["op_kind"].as_str() == Some("order") { 4 } else { n.max(2) };
    let max = req["max"].as_u64().unwrap_or(2).min(n) as usize;
    let mut bad: Vec<String> = vec![];
    for same_names in [false, true] {
        // creation order must not matter: store the newest first in one round, last in the other
        for newest_first in [false, true] {
            let blob = match block_on(BlobStore::new(TensorStore::new(), BlobConfig::default())) { Ok(b) => b, Err(e) => return json!({"error": e.to_string()}) };
            let order: Vec<u64> = if newest_first { (0..n).rev().collect() } else { (0..n).collect() };
            for i in order {
                let name = if same_names { "nightly".to_string() } else { format!("cp-{i}") };
                let mut state = CheckpointState::new(format!("id-{i}"), name, vec![i as u8 + 1], CheckpointMetadata::default());
                state.created_at = 1_000 + i;
                if let Err(e) = block_on(CheckpointStorage::store(&state, &blob)) { return json!({"error": e.to_string()}); }
            }
            let removed = match block_on(RetentionManager::new(max).enforce(&blob)) { Ok(r) => r, Err(e) => { bad.push(format!("enforce: {e}")); continue } };
            let kept = max.min(n as usize);
            if removed != n as usize - kept { bad.push(format!("same_names={same_names}: {removed} reported removed, expected {}", n as usize - kept)); }
            let list = block_on(CheckpointStorage::list(&blob)).unwrap_or_default();
            let ids: Vec<String> = list.iter().map(|c| c.id.clone()).collect();
            let want: Vec<String> = (0..n).rev().take(kept).map(|i| format!("id-{i}")).collect();
            if ids != want { bad.push(format!("same_names={same_names} newest_first={newest_first}: kept {ids:?}, expected {want:?}")); }
            for i in (0..n).rev().take(kept) {
                match block_on(CheckpointStorage::load(&format!("id-{i}"), &blob)) {
                    Ok(s) if s.store_snapshot == vec![i as u8 + 1] => {}
                    Ok(_) => bad.push(format!("id-{i} loads another image")),
                    Err(e) => bad.push(format!("id-{i}: {e}")),
                }
            }
        }
    }
    json!({"problems": bad, "violates": !bad.is_empty()})
}

pub fn handle(op: &str, req: &Value) -> Option<Value> {
    if op == "retention_enforce" {
        return Some(retention_enforce(req));
    }
    if op == "blob_step" && req["blob_op"].as_str() == Some("chunking") {
        return Some(chunking(req));
    }
    if op != "blob_step" {
        return None;
    }
    let store = TensorStore::new();
    let cfg = BlobConfig { chunk_size: CS, gc_min_age: Duration::from_secs(0), ..BlobConfig::default() };
    let blob = Arc::new(match block_on(BlobStore::new(store.clone(), cfg)) { Ok(b) => b, Err(e) => return Some(json!({"error": e.to_string()})) });
    let mut ids: Vec<String> = vec![];
    for l in req["artifacts"].as_array().into_iter().flatten() {
        let data: Vec<u8> = l.as_array().into_iter().flatten().flat_map(|i| content(i.as_u64().unwrap_or(0))).collect();
        match block_on(blob.put("f", &data, PutOptions::default())) { Ok(id) => ids.push(id), Err(e) => return Some(json!({"error": e.to_string()})) }
    }
    // an unreferenced stored chunk (count 0): written by an artifact that is deleted again
    if let Some(o) = req["orphan"].as_u64() {
        if let Ok(id) = block_on(blob.put("tmp", &content(o), PutOptions::default())) {
            let _ = block_on(blob.delete(&id));
        }
    }
    let pre = mismatches(&store);
    let target = |v: &Value| v.as_array().and_then(|a| a.first()).and_then(Value::as_u64);
    let run = {
        let ids = ids.clone();
        move |b: &BlobStore, kind: &str, t: Option<u64>| -> Result<String, String> {
            if kind == "gc" {
                // chunk timestamps are whole seconds and the collector wants `created < now - min_age` (min_age is 0 here)
                std::thread::sleep(Duration::from_millis(1100));
                return block_on(b.gc()).map(|s| format!("{s:?}")).map_err(|e| e.to_string());
            }
            if kind == "store" {
                block_on(b.put("g", &content(t.unwrap_or(7)), PutOptions::default())).map_err(|e| e.to_string())
            } else {
                let id = t.and_then(|i| ids.get(i as usize).cloned()).unwrap_or_else(|| "no-such-artifact".into());
                block_on(b.delete(&id)).map(|()| id).map_err(|e| e.to_string())
            }
        }
    };
    let (mut a_out, mut b_out) = (Value::Null, Value::Null);
    match req["blob_op"].as_str().unwrap_or("") {
        "concurrent" => {
            let window = req["window"].as_u64().unwrap_or(0) as usize;
            let (bk, bt) = (req["b"].as_str().unwrap_or("store").to_string(), target(&req["b_target"]));
            let slot: Arc<Mutex<Option<std::thread::JoinHandle<Result<String, String>>>>> = Arc::new(Mutex::new(None));
            let seen = Arc::new(AtomicUsize::new(0));
            let main_thread = std::thread::current().id();
            let (blob2, slot2, run2) = (blob.clone(), slot.clone(), run.clone());
            *tensor_blob::VERIF_REFCOUNT_WINDOW.write().unwrap() = Some(Arc::new(move |_k: &str| {
                if std::thread::current().id() != main_thread || seen.fetch_add(1, Ordering::SeqCst) != window {
                    return;
                }
                let (tx, rx) = mpsc::channel();
                let (b3, run3, bk3) = (blob2.clone(), run2.clone(), bk.clone());
                let h = std::thread::spawn(move || {
                    let r = run3(&b3, &bk3, bt);
                    let _ = tx.send(());
                    r
                });
                let _ = rx.recv_timeout(Duration::from_millis(300));
                *slot2.lock().unwrap() = Some(h);
            }));
            a_out = json!(run(&blob, req["a"].as_str().unwrap_or("store"), target(&req["a_target"])));
            *tensor_blob::VERIF_REFCOUNT_WINDOW.write().unwrap() = None;
            b_out = match slot.lock().unwrap().take() { Some(h) => json!(h.join().unwrap_or_else(|_| Err("panicked".into()))), None => json!("window not reached") };
        },
        "gc" => {
            // chunk timestamps are whole seconds and the collector wants `created < now - min_age`
            std::thread::sleep(Duration::from_millis(1100));
            a_out = json!(format!("{:?}", block_on(blob.gc())));
        },
        "full_gc" => a_out = json!(format!("{:?}", block_on(blob.full_gc()))),
        "store_chunk" => {
            // the writer has already stored `writer_already_stored` in this artifact: one put whose data repeats those chunks
            let mut data: Vec<u8> = req["writer_already_stored"].as_array().into_iter().flatten().flat_map(|i| content(i.as_u64().unwrap_or(0))).collect();
            data.extend(content(target(&req["content_equals"]).unwrap_or(7)));
            a_out = json!(block_on(blob.put("g", &data, PutOptions::default())).map_err(|e| e.to_string()));
        },
        _ => a_out = json!(run(&blob, "delete", target(&req["deletes"]))),
    }
    let post = mismatches(&store);
    Some(json!({"pre_mismatch": pre, "first": a_out, "second": b_out, "mismatch": post, "violates": pre.is_empty() && !post.is_empty()}))
}
