//! C05 (sequential half): one GraphEngine operation on a small graph built through the public API, then the structural
//! consistency of the property checked through the public read API.
use graph_engine::{Direction, GraphEngine};
use serde_json::{json, Value};
use std::collections::{BTreeSet, HashMap};
use std::sync::atomic::{AtomicUsize, Ordering};
use std::sync::{mpsc, Arc, Mutex};
use std::time::Duration;

fn consistent(g: &GraphEngine, nodes: &[u64]) -> Vec<String> {
    let mut bad = vec![];
    let edges = g.all_edges();
    let live: Vec<u64> = nodes.iter().copied().filter(|n| g.node_exists(*n)).collect();
    for e in &edges {
        if !g.node_exists(e.from) || !g.node_exists(e.to) {
            bad.push(format!("edge {} has a missing endpoint", e.id));
        }
    }
    for n in &live {
        let want_out: BTreeSet<u64> = edges.iter().filter(|e| e.from == *n || (!e.directed && e.to == *n)).map(|e| e.id).collect();
        let want_in: BTreeSet<u64> = edges.iter().filter(|e| e.to == *n || (!e.directed && e.from == *n)).map(|e| e.id).collect();
        let got_out: BTreeSet<u64> = g.edges_of(*n, Direction::Outgoing).unwrap_or_default().iter().map(|e| e.id).collect();
        let got_in: BTreeSet<u64> = g.edges_of(*n, Direction::Incoming).unwrap_or_default().iter().map(|e| e.id).collect();
        if got_out != want_out || got_in != want_in {
            bad.push(format!("node {n}: lists out {got_out:?} in {got_in:?}, edges imply out {want_out:?} in {want_in:?}"));
        }
        // degrees count list entries, so an entry for an edge that no longer exists shows up here
        if g.out_degree(*n).unwrap_or(usize::MAX) != want_out.len() || g.in_degree(*n).unwrap_or(usize::MAX) != want_in.len() {
            bad.push(format!("node {n}: degrees {:?}/{:?}, edges imply {}/{}", g.out_degree(*n), g.in_degree(*n), want_out.len(), want_in.len()));
        }
    }
    bad
}

/// S5: max(ids) nodes and edges created through the API, the engine re-created over the same store, one more node and edge.
fn reopen(req: &Value) -> Value {
    let n = req["ids"].as_array().into_iter().flatten().filter_map(Value::as_u64).max().unwrap_or(1).min(300);
    let g = GraphEngine::new();
    let nodes: Vec<u64> = (0..n).map(|_| g.create_node("N", HashMap::new()).unwrap()).collect();
    let edges: Vec<u64> = (0..n as usize).map(|i| g.create_edge(nodes[i], nodes[(i + 1) % n as usize], "T", HashMap::new(), true).unwrap()).collect();
    let before: Vec<(u64, u64, u64)> = g.all_edges().iter().map(|e| (e.id, e.from, e.to)).collect();
    let store = g.store().clone();
    drop(g);
    let g2 = if req["constructor"].as_str() == Some("with_store_and_config") { GraphEngine::with_store_and_config(store, graph_engine::GraphEngineConfig::default()) } else { GraphEngine::with_store(store) };
    let new_node = g2.create_node("N", HashMap::new()).unwrap();
    let new_edge = g2.create_edge(nodes[0], nodes[0], "NEW", HashMap::new(), true).unwrap();
    let mut bad = vec![];
    if nodes.contains(&new_node) { bad.push(format!("new node reused id {new_node}")); }
    if edges.contains(&new_edge) { bad.push(format!("new edge reused id {new_edge}")); }
    let after: Vec<(u64, u64, u64)> = g2.all_edges().iter().map(|e| (e.id, e.from, e.to)).collect();
    if before.iter().any(|e| !after.contains(e)) { bad.push("an edge that existed before the reopen changed or vanished".into()); }
    let mut all_nodes = nodes.clone();
    all_nodes.push(new_node);
    bad.extend(consistent(&g2, &all_nodes));
    json!({"new_node": new_node, "new_edge": new_edge, "problems": bad, "violates": !bad.is_empty()})
}


/// C18 P1: a graph built through the public API, one find_path(from, to); the answer is judged against a breadth-first search that
/// follows directed edges forwards only and undirected edges both ways.
fn find_path(req: &Value) -> Value {
    let g = GraphEngine::new();
    let wn: Vec<u64> = req["nodes"].as_array().into_iter().flatten().filter_map(Value::as_u64).collect();
    let nodes: Vec<u64> = wn.iter().map(|_| g.create_node("N", HashMap::new()).unwrap()).collect();
    let node_of = |w: u64| wn.iter().position(|x| *x == w).map_or(900_000 + (w % 1000), |i| nodes[i]);
    let mut es: Vec<(u64, u64, u64, bool)> = vec![];
    for e in req["edges"].as_array().into_iter().flatten() {
        let (a, b, d) = (nodes[e[0].as_u64().unwrap_or(0) as usize], nodes[e[1].as_u64().unwrap_or(0) as usize], e[3].as_bool().unwrap_or(true));
        es.push((g.create_edge(a, b, "T", HashMap::new(), d).unwrap(), a, b, d));
    }
    let (from, to) = (node_of(req["arg1"].as_u64().unwrap_or(0)), node_of(req["arg2"].as_u64().unwrap_or(0)));
    let step = |a: u64, b: u64, id: Option<u64>| es.iter().any(|(eid, f, t, d)| id.map_or(true, |i| i == *eid) && ((*f == a && *t == b) || (!*d && *f == b && *t == a)));
    // reference distances
    let mut dist: HashMap<u64, usize> = HashMap::new();
    let mut queue = std::collections::VecDeque::new();
    if nodes.contains(&from) {
        dist.insert(from, 0);
        queue.push_back(from);
    }
    while let Some(c) = queue.pop_front() {
        for n in &nodes {
            if !dist.contains_key(n) && step(c, *n, None) {
                dist.insert(*n, dist[&c] + 1);
                queue.push_back(*n);
            }
        }
    }
    let mut bad: Vec<String> = vec![];
    let outcome = match g.find_path(from, to, None) {
        Ok(p) => {
            if p.nodes.first() != Some(&from) || p.nodes.last() != Some(&to) { bad.push(format!("path {:?} does not run from {from} to {to}", p.nodes)); }
            if p.edges.len() + 1 != p.nodes.len() { bad.push("edge list does not match node list".into()); }
            for (i, w) in p.nodes.windows(2).enumerate() {
                if !step(w[0], w[1], p.edges.get(i).copied()) { bad.push(format!("step {} -> {} via edge {:?} is not an edge in that direction", w[0], w[1], p.edges.get(i))); }
            }
            match dist.get(&to) {
                Some(d) if *d == p.edges.len() => {}
                Some(d) => bad.push(format!("path has {} hops, a path with {d} exists", p.edges.len())),
                None => bad.push("a path was returned although none exists".into()),
            }
            json!({"ok": {"nodes": p.nodes, "edges": p.edges}})
        }
        Err(e) => {
            let s = e.to_string();
            if nodes.contains(&from) && nodes.contains(&to) && dist.contains_key(&to) { bad.push(format!("{s} although a path with {} hops exists", dist[&to])); }
            if !(nodes.contains(&from) && nodes.contains(&to)) && !s.to_lowercase().contains("not found") { bad.push(format!("unexpected error {s}")); }
            json!({"err": s})
        }
    };
    json!({"outcome": outcome, "problems": bad, "violates": !bad.is_empty()})
}

/// C18 P2: find_variable_paths against an enumeration of the walks within the hop window
fn variable_paths(req: &Value) -> Value {
    let g = GraphEngine::new();
    let wn: Vec<u64> = req["nodes"].as_array().into_iter().flatten().filter_map(Value::as_u64).collect();
    let nodes: Vec<u64> = wn.iter().map(|_| g.create_node("N", HashMap::new()).unwrap()).collect();
    let node_of = |w: u64| wn.iter().position(|x| *x == w).map_or(900_000 + (w % 1000), |i| nodes[i]);
    let mut es: Vec<(u64, u64, u64, bool)> = vec![];
    for e in req["edges"].as_array().into_iter().flatten() {
        let (a, b, d) = (nodes[e[0].as_u64().unwrap_or(0) as usize], nodes[e[1].as_u64().unwrap_or(0) as usize], e[3].as_bool().unwrap_or(true));
        es.push((g.create_edge(a, b, "T", HashMap::new(), d).unwrap(), a, b, d));
    }
    let (from, to) = (node_of(req["arg1"].as_u64().unwrap_or(0)), node_of(req["arg2"].as_u64().unwrap_or(0)));
    let (lo, hi, cycles) = (req["min_hops"].as_u64().unwrap_or(1) as usize, req["max_hops"].as_u64().unwrap_or(2) as usize, req["allow_cycles"].as_bool().unwrap_or(false));
    fn go(es: &[(u64, u64, u64, bool)], cur: u64, to: u64, lo: usize, hi: usize, cycles: bool, seen: &mut Vec<u64>, edges: &mut Vec<u64>, out: &mut std::collections::BTreeSet<Vec<u64>>) {
        if edges.len() >= lo && edges.len() <= hi && cur == to { out.insert(edges.clone()); }
        if edges.len() == hi { return; }
        for (id, f, t, d) in es {
            let mut steps = vec![];
            if *f == cur { steps.push(*t); }
            if !*d && *t == cur && *f != *t { steps.push(*f); }
            for n in steps {
                if !cycles && seen.contains(&n) { continue; }
                seen.push(n); edges.push(*id);
                go(es, n, to, lo, hi, cycles, seen, edges, out);
                seen.pop(); edges.pop();
            }
        }
    }
    let mut want = std::collections::BTreeSet::new();
    go(&es, from, to, lo, hi, cycles, &mut vec![from], &mut vec![], &mut want);
    let cfg = graph_engine::VariableLengthConfig { min_hops: lo, max_hops: hi, direction: graph_engine::Direction::Outgoing, edge_types: None, max_paths: 1000, allow_cycles: cycles, filter: None };
    match g.find_variable_paths(from, to, cfg) {
        Ok(r) => {
            let got: Vec<Vec<u64>> = r.paths.iter().map(|p| p.edges.clone()).collect();
            let got_set: std::collections::BTreeSet<Vec<u64>> = got.iter().cloned().collect();
            let bad = got_set != want || got_set.len() != got.len();
            json!({"returned": got, "walks_in_bounds": want.iter().cloned().collect::<Vec<_>>(), "violates": bad})
        }
        Err(e) => json!({"err": e.to_string(), "violates": true}),
    }
}

/// C18 P3: two nodes joined by parallel directed edges with the given weights (creation order = list order); the total weight A*
/// and the Dijkstra search report must be the least of them.
fn astar_parallel(req: &Value) -> Value {
    let g = GraphEngine::new();
    let a = g.create_node("N", HashMap::new()).unwrap();
    let b = g.create_node("N", HashMap::new()).unwrap();
    let ws: Vec<f64> = req["weight_bits"].as_array().into_iter().flatten().filter_map(Value::as_u64).map(f64::from_bits).collect();
    for w in &ws {
        let mut p = HashMap::new();
        p.insert("weight".to_string(), graph_engine::PropertyValue::Float(*w));
        g.create_edge(a, b, "T", p, true).unwrap();
    }
    let best = ws.iter().copied().fold(f64::INFINITY, f64::min);
    let cfg = graph_engine::AStarConfig::new().direction(graph_engine::Direction::Outgoing);
    let astar = g.astar_path(a, b, &cfg).ok().and_then(|r| r.total_weight());
    let dijkstra = g.find_weighted_path(a, b, "weight").ok().map(|p| p.total_weight);
    json!({"weights": ws, "astar_total": astar, "dijkstra_total": dijkstra, "cheapest": best, "violates": astar != Some(best) || dijkstra != Some(best)})
}

/// C18 P4: count_triangles against the textbook count (unordered node triples that are pairwise adjacent) on an undirected simple graph
fn triangles(req: &Value) -> Value {
    let g = GraphEngine::new();
    let n = req["n"].as_u64().unwrap_or(3) as usize;
    let created: Vec<u64> = (0..n).map(|_| g.create_node("N", HashMap::new()).unwrap()).collect();
    // the witness fixes how the node ids compare: abstract node i gets the created id of the same rank
    let wid: Vec<u64> = req["node_ids"].as_array().map_or_else(|| (0..n as u64).collect(), |a| a.iter().filter_map(Value::as_u64).collect());
    let rank = |i: usize| wid.iter().filter(|x| **x < wid[i]).count();
    let nodes: Vec<u64> = (0..n).map(|i| if wid.len() == n { created[rank(i)] } else { created[i] }).collect();
    let mut adj = vec![vec![false; n]; n];
    for e in req["edges"].as_array().into_iter().flatten() {
        let (a, b) = (e[0].as_u64().unwrap_or(0) as usize, e[1].as_u64().unwrap_or(0) as usize);
        if a == b || adj[a][b] { continue; }
        adj[a][b] = true; adj[b][a] = true;
        g.create_edge(nodes[a], nodes[b], "T", HashMap::new(), false).unwrap();
    }
    let mut want = 0usize;
    for a in 0..n { for b in a + 1..n { for c in b + 1..n { if adj[a][b] && adj[b][c] && adj[a][c] { want += 1; } } } }
    match g.count_triangles(&graph_engine::TriangleConfig::default()) {
        Ok(r) => json!({"counted": r.triangle_count, "triangles": want, "violates": r.triangle_count != want}),
        Err(e) => json!({"err": e.to_string(), "violates": true}),
    }
}

/// C18 P5: find_weighted_path against the cheapest simple directed walk (weights >= 0)
fn weighted_path(req: &Value) -> Value {
    let g = GraphEngine::new();
    let wn: Vec<u64> = req["nodes"].as_array().into_iter().flatten().filter_map(Value::as_u64).collect();
    let nodes: Vec<u64> = wn.iter().map(|_| g.create_node("N", HashMap::new()).unwrap()).collect();
    let node_of = |w: u64| wn.iter().position(|x| *x == w).map_or(900_000 + (w % 1000), |i| nodes[i]);
    let ws: Vec<f64> = req["weight_bits"].as_array().into_iter().flatten().filter_map(Value::as_u64).map(f64::from_bits).collect();
    let mut es: Vec<(u64, u64, u64, bool, f64)> = vec![];
    for (j, e) in req["edges"].as_array().into_iter().flatten().enumerate() {
        let (a, b, d) = (nodes[e[0].as_u64().unwrap_or(0) as usize], nodes[e[1].as_u64().unwrap_or(0) as usize], e[3].as_bool().unwrap_or(true));
        let mut p = HashMap::new();
        p.insert("weight".to_string(), graph_engine::PropertyValue::Float(ws.get(j).copied().unwrap_or(1.0)));
        es.push((g.create_edge(a, b, "T", p, d).unwrap(), a, b, d, ws.get(j).copied().unwrap_or(1.0)));
    }
    let (from, to) = (node_of(req["arg1"].as_u64().unwrap_or(0)), node_of(req["arg2"].as_u64().unwrap_or(0)));
    fn go(es: &[(u64, u64, u64, bool, f64)], cur: u64, to: u64, seen: &mut Vec<u64>, cost: f64, best: &mut Option<f64>) {
        if cur == to { if best.map_or(true, |b| cost < b) { *best = Some(cost); } return; }
        for (_, f, t, d, w) in es {
            let mut steps = vec![];
            if *f == cur { steps.push(*t); }
            if !*d && *t == cur && *f != *t { steps.push(*f); }
            for n in steps { if !seen.contains(&n) { seen.push(n); go(es, n, to, seen, cost + w, best); seen.pop(); } }
        }
    }
    let mut best = None;
    go(&es, from, to, &mut vec![from], 0.0, &mut best);
    let mut bad: Vec<String> = vec![];
    let outcome = match g.find_weighted_path(from, to, "weight") {
        Ok(p) => {
            let mut sum = 0.0;
            for (i, w) in p.nodes.windows(2).enumerate() {
                match es.iter().find(|(id, f, t, d, _)| Some(id) == p.edges.get(i) && ((*f == w[0] && *t == w[1]) || (!*d && *f == w[1] && *t == w[0]))) {
                    Some(e) => sum += e.4,
                    None => bad.push(format!("step {} -> {} via edge {:?} is not an edge in that direction", w[0], w[1], p.edges.get(i))),
                }
            }
            if p.nodes.first() != Some(&from) || p.nodes.last() != Some(&to) { bad.push("path does not run from `from` to `to`".into()); }
            if sum != p.total_weight { bad.push(format!("total_weight {} but the edges add up to {sum}", p.total_weight)); }
            match best { Some(b) if b < p.total_weight => bad.push(format!("total {} although a walk of weight {b} exists", p.total_weight)), None => bad.push("a path was returned although none exists".into()), _ => {} }
            json!({"ok": {"nodes": p.nodes, "edges": p.edges, "total": p.total_weight}})
        }
        Err(e) => { if best.is_some() { bad.push(format!("{e} although a walk exists")); } json!({"err": e.to_string()}) }
    };
    json!({"outcome": outcome, "cheapest": best, "problems": bad, "violates": !bad.is_empty()})
}

pub fn handle(op: &str, req: &Value) -> Option<Value> {
    if op == "graph_weighted_path" {
        return Some(weighted_path(req));
    }
    if op == "graph_triangles" {
        return Some(triangles(req));
    }
    if op == "graph_astar_parallel" {
        return Some(astar_parallel(req));
    }
    if op == "graph_variable_paths" {
        return Some(variable_paths(req));
    }
    if op == "graph_find_path" {
        return Some(find_path(req));
    }
    if op == "graph_reopen" {
        return Some(reopen(req));
    }
    if op != "graph_step" {
        return None;
    }
    let g = Arc::new(GraphEngine::new());
    let wn: Vec<u64> = req["nodes"].as_array().into_iter().flatten().filter_map(Value::as_u64).collect();
    let nodes: Vec<u64> = wn.iter().map(|_| g.create_node("N", HashMap::new()).unwrap()).collect();
    let node_of = |w: u64| wn.iter().position(|x| *x == w).map_or(900_000 + (w % 1000), |i| nodes[i]);
    let mut we: Vec<u64> = vec![];
    let mut edges: Vec<u64> = vec![];
    for e in req["edges"].as_array().into_iter().flatten() {
        let (a, b) = (e[0].as_u64().unwrap_or(0) as usize, e[1].as_u64().unwrap_or(0) as usize);
        we.push(e[2].as_u64().unwrap_or(0));
        edges.push(g.create_edge(nodes[a], nodes[b], "T", HashMap::new(), e[3].as_bool().unwrap_or(true)).unwrap());
    }
    let edge_of = |w: u64| we.iter().position(|x| *x == w).map_or(900_000 + (w % 1000), |i| edges[i]);
    let pre = consistent(&g, &nodes);
    // second thread: its create_edge is started inside the `window`-th adjacency read-modify-write window of the main call
    // (schedule hook); the window stays open until that call returns or, if it blocks on something the main call holds,
    // for at most 300 ms.
    let conc = &req["concurrent"];
    let b_result: Arc<Mutex<Option<std::thread::JoinHandle<Result<u64, String>>>>> = Arc::new(Mutex::new(None));
    let mut b_edge: Option<(u64, u64, bool)> = None;
    if conc.is_object() {
        let (bf, bt, bd) = (node_of(conc["from"].as_u64().unwrap_or(0)), node_of(conc["to"].as_u64().unwrap_or(0)), conc["directed"].as_bool().unwrap_or(true));
        b_edge = Some((bf, bt, bd));
        let window = conc["window"].as_u64().unwrap_or(0) as usize;
        let seen = Arc::new(AtomicUsize::new(0));
        let (g2, slot) = (g.clone(), b_result.clone());
        let main_thread = std::thread::current().id();
        let at_checks = conc["window"].as_str() == Some("endpoints_checked");
        let del = conc["delete_node"].as_u64().map(node_of);
        *graph_engine::VERIF_RMW_WINDOW.write() = Some(Arc::new(move |key: &str| {
            if std::thread::current().id() != main_thread {
                return;
            }
            // adjacency windows are labelled with the list key; the point after create_edge's endpoint checks has its own label
            let is_list = key.starts_with("node:");
            if at_checks {
                if is_list || seen.fetch_add(1, Ordering::SeqCst) != 0 {
                    return;
                }
            } else if !is_list || seen.fetch_add(1, Ordering::SeqCst) != window {
                return;
            }
            let (tx, rx) = mpsc::channel();
            let g3 = g2.clone();
            let h = std::thread::spawn(move || {
                let r = match del {
                    Some(n) => g3.delete_node(n).map(|()| 0).map_err(|e| e.to_string()),
                    None => g3.create_edge(bf, bt, "B", HashMap::new(), bd).map_err(|e| e.to_string()),
                };
                let _ = tx.send(());
                r
            });
            // inside a list window the other thread may block on the list's lock (then the window closes after 300 ms); after
            // create_edge's endpoint checks nothing is held, so the other thread is simply waited for
            let _ = rx.recv_timeout(Duration::from_millis(if at_checks { 20_000 } else { 300 }));
            *slot.lock().unwrap() = Some(h);
        }));
    }
    let before: Vec<(u64, u64, u64, bool)> = g.all_edges().iter().map(|e| (e.id, e.from, e.to, e.directed)).collect();
    let (a1, a2) = (req["arg1"].as_u64().unwrap_or(0), req["arg2"].as_u64().unwrap_or(0));
    let mut bad: Vec<String> = vec![];
    let outcome = match req["graph_call"].as_str().unwrap_or("") {
        "create_edge_with_property" => {
            // a user property whose name is that of a system field; the value maps through the same node table
            let (f, t, d) = (node_of(a1), node_of(a2), req["new_directed"].as_bool().unwrap_or(true));
            let name = req["property"].as_str().unwrap_or("plain").to_string();
            let v = req["value"].as_u64().unwrap_or(0);
            let v = if name == "_from" || name == "_to" { node_of(v) } else { v };
            let mut props = HashMap::new();
            props.insert(name, if req["value"].is_null() { graph_engine::PropertyValue::Null } else { graph_engine::PropertyValue::Int(v as i64) });
            match g.create_edge(f, t, "NEW", props, d) {
                Ok(id) => {
                    match g.get_edge(id) { Ok(e) if e.from == f && e.to == t && e.directed == d => {}, other => bad.push(format!("created edge ({f} -> {t}, directed {d}) reads back as {other:?}")) }
                    format!("Ok({id})")
                },
                Err(e) => format!("Err({e})"),
            }
        },
        "update_edge_with_property" => {
            let id = edge_of(a1);
            let name = req["property"].as_str().unwrap_or("plain").to_string();
            let v = req["value"].as_u64().unwrap_or(0);
            let v = if name == "_from" || name == "_to" { node_of(v) } else { v };
            let mut props = HashMap::new();
            props.insert(name, if req["value"].is_null() { graph_engine::PropertyValue::Null } else { graph_engine::PropertyValue::Int(v as i64) });
            let r = g.update_edge(id, props);
            let after: Vec<(u64, u64, u64, bool)> = g.all_edges().iter().map(|e| (e.id, e.from, e.to, e.directed)).collect();
            let (mut b2, mut a2_) = (before.clone(), after);
            b2.sort();
            a2_.sort();
            if b2 != a2_ { bad.push(format!("update_edge changed the structure: {b2:?} -> {a2_:?}")); }
            for (eid, ..) in &before {
                if g.get_edge(*eid).is_err() { bad.push(format!("edge {eid} is no longer readable")); }
            }
            match r { Ok(()) => "Ok".to_string(), Err(e) => format!("Err({e}) ") }.replace("Err", "Refused")
        },
        "create_edge" => {
            let (f, t, d) = (node_of(a1), node_of(a2), req["new_directed"].as_bool().unwrap_or(true));
            match g.create_edge(f, t, "NEW", HashMap::new(), d) {
                Ok(id) => {
                    match g.get_edge(id) { Ok(e) if e.from == f && e.to == t && e.directed == d => {}, other => bad.push(format!("created edge reads back as {other:?}")) }
                    if !g.node_exists(f) || !g.node_exists(t) { bad.push("edge created on a missing node".into()); }
                    format!("Ok({id})")
                },
                Err(e) => { if g.node_exists(f) && g.node_exists(t) { bad.push(format!("refused between existing nodes: {e}")); } format!("Err({e})") },
            }
        },
        "delete_edge" => {
            let id = edge_of(a1);
            match g.delete_edge(id) {
                Ok(()) => { if g.get_edge(id).is_ok() { bad.push("deleted edge still readable".into()); } "Ok".into() },
                Err(e) => { if edges.contains(&id) { bad.push(format!("existing edge not deleted: {e}")); } format!("Err({e})") },
            }
        },
        _ => {
            let id = node_of(a1);
            match g.delete_node(id) {
                Ok(()) => {
                    if g.node_exists(id) { bad.push("deleted node still exists".into()); }
                    if g.all_edges().iter().any(|e| e.from == id || e.to == id) { bad.push("an edge of the deleted node survives".into()); }
                    "Ok".into()
                },
                Err(e) => { if nodes.contains(&id) { bad.push(format!("existing node not deleted: {e}")); } format!("Err({e})") },
            }
        },
    };
    *graph_engine::VERIF_RMW_WINDOW.write() = None;
    let mut b_outcome = Value::Null;
    if let Some(h) = b_result.lock().unwrap().take() {
        match h.join() {
            Ok(Ok(id)) if conc["delete_node"].is_u64() => b_outcome = json!(format!("deleted (Ok({id}))")),
            Ok(Ok(id)) => {
                b_outcome = json!(format!("Ok({id})"));
                let (bf, bt, bd) = b_edge.unwrap();
                match g.get_edge(id) { Ok(e) if e.from == bf && e.to == bt && e.directed == bd => {}, other => bad.push(format!("second thread's edge reads back as {other:?}")) }
            },
            Ok(Err(e)) => b_outcome = json!(format!("Err({e})")),
            Err(_) => b_outcome = json!("panicked"),
        }
    } else if conc.is_object() {
        b_outcome = json!("window not reached");
    }
    if outcome.starts_with("Err") && !conc.is_object() {
        let after: Vec<(u64, u64, u64, bool)> = g.all_edges().iter().map(|e| (e.id, e.from, e.to, e.directed)).collect();
        let mut b = before.clone();
        let mut a = after;
        b.sort();
        a.sort();
        if a != b { bad.push("a refused call changed the edges".into()); }
    }
    bad.extend(consistent(&g, &nodes));
    Some(json!({"pre_inconsistent": pre, "outcome": outcome, "second_thread": b_outcome, "problems": bad, "violates": pre.is_empty() && !bad.is_empty()}))
}
