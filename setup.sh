#!/bin/bash
# one-time, offline: build the native replay driver and warm the MIR dump dependency cache
cd "$(dirname "$0")"
export CARGO_NET_OFFLINE=true
V=$PWD
mkdir -p .build evidence
cp /repo/Cargo.lock replay/Cargo.lock
CARGO_TARGET_DIR=$PWD/.build/replay cargo build --offline --release --manifest-path replay/Cargo.toml 2>&1 | tail -2
for c in tensor_compress tensor_chain tensor_store neumann_parser relational_engine graph_engine; do
  (cd /repo && CARGO_TARGET_DIR=$V/.build/mir cargo +nightly rustc --offline --lib -p $c -- -Zunpretty=mir -C debug-assertions=off -C overflow-checks=on >/dev/null 2>&1) || echo "warm $c failed"
done
echo setup done
