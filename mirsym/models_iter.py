"""Iterator adaptors and consumers, lazily, with closures executed from their own MIR.

Every iterator is an IterObj:
  kind 'list'  : items (already materialised values), pos
  kind 'range' : extra = [cur Int, end Int, inclusive bool]
  adaptors     : extra = dict(inner=IterObj, f=closure value, ...)
`iter_next` NativeFrames pull one element; `consume` NativeFrames drive a whole loop.
"""
import z3
from .values import *
from .models import (model, pattern, cont, some, none, ok, err, usize, deref, as_seq, as_map, elem_ptrs,
                     is_variant, payload, new_cell_ptr, option_inner_ty, _is_plain)
from .rtypes import parse_type
from .exec import START, PUSHED, NativeFrame, Panic, copy_val, TypedPtr

SIMPLE = ('list', 'slice', 'vec', 'windows')


def adt_name(v):
    if isinstance(v, (Struct, Enum)) and isinstance(v.ty, str):
        try:
            return parse_type(v.ty).name
        except Exception:
            return None
    return None


def to_iter(st, v):
    """IterObj for anything iterable by value/reference."""
    from .exec import SeqView
    if isinstance(v, IterObj):
        return v
    inner = deref(st, v)
    if isinstance(inner, IterObj):
        return inner
    if isinstance(inner, (Seq, SeqView)):
        if isinstance(v, Ptr):
            return IterObj(elem_ptrs(st, inner), 0, 'list')
        return IterObj(list(inner.items(st)), 0, 'list')
    if isinstance(inner, Map):
        inner.force(st)
        byref = isinstance(v, Ptr)
        items = []
        for i in range(len(inner.keys)):
            if inner.is_set:
                items.append(new_cell_ptr(inner.keys[i]) if byref else inner.keys[i])
            else:
                if byref:
                    items.append(Struct('(&K, &V)', {0: new_cell_ptr(inner.keys[i]), 1: TypedPtr(inner, i, inner.vty)}))
                else:
                    items.append(Struct('(K, V)', {0: inner.keys[i], 1: inner.load(i, None, st)}))
        return map_order(st, inner, items)
    if isinstance(inner, Struct) and adt_name(inner) in ('Range', 'RangeInclusive'):
        incl = adt_name(inner) == 'RangeInclusive'
        return IterObj([], 0, 'range', [inner.load(0, None, st), inner.load(1, None, st), incl])
    if isinstance(inner, Enum) and adt_name(inner) == 'Option':
        if is_variant(st, inner, 'Some'):
            return IterObj([payload(st, inner, 'Some', 0, option_inner_ty(inner))], 0, 'list')
        return IterObj([], 0, 'list')
    raise Unsupported(f'iteration over {type(inner).__name__} {getattr(inner, "ty", "")}')


def map_order(st, m, items):
    """iteration order of a hash container is unspecified: explore every order when the
    executor asks for it (thorough), insertion order otherwise.  Ordered maps need their
    keys compared: supported for integer keys by forking on the permutation that sorts them."""
    n = len(items)
    if n <= 1:
        return IterObj(items, 0, 'list')
    if m.ordered:
        import itertools
        perms = list(itertools.permutations(range(n)))
        feas = []
        for p in perms:
            cs = []
            for a, b in zip(p, p[1:]):
                ka, kb = m.keys[a], m.keys[b]
                cs.append(key_lt(st, ka, kb))
            c = z3.simplify(z3.And(cs))
            if not z3.is_false(c) and st.feasible(c):
                feas.append((p, c))
        i = st.choose(len(feas), 'btree order')
        st.assume(feas[i][1])
        return IterObj([items[j] for j in feas[i][0]], 0, 'list')
    if st.ex.all_orders:
        import itertools
        perms = list(itertools.permutations(range(n)))
        i = st.choose(len(perms), 'hash order')
        return IterObj([items[j] for j in perms[i]], 0, 'list')
    return IterObj(items, 0, 'list')


def key_lt(st, a, b):
    if isinstance(a, Int):
        return (a.v < b.v) if a.signed else z3.ULT(a.v, b.v)
    if isinstance(a, Str):
        # abstract strings: order by id (an arbitrary but fixed total order)
        return z3.ULT(a.id, b.id)
    if isinstance(a, Struct):
        ks = sorted(set(a.fields) | set(b.fields))
        r = z3.BoolVal(False)
        for k in reversed(ks):
            x, y = a.load(k, None, st), b.load(k, None, st)
            r = z3.Or(key_lt(st, x, y), z3.And(st.val_eq(x, y), r))
        return r
    raise Unsupported('ordered map with key type ' + type(a).__name__)


def simple_next(st, it):
    """(done, value) for iterators that need no calls; None if `it` is an adaptor."""
    if it.kind in SIMPLE:
        if it.pos >= len(it.items):
            return (True, None)
        v = it.items[it.pos]
        it.pos += 1
        return (False, v)
    if it.kind == 'range':
        cur, end, incl = it.extra[:3]
        c = (cur.v <= end.v if cur.signed else z3.ULE(cur.v, end.v)) if incl else \
            (cur.v < end.v if cur.signed else z3.ULT(cur.v, end.v))
        if incl and len(it.extra) > 3 and it.extra[3]:
            return (True, None)
        if st.branch(c, 'range next'):
            if incl:
                # exhausted flag when cur == end
                last = st.branch(cur.v == end.v, 'range last')
                if last:
                    it.extra = [cur, end, incl, True]
                    return (False, cur)
            it.extra = [Int(z3.simplify(cur.v + 1), cur.signed), end, incl] + it.extra[3:]
            return (False, cur)
        return (True, None)
    return None


# ------------------------------------------------------------------ next

@pattern(r'^<.* as Iterator>::next$|^<.* as DoubleEndedIterator>::next_back$')
def m_iter_next(c):
    it = deref(c.st, c.args[0])
    if not isinstance(it, IterObj):
        it2 = None
        if isinstance(it, Struct) and adt_name(it) in ('Range', 'RangeInclusive'):
            # Range used directly as iterator state: mutate the struct in place
            a, b = it.load(0, None, c.st), it.load(1, None, c.st)
            if adt_name(it) == 'RangeInclusive':
                raise Unsupported('RangeInclusive::next in place')
            lt = (a.v < b.v) if a.signed else z3.ULT(a.v, b.v)
            if c.st.branch(lt, 'range next'):
                it.fields[0] = Int(z3.simplify(a.v + 1), a.signed)
                return some(a)
            return none()
        raise Unsupported('next on ' + type(it).__name__)
    if c.canon.endswith('next_back'):
        if it.kind in SIMPLE:
            if it.pos >= len(it.items):
                return none()
            return some(it.items.pop())
        raise Unsupported('next_back on adaptor')
    r = simple_next(c.st, it)
    if r is not None:
        return none() if r[0] else some(r[1])
    return c.native('iter_next', {'it': it, 'stage': 0})


def push_next(st, it):
    st.frames.append(NativeFrame('iter_next', {'it': it, 'stage': 0}, None, None))


@cont('iter_next')
def k_iter_next(st, fr, rv):
    """deliver Option<item> of fr.data['it'] via native_return"""
    ex = st.ex
    d = fr.data
    it = d['it']
    r = simple_next(st, it)
    if r is not None:
        return ex.native_return(st, fr, none() if r[0] else some(r[1]))
    k = it.kind
    x = it.extra
    if k in ('map', 'filter', 'filter_map', 'take_while', 'skip_while', 'inspect', 'map_while'):
        if d['stage'] == 0:
            d['stage'] = 1
            return push_next(st, x['inner'])
        if d['stage'] == 1:
            if rv.disc == 0:
                return ex.native_return(st, fr, none())
            v = rv.fields[('Some', 0)]
            d['cur'] = v
            d['stage'] = 2
            arg = v if k in ('map', 'filter_map', 'map_while') else new_cell_ptr(v)
            return ex.call_value(st, x['f'], [arg], None, None)
        # stage 2: closure returned rv
        d['stage'] = 0
        if k == 'map':
            return ex.native_return(st, fr, some(rv))
        if k == 'inspect':
            return ex.native_return(st, fr, some(d['cur']))
        if k == 'filter':
            if st.branch(rv, 'filter'):
                return ex.native_return(st, fr, some(d['cur']))
            d['stage'] = 1
            return push_next(st, x['inner'])
        if k == 'filter_map':
            if is_variant(st, rv, 'Some', 'filter_map'):
                return ex.native_return(st, fr, rv)
            d['stage'] = 1
            return push_next(st, x['inner'])
        if k == 'map_while':
            return ex.native_return(st, fr, rv)
        if k == 'take_while':
            if x.get('done'):
                return ex.native_return(st, fr, none())
            if st.branch(rv, 'take_while'):
                return ex.native_return(st, fr, some(d['cur']))
            x['done'] = True
            return ex.native_return(st, fr, none())
        if k == 'skip_while':
            if x.get('passed') or not st.branch(rv, 'skip_while'):
                x['passed'] = True
                return ex.native_return(st, fr, some(d['cur']))
            d['stage'] = 1
            return push_next(st, x['inner'])
    if k == 'zip':
        if d['stage'] == 0:
            d['stage'] = 1
            return push_next(st, x['a'])
        if d['stage'] == 1:
            if rv.disc == 0:
                return ex.native_return(st, fr, none())
            d['cur'] = rv.fields[('Some', 0)]
            d['stage'] = 2
            return push_next(st, x['b'])
        d['stage'] = 0
        if rv.disc == 0:
            return ex.native_return(st, fr, none())
        return ex.native_return(st, fr, some(Struct('(A, B)', {0: d['cur'], 1: rv.fields[('Some', 0)]})))
    if k in ('enumerate', 'cloned', 'copied', 'take', 'skip', 'peekable', 'fuse', 'by_ref'):
        if d['stage'] == 0:
            if k == 'peekable' and x.get('peeked') is not None:
                p = x['peeked']
                x['peeked'] = None
                return ex.native_return(st, fr, p)
            if k == 'take' and x['n'] <= 0:
                return ex.native_return(st, fr, none())
            d['stage'] = 1
            return push_next(st, x['inner'])
        d['stage'] = 0
        if k == 'skip' and x['n'] > 0 and rv.disc == 1:
            x['n'] -= 1
            d['stage'] = 1
            return push_next(st, x['inner'])
        if rv.disc == 0:
            return ex.native_return(st, fr, none())
        v = rv.fields[('Some', 0)]
        if k == 'enumerate':
            i = x['i']
            x['i'] = i + 1
            return ex.native_return(st, fr, some(Struct('(usize, T)', {0: usize(i), 1: v})))
        if k in ('cloned', 'copied'):
            tv = deref(st, v)
            return ex.native_return(st, fr, some(clone_value(st, tv)))
        if k == 'take':
            x['n'] -= 1
        return ex.native_return(st, fr, some(v))
    if k == 'chain':
        if d['stage'] == 0:
            d['stage'] = 1
            return push_next(st, x['a'] if not x.get('a_done') else x['b'])
        d['stage'] = 0
        if rv.disc == 0 and not x.get('a_done'):
            x['a_done'] = True
            d['stage'] = 1
            return push_next(st, x['b'])
        return ex.native_return(st, fr, rv)
    if k in ('flat_map', 'flatten'):
        # stage 0: need current sub-iterator; 1: got outer item; 2: closure returned; 3: got inner item
        if d['stage'] == 0:
            if x.get('cur') is not None:
                d['stage'] = 3
                return push_next(st, x['cur'])
            d['stage'] = 1
            return push_next(st, x['inner'])
        if d['stage'] == 1:
            if rv.disc == 0:
                return ex.native_return(st, fr, none())
            v = rv.fields[('Some', 0)]
            if k == 'flatten':
                x['cur'] = to_iter(st, v)
                d['stage'] = 3
                return push_next(st, x['cur'])
            d['stage'] = 2
            return ex.call_value(st, x['f'], [v], None, None)
        if d['stage'] == 2:
            x['cur'] = to_iter(st, rv)
            d['stage'] = 3
            return push_next(st, x['cur'])
        if d['stage'] == 3:
            if rv.disc == 0:
                x['cur'] = None
                d['stage'] = 1
                return push_next(st, x['inner'])
            d['stage'] = 0
            return ex.native_return(st, fr, rv)
    raise Unsupported('iterator kind ' + k)


def clone_value(st, v):
    if isinstance(v, (Int, Flt, Str, UnitT)) or z3.is_bool(v):
        return v
    if _is_plain(v):
        return copy_val(v)
    if isinstance(v, (Struct, Enum)):
        nm = adt_name(v)
        h = st.ex.extra_models.get(f'<{nm} as Clone>::clone') if nm else None
        if h is not None:
            import types as _t
            return h(_t.SimpleNamespace(st=st, args=[new_cell_ptr(v)]))
    if isinstance(v, (Struct, Enum)) and v.lazy is not None:
        # lazily created plain data: a copy that shares not-yet-created fields would alias;
        # clone what exists and keep laziness under a distinct path is unsound -> materialise no further
        raise Unsupported('clone of lazily created ' + str(v.ty))
    raise Unsupported('clone of ' + type(v).__name__)


@pattern(r'^<\(.*\) as Clone>::clone$')
def m_tuple_clone(c):
    """tuples of plain data / strings / integers: field-wise clone"""
    v = deref(c.st, c.args[0])
    if not isinstance(v, Struct):
        raise Unsupported('tuple clone of ' + type(v).__name__)
    if v.lazy is not None:
        raise Unsupported('clone of a lazily created tuple')
    return Struct(v.ty, {k: clone_value(c.st, f) for k, f in v.fields.items()})


# ------------------------------------------------------------------ adaptor constructors

def _adaptor(kind, **extra):
    return IterObj([], 0, kind, extra)


@pattern(r'^<.* as Iterator>::(map|filter|filter_map|take_while|skip_while|inspect|map_while|flat_map)$')
def m_iter_closure_adaptor(c):
    kind = c.canon.split('::')[-1]
    return _adaptor(kind, inner=to_iter(c.st, c.args[0]), f=c.args[1])


@pattern(r'^<.* as Iterator>::zip$')
def m_iter_zip(c):
    return _adaptor('zip', a=to_iter(c.st, c.args[0]), b=to_iter(c.st, c.args[1]))


@model('once', 'std::iter::once', 'core::iter::once')
def m_iter_once(c):
    return IterObj([c.args[0]], 0, 'list')


@pattern(r'^<.* as Iterator>::chain$')
def m_iter_chain(c):
    return _adaptor('chain', a=to_iter(c.st, c.args[0]), b=to_iter(c.st, c.args[1]))


@pattern(r'^<.* as Iterator>::(enumerate|cloned|copied|peekable|fuse|flatten|by_ref)$')
def m_iter_plain_adaptor(c):
    kind = c.canon.split('::')[-1]
    it = to_iter(c.st, c.args[0])
    if kind == 'by_ref':
        return c.args[0]
    if kind == 'enumerate':
        return _adaptor('enumerate', inner=it, i=0)
    if kind == 'peekable':
        return _adaptor('peekable', inner=it, peeked=None)
    return _adaptor(kind, inner=it)


@pattern(r'^<.* as Iterator>::(take|skip)$')
def m_iter_take_skip(c):
    kind = c.canon.split('::')[-1]
    n = c.args[1]
    k = c.st.concretize(n.v, 0, 64, kind) if not z3.is_bv_value(z3.simplify(n.v)) else z3.simplify(n.v).as_long()
    return _adaptor(kind, inner=to_iter(c.st, c.args[0]), n=k)


@pattern(r'^<.* as Iterator>::rev$|^<.* as DoubleEndedIterator>::rev$')
def m_iter_rev(c):
    it = to_iter(c.st, c.args[0])
    if it.kind in SIMPLE:
        return IterObj(list(reversed(it.items[it.pos:])), 0, 'list')
    if it.kind == 'range':
        # a range over integers: reverse it once both ends are known (bounded number of elements)
        cur, end, incl = it.extra[:3]
        lo = c.st.concretize(cur.v, 0, 1 << 16, 'rev range start') if not z3.is_bv_value(z3.simplify(cur.v)) else z3.simplify(cur.v).as_long()
        hi_t = z3.simplify(end.v)
        if not z3.is_bv_value(hi_t):
            raise Unsupported('rev on a range with a symbolic end')
        hi = hi_t.as_long() + (1 if incl else 0)
        if hi - lo > 4096:
            raise Unsupported('rev on a long range')
        return IterObj([Int(z3.BitVecVal(i, cur.width), cur.signed) for i in reversed(range(lo, max(lo, hi)))], 0, 'list')
    raise Unsupported('rev on adaptor ' + it.kind)


@pattern(r'^<.* as IntoIterator>::into_iter$')
def m_into_iter(c):
    return to_iter(c.st, c.args[0])


@model('core::slice::iter', 'Vec::iter', 'core::slice::iter_mut', 'VecDeque::iter', 'Vec::iter_mut', 'Vec::into_iter')
def m_slice_iter(c):
    return to_iter(c.st, c.args[0])


@model('Vec::drain')
def m_vec_drain(c):
    s = as_seq(c.st, c.args[0])
    r = c.args[1]
    n = len(list(s.items(c.st)))
    lo, hi = 0, n
    if not (isinstance(r, Struct) and adt_name(r) == 'RangeFull'):
        # RangeTo / RangeFrom / Range with bounds that simplify to constants (the vector has a concrete shape)
        def bound(v):
            v = z3.simplify(v.v)
            if not z3.is_bv_value(v):
                raise Unsupported('Vec::drain with a symbolic bound')
            return v.as_long()
        nm = adt_name(r)
        flds = [r.fields[k] for k in sorted(r.fields, key=str)]
        if nm == 'RangeTo':
            hi = bound(flds[0])
        elif nm == 'RangeFrom':
            lo = bound(flds[0])
        elif nm == 'Range':
            lo, hi = bound(flds[0]), bound(flds[1])
        else:
            raise Unsupported('Vec::drain with ' + str(nm))
        if lo > hi or hi > n:
            from .exec import Panic
            raise Panic('drain range out of bounds')
    items = list(s.items(c.st))
    taken = items[lo:hi]
    del s.elems[lo:hi]
    return IterObj(taken, 0, 'list')


@model('HashMap::iter', 'HashMap::iter_mut', 'BTreeMap::iter', 'BTreeMap::iter_mut', 'HashSet::iter', 'BTreeSet::iter')
def m_map_iter(c):
    return to_iter(c.st, c.args[0])


@model('HashMap::keys', 'BTreeMap::keys', 'HashMap::into_keys')
def m_map_keys(c):
    m = as_map(c.st, c.args[0])
    m.force(c.st)
    byref = not c.canon.endswith('into_keys')
    return map_order(c.st, m, [new_cell_ptr(k) if byref else k for k in m.keys])


@model('HashMap::values', 'BTreeMap::values', 'HashMap::values_mut', 'BTreeMap::values_mut', 'HashMap::into_values', 'BTreeMap::into_values')
def m_map_values(c):
    m = as_map(c.st, c.args[0])
    m.force(c.st)
    if c.canon.endswith('into_values'):
        return map_order(c.st, m, [m.load(i, None, c.st) for i in range(len(m.keys))])
    return map_order(c.st, m, [TypedPtr(m, i, m.vty) for i in range(len(m.keys))])


@model('BTreeMap::range', 'BTreeMap::range_mut')
def m_btree_range(c):
    """(&K, &V) pairs whose key lies in the range, ascending; integer keys"""
    m = as_map(c.st, c.args[0])
    m.force(c.st)
    r = deref(c.st, c.args[1])
    kind = adt_name(r)
    if kind not in ('RangeFrom', 'Range', 'RangeInclusive', 'RangeTo', 'RangeToInclusive', 'RangeFull'):
        raise Unsupported('BTreeMap::range over ' + str(kind))
    lo = hi = None
    incl = kind in ('RangeInclusive', 'RangeToInclusive')
    if kind in ('RangeFrom', 'Range', 'RangeInclusive'):
        lo = deref(c.st, r.load(0, None, c.st))
    if kind in ('Range', 'RangeInclusive'):
        hi = deref(c.st, r.load(1, None, c.st))
    if kind in ('RangeTo', 'RangeToInclusive'):
        hi = deref(c.st, r.load(0, None, c.st))
    # decide membership of every key first (branches), then build the iterator: no mutation before a fork
    keep = []
    for i, k in enumerate(m.keys):
        if not isinstance(k, Int):
            raise Unsupported('BTreeMap::range with key type ' + type(k).__name__)
        cs = []
        if lo is not None:
            cs.append((k.v >= lo.v) if k.signed else z3.UGE(k.v, lo.v))
        if hi is not None:
            if incl:
                cs.append((k.v <= hi.v) if k.signed else z3.ULE(k.v, hi.v))
            else:
                cs.append((k.v < hi.v) if k.signed else z3.ULT(k.v, hi.v))
        if c.st.branch(z3.And(cs) if cs else z3.BoolVal(True), f'btree range {i}'):
            keep.append(i)
    sub = Map(m.kty, m.vty, [m.keys[i] for i in keep], [None] * len(keep), ordered=True)
    items = [Struct('(&K, &V)', {0: new_cell_ptr(m.keys[i]), 1: TypedPtr(m, i, m.vty)}) for i in keep]
    return map_order(c.st, sub, items)


@pattern(r'^<.* as Iterator>::peek$|^std::iter::Peekable::peek$|^Peekable::peek$')
def m_peek(c):
    it = deref(c.st, c.args[0])
    if it.extra.get('peeked') is not None:
        p = it.extra['peeked']
        return p if p.disc == 0 else some(new_cell_ptr(p.fields[('Some', 0)]))
    return c.native('peek', {'it': it, 'stage': 0})


@cont('peek')
def k_peek(st, fr, rv):
    it = fr.data['it']
    if fr.data['stage'] == 0:
        fr.data['stage'] = 1
        return push_next(st, it.extra['inner'])
    it.extra['peeked'] = rv
    return st.ex.native_return(st, fr, rv if rv.disc == 0 else some(new_cell_ptr(rv.fields[('Some', 0)])))


# ------------------------------------------------------------------ consumers

CONSUMERS = ('sum', 'count', 'max', 'min', 'collect', 'any', 'all', 'find', 'position', 'fold', 'for_each',
             'last', 'max_by_key', 'min_by_key', 'find_map', 'product', 'max_by', 'min_by', 'nth', 'unzip', 'extend')


@pattern(r'^<.* as Iterator>::(sum|count|max|min|collect|any|all|find|position|fold|for_each|last|max_by_key|min_by_key|find_map|max_by|min_by|nth)$|^<.* as ExactSizeIterator>::len$')
def m_consume(c):
    op = c.canon.split('::')[-1]
    it = to_iter(c.st, c.args[0])
    if op in ('count', 'len') and it.kind in SIMPLE:
        return usize(len(it.items) - it.pos)
    g = c.generics()
    data = {'it': it, 'op': op, 'stage': 0, 'acc': None, 'i': 0, 'args': c.args[1:], 'dest_ty': c.dest_ty,
            'gen': g[-1] if g else []}
    return c.native('consume', data)


def int_zero_like(ty):
    t = parse_type(ty)
    if t.kind == 'int':
        return Int(z3.BitVecVal(0, t.n), t.mut)
    if t.kind == 'float':
        return Flt(z3.FPVal(0.0, z3.Float32() if t.n == 32 else z3.Float64()))
    raise Unsupported('sum of ' + ty)


@cont('consume')
def k_consume(st, fr, rv):
    ex = st.ex
    d = fr.data
    op = d['op']
    # stage 0: pull next; stage 1: got Option item; stage 2: closure returned
    if d['stage'] == 0:
        if op == 'nth' and d.get('n') is None:
            n = d['args'][0]
            d['n'] = st.concretize(n.v, 0, 64, 'nth')
        d['stage'] = 1
        return push_next(st, d['it'])
    if d['stage'] == 1:
        if rv.disc == 0:
            return ex.native_return(st, fr, consume_finish(st, d))
        v = rv.fields[('Some', 0)]
        d['cur'] = v
        if op in ('any', 'all', 'position', 'for_each', 'find_map', 'max_by_key', 'min_by_key'):
            d['stage'] = 2
            arg = v
            if op in ('max_by_key', 'min_by_key'):
                arg = new_cell_ptr(v)
            return ex.call_value(st, d['args'][0], [arg], None, None)
        if op == 'find':
            d['stage'] = 2
            return ex.call_value(st, d['args'][0], [new_cell_ptr(v)], None, None)
        if op == 'fold':
            d['stage'] = 2
            acc = d['acc'] if d['i'] > 0 else d['args'][0]
            return ex.call_value(st, d['args'][1], [acc, v], None, None)
        if op in ('max_by', 'min_by'):
            if d['acc'] is None:
                d['acc'] = v
                d['stage'] = 0
                d['i'] += 1
                return k_consume(st, fr, START)
            d['stage'] = 2
            return ex.call_value(st, d['args'][0], [new_cell_ptr(d['acc']), new_cell_ptr(v)], None, None)
        # no closure
        consume_step(st, d, v, None)
        if d.get('result') is not None:
            return ex.native_return(st, fr, d['result'])
        d['stage'] = 0
        d['i'] += 1
        return k_consume(st, fr, START)
    # stage 2
    consume_step(st, d, d['cur'], rv)
    if d.get('result') is not None:
        return ex.native_return(st, fr, d['result'])
    d['stage'] = 0
    d['i'] += 1
    return k_consume(st, fr, START)


def _lt(st, a, b):
    a, b = deref(st, a), deref(st, b)
    if isinstance(a, Int):
        return (a.v < b.v) if a.signed else z3.ULT(a.v, b.v)
    if isinstance(a, Flt):
        raise Unsupported('max/min over floats (not Ord)')
    if isinstance(a, Str) or isinstance(b, Str):
        # str's Ord is bytewise lexicographic: decidable here only for literals
        if isinstance(a, Str) and isinstance(b, Str) and a.text is not None and b.text is not None and a.parts is None and b.parts is None:
            return z3.BoolVal(a.text.encode() < b.text.encode())
        raise Unsupported('max/min over strings that are not literals')
    return key_lt(st, a, b)


def consume_step(st, d, v, cres):
    op = d['op']
    if op in ('sum', 'product'):
        x = deref(st, v)
        if d['acc'] is None:
            d['acc'] = x
        elif isinstance(x, Int):
            # iterator sum uses the plain `+`: with overflow checks on it panics on overflow
            a = d['acc']
            if op == 'sum':
                no = z3.And(z3.BVAddNoOverflow(a.v, x.v, a.signed), z3.BVAddNoUnderflow(a.v, x.v) if a.signed else True)
                if not st.branch(no, 'sum overflow'):
                    raise Panic('attempt to add with overflow (Iterator::sum)')
                d['acc'] = Int(z3.simplify(a.v + x.v), a.signed)
            else:
                no = z3.BVMulNoOverflow(a.v, x.v, a.signed)
                if not st.branch(no, 'product overflow'):
                    raise Panic('attempt to multiply with overflow (Iterator::product)')
                d['acc'] = Int(z3.simplify(a.v * x.v), a.signed)
        elif isinstance(x, Flt):
            d['acc'] = Flt(z3.fpAdd(z3.RNE(), d['acc'].v, x.v))
        else:
            raise Unsupported('sum of ' + type(x).__name__)
        return
    if op in ('count', 'len'):
        d['acc'] = (d['acc'] or 0) + 1
        return
    if op in ('max', 'min'):
        if d['acc'] is None:
            d['acc'] = v
            return
        # std: max returns the last maximum, min the first minimum
        lt = _lt(st, v, d['acc'])
        if op == 'max':
            if not st.branch(lt, 'max'):
                d['acc'] = v
        else:
            if st.branch(lt, 'min'):
                d['acc'] = v
        return
    if op in ('max_by_key', 'min_by_key'):
        if d['acc'] is None:
            d['acc'] = v
            d['acck'] = cres
            return
        lt = _lt(st, cres, d['acck'])
        if op == 'max_by_key':
            if not st.branch(lt, 'max_by_key'):
                d['acc'], d['acck'] = v, cres
        else:
            if st.branch(lt, 'min_by_key'):
                d['acc'], d['acck'] = v, cres
        return
    if op in ('max_by', 'min_by'):
        # cres = compare(acc, v): Ordering
        dsc = cres.disc if not isinstance(cres.disc, int) else z3.BitVecVal(cres.disc, 64)
        greater = dsc == z3.BitVecVal(1, 64)     # acc > v
        if op == 'max_by':
            if not st.branch(greater, 'max_by'):
                d['acc'] = v
        else:
            if st.branch(greater, 'min_by'):
                d['acc'] = v
        return
    if op in ('collect',):
        d.setdefault('items', []).append(v)
        return
    if op == 'last':
        d['acc'] = v
        return
    if op == 'nth':
        if d['i'] == d['n']:
            d['result'] = some(v)
        return
    if op == 'any':
        if st.branch(cres, 'any'):
            d['result'] = z3.BoolVal(True)
        return
    if op == 'all':
        if not st.branch(cres, 'all'):
            d['result'] = z3.BoolVal(False)
        return
    if op == 'find':
        if st.branch(cres, 'find'):
            d['result'] = some(v)
        return
    if op == 'find_map':
        if is_variant(st, cres, 'Some', 'find_map'):
            d['result'] = cres
        return
    if op == 'position':
        if st.branch(cres, 'position'):
            d['result'] = some(usize(d['i']))
        return
    if op == 'fold':
        d['acc'] = cres
        return
    if op == 'for_each':
        return
    raise Unsupported('consumer ' + op)


def consume_finish(st, d):
    op = d['op']
    if op in ('sum', 'product'):
        if d['acc'] is None:
            ty = (d['gen'][0] if d['gen'] else None) or d['dest_ty']
            z = int_zero_like(ty)
            if op == 'product':
                raise Unsupported('empty product')
            return z
        return d['acc']
    if op in ('count', 'len'):
        return usize(d['acc'] or 0)
    if op in ('max', 'min', 'last', 'max_by_key', 'min_by_key', 'max_by', 'min_by'):
        return none() if d['acc'] is None else some(d['acc'])
    if op == 'any':
        return z3.BoolVal(False)
    if op == 'all':
        return z3.BoolVal(True)
    if op in ('find', 'position', 'find_map', 'nth'):
        return none()
    if op == 'fold':
        return d['acc'] if d['i'] > 0 else d['args'][0]
    if op == 'for_each':
        return UNIT
    if op == 'collect':
        return collect_into(st, d.get('items', []), d['dest_ty'] or (d['gen'][0] if d['gen'] else None))
    raise Unsupported('consumer ' + op)


def collect_into(st, items, ty):
    t = parse_type(ty) if ty else None
    name = t.name if t is not None and t.kind == 'adt' else None
    if name in ('Vec', 'VecDeque') or t is None:
        return Seq(t.args[0].raw if t is not None and t.args else None, list(items))
    if name in ('HashSet', 'BTreeSet'):
        m = Map(t.args[0].raw if t.args else None, None, [], [], is_set=True, ordered=(name == 'BTreeSet'))
        for it in items:
            map_insert(st, m, it, UNIT)
        return m
    if name in ('HashMap', 'BTreeMap'):
        m = Map(t.args[0].raw if t.args else None, t.args[1].raw if len(t.args) > 1 else None, [], [],
                ordered=(name == 'BTreeMap'))
        for it in items:
            map_insert(st, m, it.fields[0], it.fields[1])
        return m
    if name == 'Result':
        # collect::<Result<Vec<_>, E>>: first Err wins
        out = []
        for it in items:
            if is_variant(st, it, 'Err', 'collect result'):
                return err(payload(st, it, 'Err', 0))
            out.append(payload(st, it, 'Ok', 0))
        return ok(collect_into(st, out, t.args[0].raw if t.args else None))
    if name == 'String':
        raise Unsupported('collect into String')
    raise Unsupported('collect into ' + str(ty))


def map_find(st, m, key, label='map key'):
    """index of `key` in map `m` or None (forks on equality with each stored key)."""
    m.force(st)
    key = deref(st, key)
    for i, k in enumerate(m.keys):
        if st.branch(st.val_eq(k, key), f'{label}=={i}'):
            return i
    return None


def map_insert(st, m, key, val):
    i = map_find(st, m, key, 'insert')
    if i is None:
        m.keys.append(key)
        m.vals.append(val)
        return None
    old = m.vals[i]
    m.vals[i] = val
    return old


@pattern(r'^<.* as Extend<.*>>::extend$|^Vec::extend$|^HashMap::extend$|^HashSet::extend$|^Vec::extend_from_slice$')
def m_extend(c):
    tgt = deref(c.st, c.args[0])
    if c.canon.endswith('extend_from_slice'):
        s = as_seq(c.st, c.args[1])
        tgt.force(c.st)
        tgt.elems.extend(clone_value(c.st, x) for x in s.items(c.st))
        return UNIT
    it = to_iter(c.st, c.args[1])
    # `Extend<&T> for Vec<T: Copy>` (e.g. stack.extend(&set)): the elements are copied out of the references
    return c.native('extend', {'it': it, 'tgt': tgt, 'stage': 0, 'copy_refs': 'Extend<&' in c.callee})


@cont('extend')
def k_extend(st, fr, rv):
    d = fr.data
    if d['stage'] == 0:
        d['stage'] = 1
        return push_next(st, d['it'])
    if rv.disc == 0:
        return st.ex.native_return(st, fr, UNIT)
    v = rv.fields[('Some', 0)]
    tgt = d['tgt']
    if isinstance(tgt, Seq):
        tgt.force(st)
        if d.get('copy_refs') and isinstance(v, Ptr):
            v = v.load(st)
        tgt.elems.append(v)
    elif isinstance(tgt, Map):
        if tgt.is_set:
            map_insert(st, tgt, v, UNIT)
        else:
            map_insert(st, tgt, v.fields[0], v.fields[1])
    else:
        raise Unsupported('extend of ' + type(tgt).__name__)
    d['stage'] = 0
    return k_extend(st, fr, START)


# ------------------------------------------------------------------ generic-T helpers (generic MIR bodies)

@pattern(r'^<&?T as (PartialEq|Eq)(<.*>)?>::(eq|ne)$|^<&T as PartialEq<&T>>::(eq|ne)$|^<&*\(.*\) as PartialEq(<.*>)?>::(eq|ne)$')
def m_generic_eq(c):
    a = deref(c.st, c.args[0])
    b = deref(c.st, c.args[1])
    r = c.st.val_eq(a, b)
    return z3.simplify(z3.Not(r) if c.canon.endswith('ne') else r)


@pattern(r'^<T as Clone>::clone$')
def m_generic_clone(c):
    return clone_value(c.st, deref(c.st, c.args[0]))
