"""HashMap/BTreeMap/HashSet/BTreeSet as finite association lists, and the closure-taking
Option/Result combinators (closures run from their own MIR)."""
import z3
from .values import *
from .models import (model, pattern, cont, some, none, ok, err, usize, deref, as_seq, as_map, is_variant, payload,
                     new_cell_ptr, option_inner_ty)
from .models_iter import map_find, map_insert, clone_value, to_iter, push_next, adt_name
from .rtypes import parse_type
from .exec import START, PUSHED, NativeFrame, Panic, TypedPtr

MAPS = ('HashMap', 'BTreeMap', 'IndexMap')
SETS = ('HashSet', 'BTreeSet')


def _names(meth, kinds):
    return [f'{k}::{meth}' for k in kinds]


@pattern(r'^<Option as Default>::default$')
def m_option_default(c):
    return none(c.dest_ty or 'Option')


@model(*_names('new', MAPS + SETS), *_names('with_capacity', MAPS + SETS),
       '<HashMap as Default>::default', '<BTreeMap as Default>::default', '<HashSet as Default>::default',
       '<BTreeSet as Default>::default')
def m_map_new(c):
    t = parse_type(c.dest_ty) if c.dest_ty else None
    name = t.name if t is not None else ''
    is_set = name in SETS or any(s in c.canon for s in SETS)
    ordered = 'BTree' in (name or c.canon)
    kty = t.args[0].raw if t is not None and t.args else None
    vty = t.args[1].raw if t is not None and len(t.args) > 1 and not is_set else None
    return Map(kty, vty, [], [], is_set=is_set, ordered=ordered)


@model(*_names('len', MAPS + SETS))
def m_map_len(c):
    m = as_map(c.st, c.args[0])
    m.force(c.st)
    return usize(len(m.keys))


@model(*_names('is_empty', MAPS + SETS))
def m_map_is_empty(c):
    m = as_map(c.st, c.args[0])
    m.force(c.st)
    return z3.BoolVal(len(m.keys) == 0)


@model(*_names('clear', MAPS + SETS))
def m_map_clear(c):
    m = as_map(c.st, c.args[0])
    m.force(c.st)
    m.keys.clear()
    m.vals.clear()
    return UNIT


@model(*_names('get', MAPS), *_names('get_mut', MAPS))
def m_map_get(c):
    m = as_map(c.st, c.args[0])
    i = map_find(c.st, m, c.args[1], 'get')
    if i is None:
        return none()
    return some(TypedPtr(m, i, m.vty))


@pattern(r'^<(HashMap|BTreeMap) as Index(<.*>)?>::index$')
def m_map_index(c):
    # map[key]: panics when the key is absent
    m = as_map(c.st, c.args[0])
    i = map_find(c.st, m, c.args[1], 'index')
    if i is None:
        from .exec import Panic
        raise Panic('map index: key not found')
    return TypedPtr(m, i, m.vty)


@model(*_names('contains_key', MAPS), *_names('contains', SETS))
def m_map_contains(c):
    m = as_map(c.st, c.args[0])
    m.force(c.st)
    key = deref(c.st, c.args[1])
    if not m.keys:
        return z3.BoolVal(False)
    return z3.simplify(z3.Or([c.st.val_eq(k, key) for k in m.keys]))


@model(*_names('insert', MAPS))
def m_map_insert(c):
    m = as_map(c.st, c.args[0])
    old = map_insert(c.st, m, c.args[1], c.args[2])
    return none() if old is None else some(old)


@model(*_names('insert', SETS))
def m_set_insert(c):
    m = as_map(c.st, c.args[0])
    i = map_find(c.st, m, c.args[1], 'set insert')
    if i is None:
        m.keys.append(c.args[1])
        m.vals.append(UNIT)
        return z3.BoolVal(True)
    return z3.BoolVal(False)


@model(*_names('remove', MAPS))
def m_map_remove(c):
    m = as_map(c.st, c.args[0])
    i = map_find(c.st, m, c.args[1], 'remove')
    if i is None:
        return none()
    v = m.load(i, None, c.st)
    del m.keys[i]
    del m.vals[i]
    return some(v)


@model(*_names('remove', SETS))
def m_set_remove(c):
    m = as_map(c.st, c.args[0])
    i = map_find(c.st, m, c.args[1], 'set remove')
    if i is None:
        return z3.BoolVal(False)
    del m.keys[i]
    del m.vals[i]
    return z3.BoolVal(True)


@model(*_names('entry', MAPS))
def m_map_entry(c):
    m = as_map(c.st, c.args[0])
    i = map_find(c.st, m, c.args[1], 'entry')
    if i is None:
        return Enum('Entry', 1, {('Vacant', 0): Struct('VacantEntry', {0: m, 1: c.args[1]})}, variant='Vacant')
    return Enum('Entry', 0, {('Occupied', 0): Struct('OccupiedEntry', {0: m, 1: i})}, variant='Occupied')


def _entry_slot(c, e, make_default):
    if e.variant == 'Occupied':
        oe = e.fields[('Occupied', 0)]
        m, i = oe.fields[0], oe.fields[1]
        return TypedPtr(m, i, m.vty)
    ve = e.fields[('Vacant', 0)]
    m, key = ve.fields[0], ve.fields[1]
    m.keys.append(key)
    m.vals.append(make_default(m))
    return TypedPtr(m, len(m.keys) - 1, m.vty)


def default_of(st, ty):
    t = parse_type(ty) if isinstance(ty, str) else ty
    if t is None:
        raise Unsupported('default of unknown type')
    if t.kind == 'int':
        return Int(z3.BitVecVal(0, t.n), t.mut)
    if t.kind == 'bool':
        return z3.BoolVal(False)
    if t.kind == 'float':
        return Flt(z3.FPVal(0.0, z3.Float32() if t.n == 32 else z3.Float64()))
    if t.kind == 'adt':
        if t.name in ('Vec', 'VecDeque'):
            return Seq(t.args[0].raw if t.args else None, [])
        if t.name in MAPS:
            return Map(t.args[0].raw, t.args[1].raw, [], [], ordered=t.name == 'BTreeMap')
        if t.name in SETS:
            return Map(t.args[0].raw, None, [], [], is_set=True, ordered=t.name == 'BTreeSet')
        if t.name == 'Option':
            return none(t.raw)
        if t.name == 'String':
            return Str(text='')
    if t.kind == 'tuple':
        return Struct(t.raw, {i: default_of(st, a) for i, a in enumerate(t.args)})
    raise Unsupported('default of ' + t.raw)


@model('Entry::or_default')
def m_entry_or_default(c):
    return _entry_slot(c, c.args[0], lambda m: default_of(c.st, m.vty))


@model('Entry::or_insert')
def m_entry_or_insert(c):
    return _entry_slot(c, c.args[0], lambda m: c.args[1])


@model('Entry::or_insert_with')
def m_entry_or_insert_with(c):
    e = c.args[0]
    if e.variant == 'Occupied':
        return _entry_slot(c, e, None)
    return c.native('entry_insert_with', {'e': e, 'f': c.args[1], 'stage': 0})


@cont('entry_insert_with')
def k_entry_insert_with(st, fr, rv):
    d = fr.data
    if d['stage'] == 0:
        d['stage'] = 1
        return st.ex.call_value(st, d['f'], [], None, None)
    ve = d['e'].fields[('Vacant', 0)]
    m, key = ve.fields[0], ve.fields[1]
    m.keys.append(key)
    m.vals.append(rv)
    return st.ex.native_return(st, fr, TypedPtr(m, len(m.keys) - 1, m.vty))


@model('Entry::and_modify')
def m_entry_and_modify(c):
    e = c.args[0]
    if e.variant != 'Occupied':
        return e
    return c.native('entry_and_modify', {'e': e, 'f': c.args[1], 'stage': 0})


@cont('entry_and_modify')
def k_entry_and_modify(st, fr, rv):
    d = fr.data
    if d['stage'] == 0:
        d['stage'] = 1
        oe = d['e'].fields[('Occupied', 0)]
        return st.ex.call_value(st, d['f'], [TypedPtr(oe.fields[0], oe.fields[1], oe.fields[0].vty)], None, None)
    return st.ex.native_return(st, fr, d['e'])


@model(*_names('retain', MAPS + SETS), 'Vec::retain', 'VecDeque::retain')
def m_retain(c):
    tgt = deref(c.st, c.args[0])
    if isinstance(tgt, Map):
        tgt.force(c.st)
        n = len(tgt.keys)
    else:
        n = tgt.length(c.st)
    return c.native('retain', {'tgt': tgt, 'f': c.args[1], 'i': 0, 'n': n, 'keep': [], 'stage': 0})


@cont('retain')
def k_retain(st, fr, rv):
    d = fr.data
    tgt = d['tgt']
    if d['stage'] == 1:
        keep = st.branch(rv, 'retain')
        d['keep'].append(keep)
        d['i'] += 1
        d['stage'] = 0
    if d['i'] >= d['n']:
        ks = d['keep']
        if isinstance(tgt, Map):
            tgt.keys[:] = [k for k, f in zip(tgt.keys, ks) if f]
            tgt.vals[:] = [v for v, f in zip(tgt.vals, ks) if f]
        else:
            tgt.elems[:] = [v for v, f in zip(tgt.elems, ks) if f]
        return st.ex.native_return(st, fr, UNIT)
    d['stage'] = 1
    i = d['i']
    if isinstance(tgt, Map):
        if tgt.is_set:
            args = [new_cell_ptr(tgt.keys[i])]
        else:
            args = [new_cell_ptr(tgt.keys[i]), TypedPtr(tgt, i, tgt.vty)]
    else:
        args = [TypedPtr(tgt, i, tgt.elem_ty)]
    return st.ex.call_value(st, d['f'], args, None, None)


@model(*_names('first_key_value', ('BTreeMap',)), *_names('last_key_value', ('BTreeMap',)), 'BTreeSet::first', 'BTreeSet::last')
def m_btree_ends(c):
    m = as_map(c.st, c.args[0])
    it = to_iter(c.st, c.args[0])     # forks on sorted order
    if not it.items:
        return none()
    v = it.items[0 if 'first' in c.canon else -1]
    return some(v)


# ------------------------------------------------------------------ Option / Result with closures

OPT_OPS = {'Option::map': ('Some', 'map'), 'Option::map_or': ('Some', 'map_or'), 'Option::map_or_else': ('Some', 'map_or_else'),
           'Option::is_some_and': ('Some', 'is_and'), 'Option::is_none_or': ('Some', 'none_or'),
           'Option::and_then': ('Some', 'and_then'), 'Option::unwrap_or_else': ('Some', 'unwrap_or_else'),
           'Option::ok_or_else': ('Some', 'ok_or_else'), 'Option::filter': ('Some', 'filter'),
           'Option::or_else': ('Some', 'or_else'), 'Option::get_or_insert_with': ('Some', 'get_or_insert_with'),
           'Option::inspect': ('Some', 'inspect'),
           'Result::map': ('Ok', 'rmap'), 'Result::map_err': ('Ok', 'map_err'), 'Result::and_then': ('Ok', 'and_then'),
           'Result::unwrap_or_else': ('Ok', 'runwrap_or_else'), 'Result::is_ok_and': ('Ok', 'is_and'),
           'Result::is_err_and': ('Ok', 'is_err_and'), 'Result::or_else': ('Ok', 'ror_else'),
           'Result::map_or': ('Ok', 'map_or'), 'Result::map_or_else': ('Ok', 'rmap_or_else'),
           'Result::ok_or_else': ('Ok', 'ok_or_else'), 'Result::inspect_err': ('Ok', 'inspect_err')}


def _opt_closure(c):
    yes, op = OPT_OPS[c.canon]
    e = c.args[0]
    st = c.st
    target = None
    if op == 'get_or_insert_with':
        target = e
        e = e.load(st)
    hit = is_variant(st, e, yes, c.canon)
    ity = option_inner_ty(deref(st, e))
    pv = payload(st, e, yes, 0, ity) if hit else None
    a = c.args
    ex = st.ex

    def call(f, args, post):
        nf = NativeFrame('opt_post', {'post': post, 'e': e, 'pv': pv, 'stage': 0, 'f': f, 'args': args, 'target': target},
                         c.destlv, c.ret_bb)
        st.frames.append(nf)
        return PUSHED
    if op == 'map':
        return call(a[1], [pv], 'some') if hit else none()
    if op == 'rmap':
        return call(a[1], [pv], 'ok') if hit else e
    if op == 'map_err':
        return e if hit else call(a[1], [payload(st, e, 'Err', 0)], 'err')
    if op == 'map_or':
        return call(a[2], [pv], 'id') if hit else a[1]
    if op == 'map_or_else':
        return call(a[2], [pv], 'id') if hit else call(a[1], [], 'id')
    if op == 'rmap_or_else':
        return call(a[2], [pv], 'id') if hit else call(a[1], [payload(st, e, 'Err', 0)], 'id')
    if op == 'is_and':
        return call(a[1], [pv], 'id') if hit else z3.BoolVal(False)
    if op == 'is_err_and':
        return z3.BoolVal(False) if hit else call(a[1], [payload(st, e, 'Err', 0)], 'id')
    if op == 'none_or':
        return call(a[1], [pv], 'id') if hit else z3.BoolVal(True)
    if op == 'and_then':
        return call(a[1], [pv], 'id') if hit else (none() if yes == 'Some' else e)
    if op == 'unwrap_or_else':
        return pv if hit else call(a[1], [], 'id')
    if op == 'runwrap_or_else':
        return pv if hit else call(a[1], [payload(st, e, 'Err', 0)], 'id')
    if op == 'ok_or_else':
        return ok(pv) if hit else call(a[1], [], 'err')
    if op == 'or_else':
        return e if hit else call(a[1], [], 'id')
    if op == 'ror_else':
        return e if hit else call(a[1], [payload(st, e, 'Err', 0)], 'id')
    if op == 'filter':
        return call(a[1], [new_cell_ptr(pv)], 'filter') if hit else none()
    if op == 'inspect':
        return call(a[1], [new_cell_ptr(pv)], 'keep') if hit else e
    if op == 'inspect_err':
        return e if hit else call(a[1], [new_cell_ptr(payload(st, e, 'Err', 0))], 'keep')
    if op == 'get_or_insert_with':
        if hit:
            return TypedPtr(deref(st, e), ('Some', 0), ity)
        return call(a[1], [], 'insert')
    raise Unsupported(c.canon)


for _n in OPT_OPS:
    model(_n)(_opt_closure)


@cont('opt_post')
def k_opt_post(st, fr, rv):
    d = fr.data
    if d['stage'] == 0:
        d['stage'] = 1
        return st.ex.call_value(st, d['f'], d['args'], None, None)
    post = d['post']
    if post == 'some':
        r = some(rv)
    elif post == 'ok':
        r = ok(rv)
    elif post == 'err':
        r = err(rv)
    elif post == 'id':
        r = rv
    elif post == 'keep':
        r = d['e']
    elif post == 'filter':
        r = some(d['pv']) if st.branch(rv, 'Option::filter') else none()
    elif post == 'insert':
        tgt = d['target']
        ne = some(rv)
        tgt.store(ne, st)
        r = TypedPtr(ne, ('Some', 0), None)
    else:
        raise Unsupported(post)
    return st.ex.native_return(st, fr, r)


@pattern(r'^<(.*) as PartialEq(<.*>)?>::ne$')
def m_default_ne(c):
    """default `ne`: !eq, with `eq` taken from the crate's MIR (derived or hand-written)"""
    eqc = c.callee[:c.callee.rindex('::ne')] + '::eq'
    f = c.st.ex.prog.resolve(eqc)
    if f is None:
        raise Unsupported('call: ' + c.canon)
    return c.native('negate', {'f': f, 'args': c.args, 'stage': 0})


@cont('negate')
def k_negate(st, fr, rv):
    d = fr.data
    if d['stage'] == 0:
        d['stage'] = 1
        st.ex.push_fn(st, d['f'], d['args'], None, None)
        return
    return st.ex.native_return(st, fr, z3.simplify(z3.Not(rv)))


@model('HashSet::intersection', 'BTreeSet::intersection')
def m_set_intersection(c):
    a = as_map(c.st, c.args[0])
    b = as_map(c.st, c.args[1])
    a.force(c.st)
    b.force(c.st)
    out = []
    for x in a.keys:
        if b.keys and c.st.branch(z3.Or([c.st.val_eq(x, y) for y in b.keys]), 'intersection member'):
            out.append(new_cell_ptr(x))
    return IterObj(out, 0, 'list')


@model('HashSet::is_subset', 'BTreeSet::is_subset')
def m_set_subset(c):
    a = as_map(c.st, c.args[0])
    b = as_map(c.st, c.args[1])
    a.force(c.st)
    b.force(c.st)
    cs = [z3.Or([c.st.val_eq(x, y) for y in b.keys]) if b.keys else z3.BoolVal(False) for x in a.keys]
    return z3.simplify(z3.And(cs)) if cs else z3.BoolVal(True)


@pattern(r'^<(HashMap|BTreeMap|HashSet|BTreeSet) as Clone>::clone$')
def m_map_clone(c):
    """element-wise clone of a map / set (keys and values cloned with the element rules)"""
    from .models_iter import clone_value
    m = as_map(c.st, c.args[0])
    m.force(c.st)
    vals = [UNIT if m.is_set else clone_value(c.st, m.load(i, None, c.st)) for i in range(len(m.keys))]
    return Map(m.kty, m.vty, [clone_value(c.st, k) for k in m.keys], vals, is_set=m.is_set, ordered=m.ordered)


@model('std::slice::sort_by', 'core::slice::sort_by', 'Vec::sort_by', 'alloc::slice::sort_by')
def m_sort_by(c):
    """stable sort with a caller-supplied comparator, as a stable insertion sort that calls the comparator's MIR (<= 4 elements).
    For a comparator that is a total preorder the result is the unique stable sorted order, as std's; for other comparators std's
    result is unspecified and this is one admissible outcome."""
    s = as_seq(c.st, c.args[0]) if 'as_seq' in globals() else deref(c.st, c.args[0])
    n = s.length(c.st)
    if n > 4:
        raise Unsupported('sort_by of more than 4 elements')
    return c.native('sort_by', {'s': s, 'f': c.args[1], 'i': 1, 'j': 1, 'n': n, 'stage': 0})


@cont('sort_by')
def k_sort_by(st, fr, rv):
    d = fr.data
    s = d['s']
    if d['stage'] == 1:
        disc = rv.disc if isinstance(rv, Enum) else rv
        greater = (disc == 1) if isinstance(disc, int) else st.branch(disc == z3.BitVecVal(1, disc.size()), 'sort_by greater')
        d['stage'] = 0
        if greater:
            j = d['j']
            a, b = s.load(j - 1, None, st), s.load(j, None, st)
            s.store(j - 1, b, st)
            s.store(j, a, st)
            d['j'] -= 1
        else:
            d['j'] = 0
    if d['j'] <= 0:
        d['i'] += 1
        d['j'] = d['i']
    if d['i'] >= d['n']:
        return st.ex.native_return(st, fr, UNIT)
    d['stage'] = 1
    j = d['j']
    return st.ex.call_value(st, d['f'], [TypedPtr(s, j - 1, s.elem_ty), TypedPtr(s, j, s.elem_ty)], None, None)


# ---- BinaryHeap as a sequence; pop selects a maximum by calling the element type's Ord::cmp from MIR
@model('BinaryHeap::new', '<BinaryHeap as Default>::default', 'BinaryHeap::with_capacity')
def m_heap_new(c):
    return Seq(None, [])


@model('BinaryHeap::push')
def m_heap_push(c):
    s = as_seq(c.st, c.args[0])
    v = c.args[1]
    if s.elem_ty is None and isinstance(v, (Struct, Enum)):
        s.elem_ty = v.ty
    s.force(c.st).append(v)
    return UNIT


@model('BinaryHeap::len')
def m_heap_len(c):
    return usize(as_seq(c.st, c.args[0]).length(c.st))


@model('BinaryHeap::is_empty')
def m_heap_is_empty(c):
    return z3.BoolVal(as_seq(c.st, c.args[0]).length(c.st) == 0)


@model('BinaryHeap::pop')
def m_heap_pop(c):
    s = as_seq(c.st, c.args[0])
    n = s.length(c.st)
    if n == 0:
        return none()
    if n == 1:
        v = s.load(0, None, c.st)
        del s.elems[0]
        return some(v)
    ty = s.elem_ty
    if not ty:
        raise Unsupported('BinaryHeap::pop: element type unknown')
    short = str(ty).split('::')[-1]
    return c.native('heap_pop', {'s': s, 'cmp': FnItem(f'<{short} as Ord>::cmp'), 'best': 0, 'i': 1, 'n': n, 'stage': 0})


@cont('heap_pop')
def k_heap_pop(st, fr, rv):
    d = fr.data
    s = d['s']
    if d['stage'] == 1:
        disc = rv.disc if isinstance(rv, Enum) else rv
        if isinstance(disc, int):
            less = disc in (-1, 255, (1 << 64) - 1)
        else:
            less = st.branch(disc == z3.BitVecVal(-1, disc.size()), 'heap max')
        if less:
            d['best'] = d['i']
        d['i'] += 1
        d['stage'] = 0
    if d['i'] >= d['n']:
        v = s.load(d['best'], None, st)
        del s.elems[d['best']]
        return st.ex.native_return(st, fr, some(v))
    d['stage'] = 1
    return st.ex.call_value(st, d['cmp'], [TypedPtr(s, d['best'], s.elem_ty), TypedPtr(s, d['i'], s.elem_ty)], None, None)
