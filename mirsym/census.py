"""callee census: which calls reachable from a function have neither MIR nor model."""
import sys
sys.path.insert(0, '/verif')
from mirsym import program, models, models_iter, models_map, models_std, models_fs
from mirsym.rtypes import canon_callee


def census(prog, root, depth=6):
    seen = set()
    missing = {}
    modelled = {}
    def visit(f, d):
        if f.canon in seen or d > depth:
            return
        seen.add(f.canon)
        for b in f.blocks.values():
            t = b.term
            if not t or t[0] != 'call' or b.cleanup:
                continue
            callee = t[2]
            c = canon_callee(callee)
            h = models.REGISTRY.get(c)
            g = None
            if h is None:
                g = prog.resolve(callee)
                if g is None and c.startswith('<{closure@'):
                    g = prog.closure_fn(c[1:c.index('} as') + 1])
            if g is not None:
                visit(g, d + 1)
                continue
            if h is None:
                for pat, fn in models.PATTERNS:
                    if pat.search(c):
                        h = fn
                        break
            if h is None:
                missing[c] = missing.get(c, 0) + 1
            else:
                modelled[c] = modelled.get(c, 0) + 1
            # closures passed as args
            for a in t[3]:
                pass
        # closures defined inside
        for g in prog.fns:
            if g.kind == 'fn' and getattr(g, 'canon', '').startswith(f.canon + '::{closure'):
                visit(g, d + 1)
    f = prog.resolve(root)
    if f is None:
        print('no such fn', root)
        return
    visit(f, 0)
    return seen, modelled, missing


if __name__ == '__main__':
    prog = program.load(sys.argv[1], fresh=False)
    for root in sys.argv[2:]:
        seen, modelled, missing = census(prog, root)
        print('==', root, 'fns', len(seen), 'modelled', len(modelled), 'missing', len(missing))
        for k, v in sorted(missing.items()):
            print('  MISSING', v, k)
