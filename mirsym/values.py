"""Runtime values of the MIR executor.  Scalars are z3 terms; everything with
shape (structs, enums, sequences, maps) is a Python object whose *content* is symbolic."""
import z3
from .rtypes import parse_type, Ty


class Unsupported(Exception):
    pass


class ExecBug(Exception):
    """executor invariant broken (treated as inconclusive)"""


class Int:
    __slots__ = ('v', 'signed')

    def __init__(self, v, signed):
        self.v = v
        self.signed = signed

    @property
    def width(self):
        return self.v.size()

    def __repr__(self):
        return f'{"i" if self.signed else "u"}{self.width}({self.v})'


class Flt:
    __slots__ = ('v',)

    def __init__(self, v):
        self.v = v

    def __repr__(self):
        return f'f({self.v})'


class UnitT:
    def __repr__(self):
        return '()'


UNIT = UnitT()


class Struct:
    """struct / tuple / closure environment.  `lazy` = symbolic path prefix when the
    object was created from a type annotation (missing fields are created on demand)."""

    def __init__(self, ty, fields=None, lazy=None):
        self.ty = ty
        self.fields = fields if fields is not None else {}
        self.lazy = lazy

    def load(self, key, ty, st):
        if key not in self.fields:
            if self.lazy is None:
                raise ExecBug(f'read of uninitialised field {key} of {self.ty}')
            if ty is None:
                ty = self._field_ty(key)
            self.fields[key] = st.fresh(ty, f'{self.lazy}.{key}')
        return self.fields[key]

    def _field_ty(self, key):
        t = parse_type(self.ty) if isinstance(self.ty, str) else self.ty
        if t.kind == 'tuple':
            return t.args[key].raw
        raise ExecBug(f'lazy field {key} of {self.ty} without a type')

    def store(self, key, v, st):
        self.fields[key] = v

    def __repr__(self):
        return f'{self.ty}{{{", ".join(f"{k}: {v!r}" for k, v in sorted(self.fields.items(), key=lambda kv: str(kv[0])))}}}'


class Enum:
    """disc: python int (concrete) or z3 BV64 term (lazily created enum).
    fields are keyed (variant_name, idx)."""

    def __init__(self, ty, disc, fields=None, lazy=None, variant=None):
        self.ty = ty
        self.disc = disc
        self.fields = fields if fields is not None else {}
        self.lazy = lazy
        self.variant = variant   # name when constructed concretely

    def load(self, key, ty, st):
        if key not in self.fields:
            if self.lazy is None:
                raise ExecBug(f'read of uninitialised enum field {key} of {self.ty}')
            self.fields[key] = st.fresh(ty, f'{self.lazy}.{key[0]}.{key[1]}')
        return self.fields[key]

    def store(self, key, v, st):
        self.fields[key] = v

    def __repr__(self):
        return f'{self.ty}#{self.variant or self.disc}{self.fields or ""}'


class EnumView:
    """result of a Downcast projection: fields of one variant of `enum`."""

    def __init__(self, enum, variant):
        self.enum = enum
        self.variant = variant

    def load(self, key, ty, st):
        return self.enum.load((self.variant, key), ty, st)

    def store(self, key, v, st):
        self.enum.store((self.variant, key), v, st)


class Cell:
    """single slot: target of lazily created references, Box/Arc/lock contents."""

    def __init__(self, ty=None, lazy=None, val=None):
        self.ty = ty
        self.lazy = lazy
        self.val = val

    def load(self, key, ty, st):
        if self.val is None:
            if self.lazy is None:
                raise ExecBug('read of empty cell')
            self.val = st.fresh(self.ty or ty, self.lazy)
        return self.val

    def store(self, key, v, st):
        self.val = v

    def __repr__(self):
        return f'Cell({self.val!r})'


class Locals(dict):
    def load(self, key, ty, st):
        if key not in self:
            raise ExecBug(f'read of uninitialised local _{key}')
        return self[key]

    def store(self, key, v, st):
        self[key] = v


class Ptr:
    """reference / raw pointer / Box: (container, key)."""
    __slots__ = ('cont', 'key')

    def __init__(self, cont, key=0):
        self.cont = cont
        self.key = key

    def load(self, st, ty=None):
        return self.cont.load(self.key, ty, st)

    def store(self, v, st):
        self.cont.store(self.key, v, st)

    def __repr__(self):
        return f'&{type(self.cont).__name__}[{self.key}]'


class Seq:
    """Vec / slice / array.  elems None = lazily created, length not yet chosen."""

    def __init__(self, elem_ty, elems=None, lazy=None, maxlen=None):
        self.elem_ty = elem_ty
        self.elems = elems
        self.lazy = lazy
        self.maxlen = maxlen

    def force(self, st):
        if self.elems is None:
            n = st.choose_len(self)
            self.elems = [None] * n
        return self.elems

    def length(self, st):
        return len(self.force(st))

    def load(self, key, ty, st):
        e = self.force(st)
        if e[key] is None:
            if self.lazy is None:
                raise ExecBug('uninitialised element')
            e[key] = st.fresh(self.elem_ty or ty, f'{self.lazy}[{key}]')
        return e[key]

    def store(self, key, v, st):
        self.force(st)[key] = v

    def items(self, st):
        return [self.load(i, None, st) for i in range(self.length(st))]

    def __repr__(self):
        return f'Seq{self.elems!r}'


class Map:
    """finite association list with pairwise-distinct keys (HashMap/BTreeMap/HashSet/BTreeSet).
    keys/vals None = lazy, size not yet chosen.  Sets use vals of UNIT."""

    def __init__(self, kty, vty, keys=None, vals=None, lazy=None, maxlen=None, is_set=False, ordered=False):
        self.kty = kty
        self.vty = vty
        self.keys = keys
        self.vals = vals
        self.lazy = lazy
        self.maxlen = maxlen
        self.is_set = is_set
        self.ordered = ordered

    def force(self, st):
        if self.keys is None:
            n = st.choose_len(self)
            self.keys = []
            self.vals = []
            for i in range(n):
                k = st.fresh(self.kty, f'{self.lazy}.k{i}')
                self.keys.append(k)
                self.vals.append(UNIT if self.is_set else None)
            # pairwise distinct keys
            for i in range(n):
                for j in range(i + 1, n):
                    st.assume(z3.Not(st.val_eq(self.keys[i], self.keys[j])))
        return self.keys

    def load(self, key, ty, st):
        self.force(st)
        if self.vals[key] is None:
            self.vals[key] = st.fresh(self.vty or ty, f'{self.lazy}.v{key}')
        return self.vals[key]

    def store(self, key, v, st):
        self.force(st)
        self.vals[key] = v

    def __repr__(self):
        return f'Map{list(zip(self.keys or [], self.vals or []))!r}'


class Str:
    """abstract string: `id` is a z3 BV64 (distinct concrete strings get distinct ids),
    `text` the literal when known."""
    __slots__ = ('id', 'text', 'parts')
    _intern = {}

    def __init__(self, id=None, text=None, parts=None):
        self.parts = parts      # (template bytes, [argument values]) for strings built by format!
        if id is None:
            if text not in Str._intern:
                Str._intern[text] = len(Str._intern) + 1
            # concrete ids live in the top half so that fresh symbolic ids can be constrained if needed
            id = z3.BitVecVal((1 << 63) + Str._intern[text], 64)
        self.id = id
        self.text = text

    def __repr__(self):
        return f'Str({self.text if self.text is not None else self.id})'


class FnItem:
    def __init__(self, name):
        self.name = name

    def __repr__(self):
        return f'fn {self.name}'


class Opaque:
    def __init__(self, what, payload=None):
        self.what = what
        self.payload = payload

    def __repr__(self):
        return f'Opaque({self.what})'


class IterObj:
    """model-level iterator: a materialised list of items still to be yielded."""

    def __init__(self, items, pos=0, kind='iter', extra=None):
        self.items = items
        self.pos = pos
        self.kind = kind
        self.extra = extra

    def __repr__(self):
        return f'Iter({self.kind},{self.pos}/{len(self.items)})'


def clone(obj, memo):
    """deep copy preserving aliasing; z3 terms, strings and ints are shared."""
    if obj is None or isinstance(obj, (int, str, bool, float, bytes, UnitT, FnItem, Ty, tuple)) and not _tuple_has_obj(obj):
        return obj
    if isinstance(obj, z3.AstRef):
        return obj
    oid = id(obj)
    if oid in memo:
        return memo[oid]
    if isinstance(obj, Int):
        return obj
    if isinstance(obj, Flt):
        return obj
    if isinstance(obj, Str):
        return obj
    if isinstance(obj, Locals):
        r = Locals()
        memo[oid] = r
        for k, v in obj.items():
            r[k] = clone(v, memo)
        return r
    if isinstance(obj, dict):
        r = {}
        memo[oid] = r
        for k, v in obj.items():
            r[clone(k, memo)] = clone(v, memo)
        return r
    if isinstance(obj, list):
        r = []
        memo[oid] = r
        for v in obj:
            r.append(clone(v, memo))
        return r
    if isinstance(obj, tuple):
        return tuple(clone(v, memo) for v in obj)
    if isinstance(obj, set):
        r = set(obj)
        memo[oid] = r
        return r
    if hasattr(obj, '__mirsym_clone__'):
        return obj.__mirsym_clone__(memo)
    if hasattr(obj, '__dict__') or hasattr(obj, '__slots__'):
        r = obj.__class__.__new__(obj.__class__)
        memo[oid] = r
        if hasattr(obj, '__dict__'):
            for k, v in obj.__dict__.items():
                r.__dict__[k] = clone(v, memo)
        else:
            for cls in type(obj).__mro__:
                for k in getattr(cls, '__slots__', ()):
                    setattr(r, k, clone(getattr(obj, k), memo))
        return r
    return obj


def _tuple_has_obj(t):
    if not isinstance(t, tuple):
        return False
    for x in t:
        if not (x is None or isinstance(x, (int, str, bool, float, bytes))):
            return True
    return False
