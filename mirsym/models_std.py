"""locks, atomics, clocks, formatting, sorting and a few more std pieces."""
import itertools
import re
import z3
from .values import *
from .models import (model, pattern, cont, some, none, ok, err, usize, deref, as_seq, as_map, is_variant, payload,
                     new_cell_ptr, option_inner_ty, _is_plain)
from .models_iter import clone_value, key_lt, adt_name
from .rtypes import parse_type
from .exec import START, PUSHED, NativeFrame, Panic, TypedPtr, copy_val


class Guard(Ptr):
    """lock guard: pointer to the protected data + the lock it came from"""
    __slots__ = ('lock', 'mode', 'live')

    def __init__(self, cont, key, lock, mode):
        Ptr.__init__(self, cont, key)
        self.lock = lock
        self.mode = mode
        self.live = True


def release(st, g, _depth=0):
    if isinstance(g, Guard) and g.live:
        g.live = False
        held = getattr(g.lock, 'held', [])
        if g.mode in held:
            held.remove(g.mode)
    elif isinstance(g, (Enum, Struct)) and _depth < 3:
        # a guard kept inside an Option / tuple / small struct is released when its owner is dropped
        for v in list(getattr(g, 'fields', {}).values()):
            if isinstance(v, (Guard, Enum, Struct)):
                release(st, v, _depth + 1)


def _lock(c, mode):
    lk = deref(c.st, c.args[0])
    if not (isinstance(lk, Struct) and 'data' in lk.fields):
        raise Unsupported('lock on ' + type(lk).__name__)
    if not hasattr(lk, 'held'):
        lk.held = []
    held = lk.held
    if held and (mode == 'w' or 'w' in held):
        c.st.status = 'deadlock'
        raise Panic(f'self-deadlock: {c.canon} while the same lock is already held ({"".join(held)}) on this path')
    held.append(mode)
    return Guard(lk.fields['data'], 0, lk, mode)


@model('RwLock::write', 'Mutex::lock', 'RwLock::upgradable_read')
def m_lock_w(c):
    return _lock(c, 'w')


@model('RwLock::read')
def m_lock_r(c):
    return _lock(c, 'r')


@model('RwLock::try_write', 'Mutex::try_lock')
def m_try_lock_w(c):
    lk = deref(c.st, c.args[0])
    if getattr(lk, 'held', []):
        return none()
    return some(_lock(c, 'w'))


@model('RwLock::new', 'Mutex::new')
def m_lock_new(c):
    return Struct(c.dest_ty or 'RwLock', {'data': Cell(val=c.args[0])})


@model('RwLock::into_inner', 'Mutex::into_inner')
def m_lock_into_inner(c):
    return c.args[0].fields['data'].load(0, None, c.st)


@model('RwLockWriteGuard::downgrade')
def m_downgrade(c):
    g = c.args[0]
    return g


@model('drop', 'std::mem::drop', 'core::mem::drop')
def m_drop(c):
    release(c.st, c.args[0])
    return UNIT


@model('Arc::new', 'Box::new', 'Rc::new')
def m_box_new(c):
    return Ptr(Cell(val=c.args[0]), 0)


@pattern(r'^<(Arc|Rc) as Clone>::clone$|^Arc::clone$')
def m_arc_clone(c):
    return deref_once(c.st, c.args[0])


def deref_once(st, v):
    return v.load(st) if isinstance(v, Ptr) else v


# ------------------------------------------------------------------ atomics

def _atomic_cell(c):
    a = deref(c.st, c.args[0])
    if isinstance(a, Struct) and 'data' in a.fields:
        return a.fields['data']
    raise Unsupported('atomic on ' + type(a).__name__)


@model('Atomic::load', 'AtomicU64::load', 'AtomicUsize::load', 'AtomicBool::load', 'AtomicU32::load')
def m_atomic_load(c):
    return _atomic_cell(c).load(0, None, c.st)


@model('Atomic::store', 'AtomicU64::store', 'AtomicUsize::store', 'AtomicBool::store', 'AtomicU32::store')
def m_atomic_store(c):
    _atomic_cell(c).store(0, c.args[1], c.st)
    return UNIT


@model('Atomic::fetch_add', 'AtomicU64::fetch_add', 'AtomicUsize::fetch_add', 'AtomicU32::fetch_add')
def m_atomic_fetch_add(c):
    cell = _atomic_cell(c)
    old = cell.load(0, None, c.st)
    cell.store(0, Int(z3.simplify(old.v + c.args[1].v), old.signed), c.st)
    return old


@model('Atomic::fetch_max', 'AtomicU64::fetch_max', 'AtomicUsize::fetch_max', 'Atomic::fetch_min', 'AtomicU64::fetch_min', 'AtomicUsize::fetch_min')
def m_atomic_fetch_max(c):
    cell = _atomic_cell(c)
    old = cell.load(0, None, c.st)
    lt = z3.ULT if not old.signed else (lambda a, b: a < b)
    pick_new = lt(old.v, c.args[1].v) if c.canon.endswith('max') else lt(c.args[1].v, old.v)
    cell.store(0, Int(z3.simplify(z3.If(pick_new, c.args[1].v, old.v)), old.signed), c.st)
    return old


@model('Atomic::fetch_sub', 'AtomicU64::fetch_sub', 'AtomicUsize::fetch_sub')
def m_atomic_fetch_sub(c):
    cell = _atomic_cell(c)
    old = cell.load(0, None, c.st)
    cell.store(0, Int(z3.simplify(old.v - c.args[1].v), old.signed), c.st)
    return old


@model('Atomic::swap', 'AtomicBool::swap', 'AtomicU64::swap')
def m_atomic_swap(c):
    cell = _atomic_cell(c)
    old = cell.load(0, None, c.st)
    cell.store(0, c.args[1], c.st)
    return old


@model('Atomic::fetch_max', 'AtomicU64::fetch_max')
def m_atomic_fetch_max(c):
    cell = _atomic_cell(c)
    old = cell.load(0, None, c.st)
    n = c.args[1]
    cell.store(0, Int(z3.simplify(z3.If(z3.UGE(old.v, n.v), old.v, n.v)), old.signed), c.st)
    return old


@model('Atomic::new', 'AtomicU64::new', 'AtomicUsize::new', 'AtomicBool::new', 'AtomicU32::new')
def m_atomic_new(c):
    return Struct(c.dest_ty or 'Atomic', {'data': Cell(val=c.args[0])})


# ------------------------------------------------------------------ time: fresh, non-decreasing readings

def now_ms(st):
    """fresh clock reading, >= every earlier reading on this path (milliseconds, < 2^62)"""
    t = z3.BitVec(st.fresh_name('clock'), 64)
    prev = st.env.get('clock_last')
    st.assume(z3.ULT(t, z3.BitVecVal(1 << 62, 64)))
    if prev is not None:
        st.assume(z3.UGE(t, prev))
    st.env['clock_last'] = t
    st.env.setdefault('clock_readings', []).append(t)
    return t


@model('Instant::now', 'SystemTime::now')
def m_instant_now(c):
    return Struct('Instant', {0: Int(now_ms(c.st), False)})


@model('Instant::elapsed')
def m_instant_elapsed(c):
    t0 = deref(c.st, c.args[0])
    if not isinstance(t0, Struct) or 0 not in t0.fields:
        if isinstance(t0, Struct) and t0.lazy is not None:
            t0.load(0, 'u64', c.st)
            c.st.assume(z3.ULT(t0.fields[0].v, z3.BitVecVal(1 << 62, 64)))
        else:
            raise Unsupported('elapsed on ' + repr(t0)[:60])
    n = now_ms(c.st)
    # an Instant taken earlier is never later than now (saturating)
    d = z3.If(z3.UGE(n, t0.fields[0].v), n - t0.fields[0].v, z3.BitVecVal(0, 64))
    return Struct('Duration', {0: Int(z3.simplify(d), False)})


@model('Instant::duration_since', 'Instant::saturating_duration_since')
def m_instant_since(c):
    a = deref(c.st, c.args[0])
    b = deref(c.st, c.args[1])
    av, bv = a.load(0, 'u64', c.st).v, b.load(0, 'u64', c.st).v
    return Struct('Duration', {0: Int(z3.simplify(z3.If(z3.UGE(av, bv), av - bv, z3.BitVecVal(0, 64))), False)})


@model('Duration::from_millis')
def m_dur_from_millis(c):
    return Struct('Duration', {0: c.args[0]})


@model('Duration::from_secs')
def m_dur_from_secs(c):
    return Struct('Duration', {0: Int(z3.simplify(c.args[0].v * 1000), False)})


@model('Duration::as_millis')
def m_dur_as_millis(c):
    d = deref(c.st, c.args[0])
    v = d.load(0, 'u64', c.st)
    t = parse_type(c.dest_ty) if c.dest_ty else None
    if t is not None and t.kind == 'int' and t.n == 128:
        return Int(z3.ZeroExt(64, v.v), False)
    return v


@model('Duration::as_secs')
def m_dur_as_secs(c):
    d = deref(c.st, c.args[0])
    v = d.load(0, 'u64', c.st)          # Durations are carried as whole milliseconds
    return Int(z3.simplify(z3.UDiv(v.v, z3.BitVecVal(1000, 64))), False)


@pattern(r'^<Duration as PartialOrd>::(lt|le|gt|ge)$')
def m_dur_cmp(c):
    a = deref(c.st, c.args[0]).load(0, 'u64', c.st).v
    b = deref(c.st, c.args[1]).load(0, 'u64', c.st).v
    op = c.canon.split('::')[-1]
    return z3.simplify({'lt': z3.ULT(a, b), 'le': z3.ULE(a, b), 'gt': z3.UGT(a, b), 'ge': z3.UGE(a, b)}[op])


@pattern(r'^<Instant as Add<Duration>>::add$')
def m_instant_add(c):
    a = deref(c.st, c.args[0]).load(0, 'u64', c.st).v
    b = deref(c.st, c.args[1]).load(0, 'u64', c.st).v
    return Struct('Instant', {0: Int(z3.simplify(a + b), False)})


@model('std::thread::sleep', 'thread::sleep')
def m_sleep(c):
    return UNIT


# ------------------------------------------------------------------ formatting: values are dropped, a fresh abstract string results

@model('format', 'std::fmt::format', 'alloc::fmt::format', 'fmt::format')
def m_format(c):
    return Str(z3.BitVec(c.st.fresh_name('fmt'), 64))


@pattern(r'^Arguments::(new|new_v1|new_const|from_str|new_v1_formatted)$|^Argument::new_(display|debug|lower_hex|upper_hex)$|^must_use$|^display$|^debug$')
def m_fmt_args(c):
    if c.canon == 'must_use':
        return c.args[0]
    return Opaque('fmt')


@pattern(r'^<.* as ToString>::to_string$')
def m_to_string(c):
    v = deref(c.st, c.args[0])
    if isinstance(v, Str):
        return v
    return Str(z3.BitVec(c.st.fresh_name('tostr'), 64))


# ------------------------------------------------------------------ slices: contains / sort / remove / insert

@model('core::slice::contains', 'Vec::contains', 'VecDeque::contains')
def m_slice_contains(c):
    s = as_seq(c.st, c.args[0])
    x = deref(c.st, c.args[1])
    items = s.items(c.st)
    if not items:
        return z3.BoolVal(False)
    return z3.simplify(z3.Or([c.st.val_eq(deref(c.st, it), x) for it in items]))


@model('Vec::remove')
def m_vec_remove(c):
    s = as_seq(c.st, c.args[0])
    n = s.length(c.st)
    i = c.args[1]
    if n == 0 or not c.st.branch(z3.ULT(i.v, n), 'remove index'):
        raise Panic('Vec::remove index out of bounds')
    k = c.st.concretize(i.v, 0, n - 1, 'remove')
    v = s.load(k, None, c.st)
    del s.elems[k]
    return v


@model('Vec::insert')
def m_vec_insert(c):
    s = as_seq(c.st, c.args[0])
    n = s.length(c.st)
    i = c.args[1]
    if not c.st.branch(z3.ULE(i.v, n), 'insert index'):
        raise Panic('Vec::insert index out of bounds')
    k = c.st.concretize(i.v, 0, n, 'insert')
    s.elems.insert(k, c.args[2])
    return UNIT


@model('Vec::swap_remove')
def m_vec_swap_remove(c):
    s = as_seq(c.st, c.args[0])
    n = s.length(c.st)
    i = c.args[1]
    if n == 0 or not c.st.branch(z3.ULT(i.v, n), 'swap_remove index'):
        raise Panic('swap_remove index out of bounds')
    k = c.st.concretize(i.v, 0, n - 1, 'swap_remove')
    v = s.load(k, None, c.st)
    last = s.elems.pop()
    if k < n - 1:
        s.elems[k] = last
    return v


@model('core::slice::sort_unstable', 'core::slice::sort', 'Vec::sort', 'Vec::sort_unstable')
def m_sort(c):
    """sorting <= 6 integers: fork on the permutation that sorts them (stable for ties by position)"""
    s = as_seq(c.st, c.args[0])
    items = s.items(c.st)
    n = len(items)
    if n <= 1:
        return UNIT
    if n > 6:
        raise Unsupported('sort of more than 6 elements')
    feas = []
    for p in itertools.permutations(range(n)):
        cs = []
        for a, b in zip(p, p[1:]):
            x, y = items[a], items[b]
            lt = key_lt(c.st, x, y)
            eq = c.st.val_eq(x, y)
            cs.append(z3.Or(lt, z3.And(eq, z3.BoolVal(a < b))))
        cnd = z3.simplify(z3.And(cs))
        if not z3.is_false(cnd) and c.st.feasible(cnd):
            feas.append((p, cnd))
    i = c.st.choose(len(feas), 'sort order')
    c.st.assume(feas[i][1])
    base = s
    vals = [items[j] for j in feas[i][0]]
    for k, v in enumerate(vals):
        base.store(k, v, c.st)
    return UNIT


@model('core::slice::reverse', 'Vec::reverse')
def m_reverse(c):
    s = as_seq(c.st, c.args[0])
    items = s.items(c.st)
    for k, v in enumerate(reversed(items)):
        s.store(k, v, c.st)
    return UNIT


@pattern(r'^core::num::checked_(shl|shr)$')
def m_checked_shift(c):
    a, b = c.args
    w = a.width
    if not c.st.branch(z3.ULT(b.v, z3.BitVecVal(w, b.width)), 'checked shift'):
        return none()
    sh = z3.ZeroExt(w - b.width, b.v) if b.width < w else z3.Extract(w - 1, 0, b.v)
    if c.canon.endswith('shl'):
        return some(Int(z3.simplify(a.v << sh), a.signed))
    return some(Int(z3.simplify(a.v >> sh if a.signed else z3.LShR(a.v, sh)), a.signed))


@pattern(r'^core::(f32|f64)::clamp$')
def m_fclamp(c):
    x, lo, hi = (v.v for v in c.args)
    r = z3.If(z3.fpLT(x, lo), lo, z3.If(z3.fpGT(x, hi), hi, x))
    return Flt(r)


@pattern(r'^core::(f32|f64)::(abs|is_nan|is_finite|is_infinite|to_bits|from_bits|max|min|total_cmp|sqrt|is_sign_negative|is_sign_positive|classify|is_normal|is_subnormal)$')
def m_fmisc(c):
    op = c.canon.split('::')[-1]
    x = deref(c.st, c.args[0])
    if op == 'from_bits':
        return Flt(z3.fpBVToFP(x.v, z3.Float32() if x.width == 32 else z3.Float64()))
    if op == 'abs':
        return Flt(z3.fpAbs(x.v))
    if op == 'sqrt':
        return Flt(z3.fpSqrt(z3.RNE(), x.v))
    if op == 'is_nan':
        return z3.simplify(z3.fpIsNaN(x.v))
    if op == 'is_infinite':
        return z3.simplify(z3.fpIsInf(x.v))
    if op == 'is_finite':
        return z3.simplify(z3.Not(z3.Or(z3.fpIsNaN(x.v), z3.fpIsInf(x.v))))
    if op == 'is_normal':
        return z3.simplify(z3.fpIsNormal(x.v))
    if op == 'is_subnormal':
        return z3.simplify(z3.fpIsSubnormal(x.v))
    if op == 'classify':
        d = z3.If(z3.fpIsNaN(x.v), z3.BitVecVal(0, 64), z3.If(z3.fpIsInf(x.v), z3.BitVecVal(1, 64), z3.If(z3.fpIsZero(x.v), z3.BitVecVal(2, 64),
                  z3.If(z3.fpIsSubnormal(x.v), z3.BitVecVal(3, 64), z3.BitVecVal(4, 64)))))
        d = z3.simplify(d)
        return Enum('FpCategory', d.as_long() if z3.is_bv_value(d) else d, {})
    if op == 'to_bits':
        return Int(float_bits(c.st, x), False)
    if op in ('is_sign_negative', 'is_sign_positive'):
        b = float_bits(c.st, x)
        neg = z3.Extract(b.size() - 1, b.size() - 1, b) == 1
        return z3.simplify(neg if op == 'is_sign_negative' else z3.Not(neg))
    y = deref(c.st, c.args[1])
    if op == 'max':
        return Flt(z3.If(z3.fpIsNaN(x.v), y.v, z3.If(z3.fpIsNaN(y.v), x.v, z3.If(z3.fpGEQ(x.v, y.v), x.v, y.v))))
    if op == 'min':
        return Flt(z3.If(z3.fpIsNaN(x.v), y.v, z3.If(z3.fpIsNaN(y.v), x.v, z3.If(z3.fpLEQ(x.v, y.v), x.v, y.v))))
    if op == 'total_cmp':
        a, b = float_bits(c.st, x), float_bits(c.st, y)
        w = a.size()
        # IEEE totalOrder via the std trick: flip all bits except sign when negative, compare as signed
        mask = lambda v: v ^ z3.LShR(v >> (w - 1), 1)
        ka, kb = mask(a), mask(b)
        d = z3.simplify(z3.If(ka < kb, z3.BitVecVal(-1, 64), z3.If(ka == kb, z3.BitVecVal(0, 64), z3.BitVecVal(1, 64))))
        return Enum('Ordering', d.as_signed_long() if z3.is_bv_value(d) else d, {})
    raise Unsupported(op)


def float_bits(st, x):
    """bit pattern of a float as a BV.  z3's fpToIEEEBV is unspecified on NaN payloads, so
    symbolic floats created by `fresh` carry their bits explicitly when first asked."""
    key = ('fbits', x.v.get_id())
    cache = st.env.setdefault('fbits', {})
    if key in cache:
        return cache[key]
    w = 32 if x.v.sort() == z3.Float32() else 64
    b = z3.BitVec(st.fresh_name('fbits'), w)
    st.assume(z3.fpBVToFP(b, x.v.sort()) == x.v)
    cache[key] = b
    return b


# ------------------------------------------------------------------ derived-trait fallbacks on plain data

@pattern(r'^<(Option|Result|Vec) as Clone>::clone$')
def m_container_clone(c):
    v = deref(c.st, c.args[0])
    return clone_deep(c.st, v)


def clone_deep(st, v):
    if isinstance(v, (Int, Flt, Str, UnitT)) or z3.is_bool(v):
        return v
    if isinstance(v, Enum):
        if v.lazy is not None:
            # force the payloads that exist; a lazily created Option<scalar> clones by sharing symbols
            r = Enum(v.ty, v.disc, {}, None, v.variant)
            tn = parse_type(v.ty)
            if tn.name == 'Option' and tn.args:
                inner = tn.args[0]
                if inner.kind in ('int', 'bool', 'float', 'char') or (inner.kind == 'adt' and inner.name == 'String'):
                    d = v.disc if not isinstance(v.disc, int) else None
                    if d is None or st.feasible(d == 1):
                        r.fields[('Some', 0)] = v.load(('Some', 0), inner.raw, st)
                    return r
            raise Unsupported('clone of lazily created ' + str(v.ty))
        return Enum(v.ty, v.disc, {k: clone_deep(st, x) for k, x in v.fields.items()}, None, v.variant)
    if isinstance(v, Struct):
        if v.lazy is not None:
            raise Unsupported('clone of lazily created ' + str(v.ty))
        return Struct(v.ty, {k: clone_deep(st, x) for k, x in v.fields.items()})
    if isinstance(v, Seq):
        return Seq(v.elem_ty, [clone_deep(st, x) for x in v.items(st)])
    if isinstance(v, Ptr):
        return v     # Arc / shared reference
    raise Unsupported('clone of ' + type(v).__name__)


@model('Box::new_uninit')
def m_box_new_uninit(c):
    """first half of the `vec![a, b]` lowering: an uninitialised boxed array"""
    return Ptr(Cell(val=Struct('MaybeUninit', {}, lazy=c.st.fresh_name('uninit'))), 0)


@model('std::boxed::box_assume_init_into_vec_unsafe', 'boxed::box_assume_init_into_vec_unsafe')
def m_box_into_vec(c):
    v = c.args[0].load(c.st)
    for k in (1, 0, 0):
        if not isinstance(v, Struct) or k not in v.fields:
            raise Unsupported('box_assume_init_into_vec_unsafe: unexpected layout')
        v = v.fields[k]
    if not isinstance(v, Seq):
        raise Unsupported('box_assume_init_into_vec_unsafe: not an array')
    return Seq(v.elem_ty, list(v.elems))


@pattern(r'^<(Option|Vec|String) as Clone>::clone_from$')
def m_clone_from(c):
    tgt = c.args[0]
    src = deref(c.st, c.args[1])
    tgt.store(clone_deep(c.st, src), c.st)
    return UNIT


@model('Ordering::then_with')
def m_then_with(c):
    o = c.args[0]
    d = o.disc if not isinstance(o.disc, int) else z3.BitVecVal(o.disc, 64)
    if c.st.branch(d == 0, 'then_with equal'):
        return c.native('call_ret', {'f': c.args[1], 'args': [], 'stage': 0})
    return o


@model('Ordering::then')
def m_then(c):
    o = c.args[0]
    d = o.disc if not isinstance(o.disc, int) else z3.BitVecVal(o.disc, 64)
    if c.st.branch(d == 0, 'then equal'):
        return c.args[1]
    return o


@model('Ordering::reverse')
def m_ord_reverse(c):
    o = c.args[0]
    d = o.disc if not isinstance(o.disc, int) else z3.BitVecVal(o.disc, 64)
    r = z3.simplify(-d)
    return Enum('Ordering', r.as_signed_long() if z3.is_bv_value(r) else r, {})


@model('Ordering::is_lt', 'Ordering::is_le', 'Ordering::is_gt', 'Ordering::is_ge', 'Ordering::is_eq', 'Ordering::is_ne')
def m_ord_is(c):
    o = deref(c.st, c.args[0])
    d = o.disc if not isinstance(o.disc, int) else z3.BitVecVal(o.disc, 64)
    op = c.canon.split('::')[-1]
    return z3.simplify({'is_lt': d == -1, 'is_le': d != 1, 'is_gt': d == 1, 'is_ge': d != -1, 'is_eq': d == 0, 'is_ne': d != 0}[op])


@cont('call_ret')
def k_call_ret(st, fr, rv):
    d = fr.data
    if d['stage'] == 0:
        d['stage'] = 1
        return st.ex.call_value(st, d['f'], d['args'], None, None)
    return st.ex.native_return(st, fr, rv)


# ------------------------------------------------------------------ format!: structured strings

@model('Argument::new_display', 'Argument::new_lower_hex', 'Argument::new_upper_hex', 'Argument::new_debug')
def m_fmt_argument(c):
    return Struct('FmtArg', {'spec': c.canon.split('::')[-1], 'val': deref(c.st, c.args[0])})


@model('Arguments::new', 'Arguments::new_v1', 'Arguments::new_const', 'Arguments::from_str')
def m_fmt_arguments(c):
    tpl = deref(c.st, c.args[0])
    if isinstance(tpl, Seq):
        items = tpl.items(c.st)
        if all(isinstance(x, Int) and z3.is_bv_value(z3.simplify(x.v)) for x in items):
            tpl = bytes(z3.simplify(x.v).as_long() for x in items)
        else:
            tpl = None
    elif isinstance(tpl, Str):
        tpl = tpl.text
    args = []
    if len(c.args) > 1:
        a = deref(c.st, c.args[1])
        if isinstance(a, Seq):
            args = list(a.items(c.st))
    return Struct('FmtArgs', {'tpl': tpl, 'args': args})


@model('format', 'std::fmt::format', 'alloc::fmt::format', 'fmt::format')
def m_format(c):
    a = c.args[0]
    sid = z3.BitVec(c.st.fresh_name('fmt'), 64)
    if isinstance(a, Struct) and a.ty == 'FmtArgs' and a.fields.get('tpl') is not None:
        vals = []
        for x in a.fields['args']:
            if isinstance(x, Struct) and x.ty == 'FmtArg':
                vals.append((x.fields['spec'], x.fields['val']))
            else:
                return Str(sid)
        return Str(sid, parts=(a.fields['tpl'], vals))
    return Str(sid)


def fmt_equal(st, a, b):
    """z3 Bool: two strings built by format! are equal.  Same template: argument-wise equality (Display/hex of
    integers and bools is injective).  Templates whose leading literals differ: unequal.  Anything else: unsupported."""
    (ta, va), (tb, vb) = a.parts, b.parts
    if ta == tb and len(va) == len(vb):
        cs = []
        for (sa, x), (sb, y) in zip(va, vb):
            if sa != sb:
                raise Unsupported('format! strings with different specs')
            if isinstance(x, Int) and isinstance(y, Int):
                cs.append(x.v == y.v)
            elif z3.is_bool(x) and z3.is_bool(y):
                cs.append(x == y)
            elif isinstance(x, Str) and isinstance(y, Str):
                cs.append(str_equal(st, x, y))
            else:
                raise Unsupported('format! argument of type ' + type(x).__name__)
        return z3.And(cs) if cs else z3.BoolVal(True)
    la, lb = _leading_text(a.parts), _leading_text(b.parts)
    if la and lb and not la.startswith(lb) and not lb.startswith(la):
        return z3.BoolVal(False)
    raise Unsupported('comparison of strings from different format! templates')


def _leading_literal(tpl):
    """leading literal piece of a compiled format template (`\x02i:\xc0\x00`: length byte, then the text)"""
    if isinstance(tpl, str):
        return tpl.encode()
    if not tpl:
        return b''
    n = tpl[0]
    if n >= 0x80:
        return b''
    return bytes(tpl[1:1 + n])


def _leading_text(parts):
    """known leading text of a format! string: the template's leading literal, or - when the template starts with an
    argument that is itself a literal string (`format!("{PREFIX}{n}")` with a const PREFIX) - that argument's text"""
    tpl, vals = parts
    lit = _leading_literal(tpl)
    if lit:
        return lit
    if vals:
        x = vals[0][1]
        if isinstance(x, Ptr):
            x = None
        if isinstance(x, Str) and x.parts is None and x.text is not None:
            return x.text.encode()
    return b''


def str_equal(st, a, b):
    if a.parts is not None and b.parts is not None:
        return fmt_equal(st, a, b)
    if (a.parts is not None) != (b.parts is not None):
        other = b if a.parts is not None else a
        mine = a if a.parts is not None else b
        if other.text is not None:
            lit = _leading_text(mine.parts)
            if lit and not other.text.encode().startswith(lit):
                return z3.BoolVal(False)
            raise Unsupported('comparison of a format! string with a literal')
    return a.id == b.id


@pattern(r'^<&+(u8|u16|u32|u64|u128|usize|i8|i16|i32|i64|i128|isize|bool|char) as (PartialEq|PartialOrd|Ord)(<.*>)?>::(eq|ne|lt|le|gt|ge|cmp|partial_cmp)$')
def m_ref_prim_cmp(c):
    from .models import m_int_cmp
    return m_int_cmp(c)      # m_int_cmp dereferences its operands


@pattern(r'^<&*(f32|f64) as (PartialEq|PartialOrd)(<.*>)?>::(eq|ne|lt|le|gt|ge|partial_cmp)$')
def m_float_cmp(c):
    a = deref(c.st, c.args[0])
    b = deref(c.st, c.args[1])
    op = c.canon.split('::')[-1]
    x, y = a.v, b.v
    if op == 'eq':
        return z3.simplify(z3.fpEQ(x, y))
    if op == 'ne':
        return z3.simplify(z3.Not(z3.fpEQ(x, y)))
    if op == 'lt':
        return z3.simplify(z3.fpLT(x, y))
    if op == 'le':
        return z3.simplify(z3.fpLEQ(x, y))
    if op == 'gt':
        return z3.simplify(z3.fpGT(x, y))
    if op == 'ge':
        return z3.simplify(z3.fpGEQ(x, y))
    # partial_cmp: None when unordered
    if c.st.branch(z3.Or(z3.fpIsNaN(x), z3.fpIsNaN(y)), 'partial_cmp unordered'):
        return none()
    d = z3.simplify(z3.If(z3.fpLT(x, y), z3.BitVecVal(-1, 64), z3.If(z3.fpEQ(x, y), z3.BitVecVal(0, 64), z3.BitVecVal(1, 64))))
    return some(Enum('Ordering', d.as_signed_long() if z3.is_bv_value(d) else d, {}))


@model('SystemTime::duration_since')
def m_systime_since(c):
    t = deref(c.st, c.args[0])
    if isinstance(t, Struct) and 0 in t.fields:
        return ok(Struct('Duration', {0: t.fields[0]}))
    raise Unsupported('duration_since on ' + repr(t)[:60])


@pattern(r'^<Box as Fn(Mut|Once)?<\(.*\)>>::call(_mut|_once)?$')
def m_boxed_dyn_fn(c):
    """a boxed `dyn Fn` supplied by the embedding application: unknown code, arbitrary result"""
    t = parse_type(c.dest_ty) if c.dest_ty else None
    if t is None:
        raise Unsupported('boxed dyn Fn with unknown result type')
    return c.st.fresh(t, c.st.fresh_name('dynfn'))


@model('RangeInclusive::new', 'std::ops::RangeInclusive::new', 'core::ops::RangeInclusive::new')
def m_range_inclusive_new(c):
    return Struct('std::ops::RangeInclusive', {0: c.args[0], 1: c.args[1], 2: z3.BoolVal(False)})


# ---- awaiting a stubbed async fn: the stub returns Struct('ReadyFuture', {0: value}); the await of it completes at the first poll
@pattern(r'^<\{async fn body of .*\} as (std::future::|core::future::)?IntoFuture>::into_future$')
def m_into_future(c):
    return c.args[0]


@pattern(r'^Pin::<&mut \{async fn body of .*\}>::new_unchecked$|^Pin::new_unchecked$')
def m_pin_new_unchecked(c):
    return Struct('Pin', {0: c.args[0]})


@pattern(r'^<\{async fn body of .*\} as (std::future::|core::future::)?Future>::poll$')
def m_ready_future_poll(c):
    pin = c.args[0]
    fut = deref(c.st, pin.fields[0]) if isinstance(pin, Struct) and pin.ty == "Pin" else deref(c.st, pin)
    if not (isinstance(fut, Struct) and fut.ty == "ReadyFuture"):
        raise Unsupported('poll of a future that is not a stubbed ready value')
    return Enum('Poll', 0, {('Ready', 0): fut.fields[0]}, variant='Ready')


@model('std::mem::size_of', 'core::mem::size_of')
def m_size_of(c):
    m = re.search(r'size_of::<([^>]+)>', c.callee or '')
    sizes = {'u8': 1, 'i8': 1, 'bool': 1, 'u16': 2, 'i16': 2, 'u32': 4, 'i32': 4, 'f32': 4, 'u64': 8, 'i64': 8, 'usize': 8, 'isize': 8, 'f64': 8, 'u128': 16, 'i128': 16}
    if not m or m.group(1) not in sizes:
        raise Unsupported('size_of of ' + (m.group(1) if m else '?'))
    return Int(z3.BitVecVal(sizes[m.group(1)], 64), False)


@pattern(r'^<\((?:[ui](?:8|16|32|64|128|size)(?:, )?)+\) as PartialOrd>::(gt|lt|ge|le)$')
def m_int_tuple_cmp(c):
    """lexicographic comparison of tuples of integers (derived PartialOrd of tuples)"""
    a, b = deref(c.st, c.args[0]), deref(c.st, c.args[1])
    n = len([k for k in a.fields if isinstance(k, int)])
    op = c.canon.rsplit('::', 1)[1]
    lt = z3.BoolVal(False)
    eq = z3.BoolVal(True)
    for i in range(n):
        x, y = a.fields[i], b.fields[i]
        less = (x.v < y.v) if x.signed else z3.ULT(x.v, y.v)
        lt = z3.Or(lt, z3.And(eq, less))
        eq = z3.And(eq, x.v == y.v)
    gt = z3.And(z3.Not(lt), z3.Not(eq))
    return z3.simplify({'lt': lt, 'le': z3.Or(lt, eq), 'gt': gt, 'ge': z3.Or(gt, eq)}[op])
