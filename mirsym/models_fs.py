"""Files as byte lists (shape concrete, bytes symbolic), uninterpreted checksum, image-table codec.

st.env['fs']   : {path_key: FileObj}
FileObj.data   : list of Int(u8)           – what the file would contain if everything written reached the disk
FileObj.synced : int                        – prefix length guaranteed durable (after sync_all)
A crash is applied by the *check script* (truncate data to any length in [synced, len]).
"""
import z3
from .values import *
from .models import (model, pattern, cont, some, none, ok, err, usize, deref, as_seq, is_variant, payload, new_cell_ptr)
from .models_iter import adt_name
from .rtypes import parse_type
from .exec import START, PUSHED, Panic, TypedPtr, SeqView

ERRKIND = {'NotFound': 0, 'UnexpectedEof': 1, 'Other': 2, 'InvalidInput': 3, 'InvalidData': 4, 'PermissionDenied': 5}


class FileObj:
    def __init__(self, data=None, synced=0):
        self.data = data if data is not None else []
        self.synced = synced

    def __repr__(self):
        return f'File(len={len(self.data)}, synced={self.synced})'


class FileH:
    """open file handle"""

    def __init__(self, f, pos=0, append=False, key=None):
        self.f = f
        self.pos = pos
        self.append = append
        self.key = key

    def __repr__(self):
        return f'FileH(pos={self.pos})'


class BufW:
    def __init__(self, h):
        self.h = h
        self.buf = []


class HugeSeq:
    """a Vec whose symbolic length exceeds anything the file can supply: never materialised"""

    def __init__(self, length_term):
        self.length_term = length_term
        self.elem_ty = 'u8'

    def length(self, st):
        raise Unsupported('length of an unmaterialised huge buffer')


def fs(st):
    return st.env.setdefault('fs', {})


def path_key(st, p):
    v = deref(st, p)
    if isinstance(v, Str):
        if v.text is not None:
            return v.text
        s = z3.simplify(v.id)
        return 'path#' + str(s)
    if isinstance(v, Struct) and 'path' in v.fields:
        return v.fields['path']
    raise Unsupported('path value ' + repr(v)[:80])


def io_error(kind):
    return Struct('std::io::Error', {'kind': kind})


def io_err(kind, ty='Result'):
    return err(io_error(kind), ty)


# ------------------------------------------------------------------ paths

@pattern(r'^<.* as AsRef<Path>>::as_ref$|^Path::new$|^Path::to_path_buf$|^<PathBuf as Deref>::deref$|^PathBuf::as_path$|^<PathBuf as AsRef<Path>>::as_ref$|^<PathBuf as Clone>::clone$|^<Path as ToOwned>::to_owned$|^<PathBuf as From<.*>>::from$|^PathBuf::from$')
def m_path_ident(c):
    v = c.args[0]
    name = c.canon.split('::')[-1]
    if name in ('to_path_buf', 'clone', 'to_owned', 'from'):
        return deref(c.st, v)
    if name in ('as_ref', 'deref', 'as_path', 'new'):
        inner = v.load(c.st) if isinstance(v, Ptr) else v
        if isinstance(inner, Ptr):
            return inner
        return v
    return v


def _suffix_key(st, suffix):
    """stable text for a path component: literal text, or - for a format! string - its rendered arguments"""
    if not isinstance(suffix, Str):
        return '?'
    if suffix.text is not None:
        return suffix.text
    if suffix.parts is not None:
        out = []
        for _, v in suffix.parts[1]:
            v = deref(st, v)
            if isinstance(v, Str):
                out.append(_suffix_key(st, v))
            elif isinstance(v, Int):
                out.append(str(z3.simplify(v.v)))
            else:
                out.append(type(v).__name__)
        return 'fmt(' + ','.join(out) + ')'
    return str(z3.simplify(suffix.id))


@model('Path::file_name')
def m_path_file_name(c):
    k = path_key(c.st, c.args[0])
    return some(new_cell_ptr(Str(text=str(k).split('/')[-1])), 'Option<&OsStr>')


@model('OsStr::to_string_lossy', 'OsStr::to_str', 'Path::to_string_lossy', 'Path::display')
def m_osstr_lossy(c):
    v = deref(c.st, c.args[0])
    if c.canon.endswith('to_str'):
        return some(v, 'Option<&str>')
    return v


@model('Path::exists', 'Path::is_file')
def m_path_exists(c):
    return z3.BoolVal(path_key(c.st, c.args[0]) in fs(c.st))


@model('Path::with_file_name', 'Path::join', 'Path::with_extension')
def m_path_derive(c):
    base = path_key(c.st, c.args[0])
    suffix = deref(c.st, c.args[1])
    sk = _suffix_key(c.st, suffix)
    return Str(text=f'{base}/{c.canon.split("::")[-1]}/{sk}')


@model('std::fs::remove_file', 'fs::remove_file', 'remove_file')
def m_remove_file(c):
    k = path_key(c.st, c.args[0])
    if k in fs(c.st):
        del fs(c.st)[k]
        return ok(UNIT)
    return io_err(ERRKIND['NotFound'])


@model('std::fs::rename', 'fs::rename', 'rename')
def m_rename(c):
    a, b = path_key(c.st, c.args[0]), path_key(c.st, c.args[1])
    d = fs(c.st)
    if a not in d:
        return io_err(ERRKIND['NotFound'])
    d[b] = d.pop(a)
    c.st.notes.append(('rename', a, b))
    return ok(UNIT)


# ------------------------------------------------------------------ open

@model('OpenOptions::new')
def m_oo_new(c):
    return Struct('OpenOptions', {'create': False, 'append': False, 'truncate': False, 'read': False, 'write': False})


@model('OpenOptions::create', 'OpenOptions::append', 'OpenOptions::truncate', 'OpenOptions::read', 'OpenOptions::write', 'OpenOptions::create_new')
def m_oo_flag(c):
    o = deref(c.st, c.args[0])
    flag = c.canon.split('::')[-1]
    b = c.args[1]
    b = z3.simplify(b)
    if not (z3.is_true(b) or z3.is_false(b)):
        raise Unsupported('symbolic OpenOptions flag')
    o.fields[flag] = z3.is_true(b)
    return c.args[0]


@model('OpenOptions::open')
def m_oo_open(c):
    o = deref(c.st, c.args[0])
    k = path_key(c.st, c.args[1])
    d = fs(c.st)
    if k not in d:
        if not (o.fields.get('create') or o.fields.get('create_new')):
            return io_err(ERRKIND['NotFound'])
        d[k] = FileObj()
    f = d[k]
    if o.fields.get('truncate'):
        f.data = []
        f.synced = 0
    return ok(FileH(f, 0, bool(o.fields.get('append')), k))


@model('File::open')
def m_file_open(c):
    k = path_key(c.st, c.args[0])
    d = fs(c.st)
    if k not in d:
        return io_err(ERRKIND['NotFound'])
    return ok(FileH(d[k], 0, False, k))


@model('File::create')
def m_file_create(c):
    k = path_key(c.st, c.args[0])
    d = fs(c.st)
    if k in d:
        # O_TRUNC on the same inode: handles opened earlier still refer to it
        d[k].data = []
        d[k].synced = 0
    else:
        d[k] = FileObj()
    return ok(FileH(d[k], 0, False, k))


@model('File::metadata', 'std::fs::metadata', 'fs::metadata')
def m_metadata(c):
    v = deref(c.st, c.args[0])
    if isinstance(v, FileH):
        return ok(Struct('Metadata', {'len': len(v.f.data)}))
    k = path_key(c.st, c.args[0])
    if k not in fs(c.st):
        return io_err(ERRKIND['NotFound'])
    return ok(Struct('Metadata', {'len': len(fs(c.st)[k].data)}))


@model('Metadata::len')
def m_metadata_len(c):
    return Int(z3.BitVecVal(deref(c.st, c.args[0]).fields['len'], 64), False)


@model('File::set_len')
def m_set_len(c):
    h = deref(c.st, c.args[0])
    n = c.args[1]
    cur = len(h.f.data)
    k = c.st.concretize(n.v, 0, cur, 'set_len') if not z3.is_bv_value(z3.simplify(n.v)) else z3.simplify(n.v).as_long()
    if k > cur:
        raise Unsupported('set_len extending the file')
    del h.f.data[k:]
    h.f.synced = min(h.f.synced, k)
    c.st.notes.append(('set_len', h.key, k))
    return ok(UNIT)


@model('File::sync_all', 'File::sync_data')
def m_sync_all(c):
    h = deref(c.st, c.args[0])
    h.f.synced = len(h.f.data)
    c.st.notes.append(('sync', h.key, h.f.synced))
    return ok(UNIT)


# ------------------------------------------------------------------ buffered writer

@model('BufWriter::new', 'BufWriter::with_capacity')
def m_bufw_new(c):
    return BufW(c.args[-1])


@model('BufWriter::get_ref', 'BufWriter::get_mut')
def m_bufw_get_ref(c):
    w = deref(c.st, c.args[0])
    return new_cell_ptr(w.h)


def file_write(h, items):
    if not h.append and h.pos > len(h.f.data):
        # writing past the end of a (shrunk) file leaves a hole that reads back as zero bytes
        h.f.data.extend(Int(z3.BitVecVal(0, 8), False) for _ in range(h.pos - len(h.f.data)))
    if h.append or h.pos >= len(h.f.data):
        h.f.data.extend(items)
        h.pos = len(h.f.data)
    else:
        for i, b in enumerate(items):
            if h.pos + i < len(h.f.data):
                h.f.data[h.pos + i] = b
            else:
                h.f.data.append(b)
        h.pos += len(items)


@pattern(r'^<BufWriter as Write>::write_all$|^<File as Write>::write_all$|^<&File as Write>::write_all$|^Write::write_all$')
def m_write_all(c):
    w = deref(c.st, c.args[0])
    s = as_seq(c.st, c.args[1])
    items = list(s.items(c.st))
    if isinstance(w, BufW):
        w.buf.extend(items)
    elif isinstance(w, FileH):
        file_write(w, items)
    else:
        raise Unsupported('write_all on ' + type(w).__name__)
    return ok(UNIT)


@pattern(r'^<BufWriter as Write>::flush$|^<File as Write>::flush$|^Write::flush$|^BufWriter::flush$')
def m_flush(c):
    w = deref(c.st, c.args[0])
    if isinstance(w, BufW):
        if w.buf:
            file_write(w.h, w.buf)
            w.buf = []
    return ok(UNIT)


# ------------------------------------------------------------------ buffered reader

@model('BufReader::new', 'BufReader::with_capacity')
def m_bufr_new(c):
    return c.args[-1]


@pattern(r'^<BufReader as Read>::read_exact$|^<File as Read>::read_exact$|^<&File as Read>::read_exact$|^Read::read_exact$')
def m_read_exact(c):
    h = deref(c.st, c.args[0])
    buf = deref(c.st, c.args[1])
    if isinstance(buf, HugeSeq):
        h.pos = len(h.f.data)
        return io_err(ERRKIND['UnexpectedEof'])
    n = buf.length(c.st)
    avail = len(h.f.data) - h.pos
    if n > avail:
        # std leaves the buffer contents unspecified and consumes what was there
        h.pos = len(h.f.data)
        return io_err(ERRKIND['UnexpectedEof'])
    for i in range(n):
        buf.store(i, h.f.data[h.pos + i], c.st)
    h.pos += n
    return ok(UNIT)


@pattern(r'^<BufReader as Read>::read_to_end$|^<File as Read>::read_to_end$|^Read::read_to_end$')
def m_read_to_end(c):
    h = deref(c.st, c.args[0])
    buf = as_seq(c.st, c.args[1])
    rest = h.f.data[h.pos:]
    buf.force(c.st).extend(rest)
    h.pos = len(h.f.data)
    return ok(usize(len(rest)))


@model('Error::kind')
def m_err_kind(c):
    e = deref(c.st, c.args[0])
    if isinstance(e, Struct) and 'kind' in e.fields:
        return Enum('ErrorKind', e.fields['kind'], {})
    raise Unsupported('kind of ' + repr(e)[:60])


@pattern(r'^<ErrorKind as PartialEq>::(eq|ne)$')
def m_errkind_eq(c):
    a = deref(c.st, c.args[0])
    b = deref(c.st, c.args[1])
    da = a.disc if isinstance(a.disc, int) else None
    db = b.disc if isinstance(b.disc, int) else None
    if da is None or db is None:
        raise Unsupported('symbolic ErrorKind')
    # constants of std::io::ErrorKind arrive as Opaque/enum values by name
    r = da == db
    return z3.BoolVal(r if c.canon.endswith('eq') else not r)


@model('Error::other', 'Error::new')
def m_err_other(c):
    return io_error(ERRKIND['Other'])


@pattern(r'^<(WalError|TxWalError|.*Error) as Into<Error>>::into$|^<Error as From<.*>>::from$')
def m_err_into(c):
    v = c.args[0]
    # `From<io::Error> for X`/`Into<io::Error>`: crate impls are resolved from MIR first; this is the std blanket
    if isinstance(v, Struct) and v.ty == 'std::io::Error':
        return v
    return Struct('std::io::Error', {'kind': ERRKIND['Other'], 'source': v})


# ------------------------------------------------------------------ vec![0u8; len] with a length read from the file

@model('std::vec::from_elem', 'vec::from_elem')
def m_from_elem(c):
    x, n = c.args
    nv = z3.simplify(n.v)
    if z3.is_bv_value(nv):
        k = nv.as_long()
        if k > 4096:
            c.st.notes.append(('alloc', n))
            return HugeSeq(n.v)
        c.st.notes.append(('alloc', n))
        from .exec import copy_val
        return Seq(None, [copy_val(x) for _ in range(k)])
    # symbolic length: fork over the sizes the model can materialise, plus "larger"
    limit = c.st.env.get('alloc_limit', 24)
    cands = [k for k in range(0, limit + 1) if c.st.feasible(n.v == k)]
    big = c.st.feasible(z3.UGT(n.v, z3.BitVecVal(limit, n.width)))
    i = c.st.choose(len(cands) + (1 if big else 0), 'vec len')
    c.st.notes.append(('alloc', n))
    if i < len(cands):
        c.st.assume(n.v == cands[i])
        from .exec import copy_val
        return Seq(None, [copy_val(x) for _ in range(cands[i])])
    c.st.assume(z3.UGT(n.v, z3.BitVecVal(limit, n.width)))
    return HugeSeq(n.v)


# ------------------------------------------------------------------ checksum: uninterpreted function per length

_crc_fns = {}


def crc_term(byte_terms):
    n = len(byte_terms)
    if n == 0:
        return z3.BitVecVal(0, 32)
    if n not in _crc_fns:
        _crc_fns[n] = z3.Function(f'crc32_{n}', *([z3.BitVecSort(8)] * n + [z3.BitVecSort(32)]))
    return _crc_fns[n](*byte_terms)


@model('crc32fast::hash', 'hash')
def m_crc(c):
    s = as_seq(c.st, c.args[0])
    t = crc_term([b.v for b in s.items(c.st)])
    if c.st.env.get('crc_nonzero'):
        # per-scenario assumption (stated by the check that sets it): the checksums met are not the reserved value 0
        c.st.assume(t != 0)
    return Int(t, False)


# ------------------------------------------------------------------ codec: image table

def codec_len(st):
    return st.env.get('codec_len', 2)


@model('bitcode::serialize', 'bitcode::encode')
def m_serialize(c):
    v = deref(c.st, c.args[0])
    L = codec_len(c.st)
    tab = c.st.env.setdefault('codec', [])
    idx = len(tab)
    bs = [Int(z3.BitVec(f'img{idx}_{i}', 8), False) for i in range(L)]
    tab.append((bs, v))
    out = Seq('u8', list(bs))
    if c.canon.endswith('serialize'):
        return ok(out)
    return out


@model('bitcode::deserialize', 'bitcode::decode')
def m_deserialize(c):
    s = as_seq(c.st, c.args[0])
    items = s.items(c.st)
    tab = c.st.env.get('codec', [])
    for bs, v in tab:
        if len(bs) == len(items) and all(a.v.eq(b.v) for a, b in zip(bs, items)):
            c.st.notes.append(('decode_image', v))
            return ok(v)
    # not a recorded image: the real decoder may reject it or produce some value
    i = c.st.choose(2, 'decode unknown bytes')
    if i == 0:
        return err(Opaque('bitcode::Error'))
    g = c.generics()
    ty = g[0][0] if g and g[0] else None
    if ty is None and c.dest_ty:
        t = parse_type(c.dest_ty)
        ty = t.args[0].raw if t.args else None
    if ty is None:
        raise Unsupported('deserialize target type unknown')
    val = c.st.fresh(ty, c.st.fresh_name('decoded'))
    c.st.notes.append(('decode_garbage', val))
    return ok(val)


@model('BufReader::seek_relative')
def m_seek_relative(c):
    h = deref(c.st, c.args[0])
    off = c.args[1]
    lo = -h.pos
    hi = len(h.f.data) - h.pos
    ov = z3.simplify(off.v)
    if z3.is_bv_value(ov):
        k = ov.as_signed_long()
    else:
        inr = z3.And(off.v >= lo, off.v <= hi)
        if not c.st.branch(inr, 'seek in range'):
            raise Unsupported('seek_relative outside the file')
        cands = [x for x in range(lo, hi + 1) if c.st.feasible(off.v == x)]
        i = c.st.choose(len(cands), 'seek offset')
        c.st.assume(off.v == cands[i])
        k = cands[i]
    if h.pos + k < 0:
        return io_err(ERRKIND['InvalidInput'])
    h.pos += k
    return ok(UNIT)


class TakeR:
    """io::Read::take adaptor: at most `limit` further bytes of the underlying handle"""

    def __init__(self, h, limit):
        self.h = h
        self.limit = limit


@pattern(r'^<.* as Read>::by_ref$|^Read::by_ref$|^<.* as Write>::by_ref$')
def m_by_ref(c):
    return c.args[0]


@pattern(r'^<.* as Read>::take$|^Read::take$')
def m_take(c):
    h = deref(c.st, c.args[0])
    if not isinstance(h, FileH):
        raise Unsupported('take on ' + type(h).__name__)
    return TakeR(h, c.args[1])


@model('std::io::sink', 'io::sink', 'sink')
def m_sink(c):
    return Opaque('io::Sink')


@model('std::io::copy', 'io::copy', 'copy')
def m_io_copy(c):
    """io::copy(reader, writer): moves everything the reader yields; a short source is NOT an error"""
    r = deref(c.st, c.args[0])
    w = deref(c.st, c.args[1])
    if isinstance(r, TakeR):
        h = r.h
        avail = len(h.f.data) - h.pos
        lim = z3.simplify(r.limit.v)
        if z3.is_bv_value(lim):
            n = min(lim.as_long(), avail)
        else:
            cands = [k for k in range(0, avail + 1) if c.st.feasible(z3.If(z3.ULE(r.limit.v, avail), r.limit.v, z3.BitVecVal(avail, 64)) == k)]
            i = c.st.choose(len(cands), 'io::copy length')
            n = cands[i]
            c.st.assume(z3.If(z3.ULE(r.limit.v, avail), r.limit.v, z3.BitVecVal(avail, 64)) == n)
    elif isinstance(r, FileH):
        h = r
        n = len(h.f.data) - h.pos
    else:
        raise Unsupported('io::copy from ' + type(r).__name__)
    data = h.f.data[h.pos:h.pos + n]
    h.pos += n
    if isinstance(w, Opaque):
        pass
    elif isinstance(w, BufW):
        w.buf.extend(data)
    elif isinstance(w, FileH):
        file_write(w, data)
    elif isinstance(w, Seq):
        w.force(c.st).extend(data)
    else:
        raise Unsupported('io::copy into ' + type(w).__name__)
    return ok(Int(z3.BitVecVal(n, 64), False))
