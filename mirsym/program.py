"""Program = MIR dump of one crate + source-derived tables (impl owners, enum variants).

Regenerated from /repo's working tree on every run (see dump_crate).
"""
import os
import re
import subprocess
import glob
import time
import hashlib
from .mir import parse_dump, find_matching, split_top
from .rtypes import strip_generics, parse_type, canon_callee

REPO = os.environ.get('VERIF_REPO', '/repo')
BUILD = os.environ.get('VERIF_BUILD', os.path.join(os.path.dirname(os.path.dirname(os.path.abspath(__file__))), '.build'))


def dump_crate(crate, features=None, no_default=False, force=True):
    """Run rustc's MIR printer on the crate's current source; returns the text.
    The private target dir keeps dependencies cached; the crate itself is always
    recompiled (its fingerprint is removed) so the dump is of the current tree."""
    tdir = os.path.join(BUILD, 'mir')
    os.makedirs(tdir, exist_ok=True)
    out = os.path.join(BUILD, 'dumps')
    os.makedirs(out, exist_ok=True)
    # two checks may run at once: removing the fingerprint under a compiling cargo breaks that build, so serialise the dump
    import fcntl
    lock = open(os.path.join(BUILD, 'mir.lock'), 'w')
    fcntl.flock(lock, fcntl.LOCK_EX)
    try:
        return _dump_locked(crate, features, no_default, force, tdir, out)
    finally:
        fcntl.flock(lock, fcntl.LOCK_UN)
        lock.close()


def _dump_locked(crate, features, no_default, force, tdir, out):
    if force:
        for fp in glob.glob(os.path.join(tdir, 'debug', '.fingerprint', crate.replace('-', '_') + '-*')) + \
                glob.glob(os.path.join(tdir, 'debug', '.fingerprint', crate + '-*')):
            subprocess.run(['rm', '-rf', fp])
    cmd = ['cargo', '+nightly', 'rustc', '--offline', '--lib', '-p', crate]
    if no_default:
        cmd.append('--no-default-features')
    if features:
        cmd += ['--features', features]
    cmd += ['--', '-Zunpretty=mir', '-C', 'debug-assertions=off', '-C', 'overflow-checks=on']
    env = dict(os.environ, CARGO_TARGET_DIR=tdir, CARGO_NET_OFFLINE='true')
    env.pop('RUSTFLAGS', None)
    t = time.time()
    p = subprocess.run(cmd, cwd=REPO, env=env, capture_output=True, text=True)
    if p.returncode != 0 or len(p.stdout) < 1000:
        raise RuntimeError('MIR dump failed for %s:\n%s' % (crate, p.stderr[-3000:]))
    path = os.path.join(out, crate + '.mir')
    with open(path, 'w') as f:
        f.write(p.stdout)
    return p.stdout, time.time() - t


IMPL_AT = re.compile(r'<impl at ([^:>]+):(\d+):(\d+): (\d+):(\d+)>')


class Program:
    def __init__(self, crate, text, repo=REPO):
        self.crate = crate
        self.repo = repo
        self.fns = parse_dump(text)
        self.sha = hashlib.sha256(text.encode()).hexdigest()[:16]
        self._src = {}
        self.by_canon = {}      # canonical name -> Function (first wins: runtime MIR, not CTFE)
        self.by_last = {}       # last segment -> [Function]
        self.closures = {}      # closure type text -> Function
        self.promoted = {}      # canonical name -> Function
        self.consts = {}
        self.statics = dict(re.findall(r'^(alloc\d+) \(static: ([A-Za-z_0-9:]+),', text, re.M))      # allocation id -> static item name
        # integer initialisers of atomics: `static NAME: Atomic<u64> = { ... Atomic::<u64>::new(const N_u64) ... }`
        self.static_init = {m.group(1).split('::')[-1]: int(m.group(2)) for m in re.finditer(r'^static ([A-Za-z_0-9:]+): [^\n]*= \{\n(?:(?!^\}).*\n)*?.*?::new\(const (\d+)_u(?:8|16|32|64|size)\)', text, re.M)}
        self.enums = {}         # enum name -> [ [variant names], ... ] (several defs possible)
        self.enum_discr = {}    # (enum, variant) -> explicit discriminant
        self.structs = {}       # struct name -> [field names]
        self._index()
        self._scan_sources()

    # ---- source helpers
    def src_lines(self, rel):
        if rel not in self._src:
            p = os.path.join(self.repo, rel)
            try:
                self._src[rel] = open(p, encoding='utf-8', errors='replace').read().split('\n')
            except OSError:
                self._src[rel] = []
        return self._src[rel]

    def impl_owner(self, m):
        """(type, trait) for an `<impl at file:l:c: l:c>` match."""
        rel, l1, c1, l2, c2 = m.group(1), int(m.group(2)), int(m.group(3)), int(m.group(4)), int(m.group(5))
        lines = self.src_lines(rel)
        if l1 - 1 >= len(lines):
            return None, None
        line = lines[l1 - 1]
        frag = line[c1 - 1:]
        if frag.lstrip().startswith(('impl', 'unsafe impl')):
            # join following lines until '{'
            txt = frag
            k = l1
            while '{' not in txt and k < len(lines):
                txt += ' ' + lines[k].strip()
                k += 1
            txt = txt.split('{')[0]
            txt = re.sub(r'^\s*(unsafe\s+)?impl\s*', '', txt)
            if txt.startswith('<'):
                txt = txt[find_matching(txt, 0) + 1:].strip()
            txt = txt.split(' where ')[0].strip()
            trait = None
            parts = re.split(r'\s+for\s+', txt)
            if len(parts) == 2:
                trait, ty = parts
            else:
                ty = parts[0]
            tname = None
            if trait:
                # keep the trait's own generic arguments: they select the impl (`From<u32>` vs `From<EntityId>`)
                cc = canon_callee(f'<X as {trait.strip()}>::m')
                tname = cc[len('<X as '):cc.rindex('>::m')]
            return _last_ident(strip_generics(ty)), tname
        # derive: `#[derive(A, B)]`  – span covers the trait name
        trait = line[c1 - 1:c2 - 1] if l1 == l2 else None
        k = l1
        while k < len(lines):
            mm = re.match(r'\s*(?:pub(?:\([^)]*\))?\s+)?(?:struct|enum|union)\s+(\w+)', lines[k])
            if mm:
                return mm.group(1), (_last_ident(trait) if trait else None)
            k += 1
        return None, None

    def canon(self, name):
        """canonical name for a dump fn name (impl spans resolved to types)."""
        m = IMPL_AT.search(name)
        if not m:
            return name
        ty, trait = self.impl_owner(m)
        tail = name[m.end():]          # ::method::{closure#0}
        if ty is None:
            return name
        if trait:
            return f'<{ty} as {trait}>{tail}'
        return f'{ty}{tail}'

    def _index(self):
        for f in self.fns:
            c = self.canon(f.name)
            f.canon = c
            if f.kind == 'promoted':
                self.promoted.setdefault(c, f)
                continue
            if f.kind == 'const':
                self.consts.setdefault(c, f)
                self.consts.setdefault(c.split('::')[-1], f)
                continue
            if c in self.by_canon:
                continue  # second copy = MIR for CTFE
            self.by_canon[c] = f
            last = c.split('::')[-1]
            self.by_last.setdefault(last, []).append(f)
            if '{closure#' in c and f.params:
                t = f.params[0][1].strip()
                t = re.sub(r"^&('\w+ )?(mut )?", '', t)
                if t.startswith('{closure@'):
                    self.closures.setdefault(t, f)

    def _scan_sources(self):
        roots = [d for d in glob.glob(os.path.join(self.repo, '*', 'src')) if os.path.isdir(d)]
        # the program's own crate first: same-named enums/structs of other crates must not shadow it
        roots.sort(key=lambda d: (os.path.basename(os.path.dirname(d)) != self.crate, d))
        for root in roots:
            for p in glob.glob(os.path.join(root, '**', '*.rs'), recursive=True):
                try:
                    txt = open(p, encoding='utf-8', errors='replace').read()
                except OSError:
                    continue
                if 'enum ' in txt:
                    self._scan_enums(txt)
                if 'struct ' in txt:
                    self._scan_structs(txt)

    def _scan_enums(self, txt):
        for m in re.finditer(r'^\s*(?:pub(?:\([^)]*\))?\s+)?enum\s+(\w+)[^{;]*\{', txt, re.M):
            name = m.group(1)
            i = m.end() - 1
            try:
                k = _match_brace(txt, i)
            except ValueError:
                continue
            body = txt[i + 1:k]
            body = re.sub(r'//[^\n]*', '', body)
            body = re.sub(r'/\*.*?\*/', '', body, flags=re.S)
            vs = []
            for part in _split_commas(body):
                part = part.strip()
                while part.startswith('#['):
                    part = part[_match_sq(part, 1) + 1:].strip()
                mm = re.match(r'(\w+)', part)
                if not mm:
                    continue
                vs.append(mm.group(1))
                md = re.search(r'=\s*(-?\d+)\s*$', part)
                if md:
                    self.enum_discr[(name, mm.group(1))] = int(md.group(1))
            self.enums.setdefault(name, [])
            if vs not in self.enums[name]:
                self.enums[name].append(vs)

    def _scan_structs(self, txt):
        for m in re.finditer(r'^\s*(?:pub(?:\([^)]*\))?\s+)?struct\s+(\w+)[^{;(]*\{', txt, re.M):
            name = m.group(1)
            i = m.end() - 1
            try:
                k = _match_brace(txt, i)
            except ValueError:
                continue
            body = txt[i + 1:k]
            body = re.sub(r'//[^\n]*', '', body)
            body = re.sub(r'/\*.*?\*/', '', body, flags=re.S)
            fs = []
            for part in _split_commas(body):
                part = part.strip()
                while part.startswith('#['):
                    part = part[_match_sq(part, 1) + 1:].strip()
                mm = re.match(r'(?:pub(?:\([^)]*\))?\s+)?(\w+)\s*:', part)
                if mm:
                    fs.append(mm.group(1))
            self.structs.setdefault(name, [])
            if fs not in self.structs[name]:
                self.structs[name].append(fs)

    def field(self, struct, name):
        """index of field `name` in struct `struct` (declaration order = MIR field index)"""
        for fs in self.structs.get(struct, []):
            if name in fs:
                return fs.index(name)
        raise KeyError(f'{struct}.{name}')

    # ---- lookups
    def variant_index(self, enum, variant):
        if enum in BUILTIN_ENUMS and variant in BUILTIN_ENUMS[enum]:
            return BUILTIN_ENUMS[enum][variant]
        for vs in self.enums.get(enum, []):
            if variant in vs:
                if (enum, variant) in self.enum_discr:
                    return self.enum_discr[(enum, variant)]
                # explicit discriminants on earlier variants shift later ones; rare – handle simple case
                idx = vs.index(variant)
                base = 0
                off = 0
                for j, v in enumerate(vs[:idx + 1]):
                    if (enum, v) in self.enum_discr:
                        base = self.enum_discr[(enum, v)]
                        off = 0
                    else:
                        off += 1 if j > 0 else 0
                        if j == 0:
                            base = 0
                return idx if not any((enum, v) in self.enum_discr for v in vs) else base + off
        return None

    def variants(self, enum):
        if enum in BUILTIN_ENUMS:
            return list(BUILTIN_ENUMS[enum])
        d = self.enums.get(enum)
        return d[0] if d else None

    def is_variant(self, enum, variant):
        return self.variant_index(enum, variant) is not None

    def resolve(self, callee, argvals_types=None):
        """MIR function for a call-site callee text, or None."""
        c = strip_generics(callee)
        f = self.by_canon.get(c)
        if f:
            return f
        cc = canon_callee(callee)
        f = self.by_canon.get(cc)
        if f:
            return f
        # `<Type as Trait<Args>>::m` printed at call site with module path / generics on Type
        m = re.match(r'^<(.*) as (.*)>::(\w+)$', cc)
        if m:
            ty = _last_ident(m.group(1))
            f = self.by_canon.get(f'<{ty} as {m.group(2)}>::{m.group(3)}')
            if f:
                return f
            return None
        segs = c.split('::')
        if len(segs) >= 2:
            key = f'{_last_ident(segs[-2])}::{segs[-1]}'
            f = self.by_canon.get(key)
            if f:
                return f
        # unique suffix match on free functions
        cands = [g for g in self.by_last.get(segs[-1], []) if g.canon.endswith('::' + c) or g.canon == c]
        if len(cands) == 1:
            return cands[0]
        return None

    def closure_fn(self, closure_ty):
        t = closure_ty.strip()
        t = re.sub(r"^&('\w+ )?(mut )?", '', t)
        return self.closures.get(t)


BUILTIN_ENUMS = {
    'Option': {'None': 0, 'Some': 1},
    'Result': {'Ok': 0, 'Err': 1},
    'Ordering': {'Less': -1, 'Equal': 0, 'Greater': 1},
    'ControlFlow': {'Continue': 0, 'Break': 1},
    'Bound': {'Included': 0, 'Excluded': 1, 'Unbounded': 2},
    'FpCategory': {'Nan': 0, 'Infinite': 1, 'Zero': 2, 'Subnormal': 3, 'Normal': 4},
    'Entry': {'Occupied': 0, 'Vacant': 1},
    'Cow': {'Borrowed': 0, 'Owned': 1},
    'ErrorKind': {'NotFound': 0, 'UnexpectedEof': 1, 'Other': 2, 'InvalidInput': 3, 'InvalidData': 4, 'PermissionDenied': 5},
}


def _last_ident(s):
    if s is None:
        return None
    s = s.strip()
    s = re.sub(r"^&('\w+ )?(mut )?", '', s)
    try:
        s2 = strip_generics(s)
    except ValueError:
        s2 = s
    ids = re.findall(r'[A-Za-z_][A-Za-z_0-9]*', s2)
    return ids[-1] if ids else s


def _match_brace(s, i):
    depth = 0
    j = i
    n = len(s)
    while j < n:
        c = s[j]
        if c == '"':
            j += 1
            while j < n and s[j] != '"':
                if s[j] == '\\':
                    j += 1
                j += 1
        elif c == '/' and s.startswith('//', j):
            j = s.find('\n', j)
            if j == -1:
                break
        elif c == '{':
            depth += 1
        elif c == '}':
            depth -= 1
            if depth == 0:
                return j
        j += 1
    raise ValueError('unbalanced')


def _match_sq(s, i):
    depth = 0
    for j in range(i, len(s)):
        if s[j] == '[':
            depth += 1
        elif s[j] == ']':
            depth -= 1
            if depth == 0:
                return j
    return len(s) - 1


def _split_commas(s):
    out = []
    depth = 0
    start = 0
    for i, c in enumerate(s):
        if c in '([{<':
            depth += 1
        elif c in ')]}>':
            depth -= 1
        elif c == ',' and depth == 0:
            out.append(s[start:i])
            start = i + 1
    out.append(s[start:])
    return out


_cache = {}


def load(crate, fresh=True, **kw):
    """Program for `crate`, dumping MIR from the current tree (fresh) or reusing the last dump."""
    key = (crate, tuple(sorted(kw.items())))
    if key in _cache:
        return _cache[key]
    path = os.path.join(BUILD, 'dumps', crate + '.mir')
    dump_s = 0.0
    if fresh or not os.path.exists(path):
        text, dump_s = dump_crate(crate, **kw)
    else:
        text = open(path).read()
    p = Program(crate, text)
    p.dump_s = dump_s
    _cache[key] = p
    return p
