"""Rust type strings as printed in MIR -> small structured form."""
import re
import functools
from .mir import find_matching, split_top

INT = {'u8': (8, False), 'u16': (16, False), 'u32': (32, False), 'u64': (64, False),
       'u128': (128, False), 'usize': (64, False), 'i8': (8, True), 'i16': (16, True),
       'i32': (32, True), 'i64': (64, True), 'i128': (128, True), 'isize': (64, True)}


class Ty:
    __slots__ = ('kind', 'name', 'args', 'mut', 'n', 'raw')

    def __init__(self, kind, name=None, args=(), mut=False, n=None, raw=''):
        self.kind = kind
        self.name = name
        self.args = list(args)
        self.mut = mut
        self.n = n
        self.raw = raw

    def __repr__(self):
        return f'Ty({self.raw})'


def split_path(s):
    """split on top-level `::`"""
    out = []
    i = 0
    start = 0
    n = len(s)
    while i < n:
        c = s[i]
        if c in '<([{':
            i = find_matching(s, i) + 1
            continue
        if s.startswith('::', i):
            out.append(s[start:i])
            i += 2
            start = i
            continue
        i += 1
    out.append(s[start:])
    return out


@functools.lru_cache(maxsize=None)
def parse_type(s):
    raw = s
    s = s.strip()
    if s.startswith('for<'):
        k = find_matching(s, 3)
        s = s[k + 1:].strip()
    if s.startswith('&'):
        r = s[1:].lstrip()
        m = re.match(r"'[A-Za-z_0-9]+\s*", r)
        if m:
            r = r[m.end():]
        mut = r.startswith('mut ')
        if mut:
            r = r[4:]
        return Ty('ref', args=[parse_type(r)], mut=mut, raw=raw)
    if s.startswith('*const ') or s.startswith('*mut '):
        return Ty('rawptr', args=[parse_type(s.split(' ', 1)[1])], mut=s.startswith('*mut'), raw=raw)
    if s.startswith('['):
        k = find_matching(s, 0)
        inner = s[1:k]
        parts = split_top(inner, ';')
        if len(parts) == 2:
            return Ty('array', args=[parse_type(parts[0])], n=parts[1].strip(), raw=raw)
        return Ty('slice', args=[parse_type(inner)], raw=raw)
    if s.startswith('('):
        k = find_matching(s, 0)
        inner = s[1:k]
        if not inner.strip():
            return Ty('unit', raw=raw)
        return Ty('tuple', args=[parse_type(x) for x in split_top(inner)], raw=raw)
    if s.startswith('{closure@') or s.startswith('{coroutine') or s.startswith('{async'):
        return Ty('closure', name=s, raw=raw)
    if s.startswith('dyn ') or s.startswith('impl ') or s.startswith('(dyn'):
        return Ty('dyn', name=s, raw=raw)
    if s.startswith(('fn(', 'unsafe fn', 'extern ', 'unsafe extern')):
        return Ty('fnptr', name=s, raw=raw)
    if s in INT:
        w, sg = INT[s]
        return Ty('int', name=s, n=w, mut=sg, raw=raw)
    if s == 'bool':
        return Ty('bool', raw=raw)
    if s == 'char':
        return Ty('char', raw=raw)
    if s == 'str':
        return Ty('str', raw=raw)
    if s == '!':
        return Ty('never', raw=raw)
    if s in ('f32', 'f64'):
        return Ty('float', name=s, n=int(s[1:]), raw=raw)
    if s.startswith('<'):
        return Ty('adt', name=s, raw=raw)  # projection – opaque
    segs = split_path(s)
    last = segs[-1]
    m = re.match(r'([A-Za-z_][A-Za-z_0-9]*)', last)
    if not m:
        return Ty('adt', name=s, raw=raw)
    name = m.group(1)
    args = []
    rest = last[m.end():]
    if rest.startswith('<'):
        k = find_matching(rest, 0)
        for a in split_top(rest[1:k]):
            if a.startswith("'"):
                continue
            if re.match(r'^[A-Za-z_]\w* = ', a):  # assoc binding
                continue
            try:
                args.append(parse_type(a))
            except Exception:
                args.append(Ty('adt', name=a, raw=a))
    return Ty('adt', name=name, args=args, raw=raw)


def strip_generics(path):
    """remove every `::<...>` turbofish and `<...>` generic list (keeps `<T as Trait>` heads)."""
    out = []
    i = 0
    n = len(path)
    while i < n:
        c = path[i]
        if path.startswith('::<', i):
            k = find_matching(path, i + 2)
            i = k + 1
            continue
        if c == '<' and i > 0 and (path[i - 1].isalnum() or path[i - 1] == '_'):
            k = find_matching(path, i)
            i = k + 1
            continue
        out.append(c)
        i += 1
    return ''.join(out)


def turbofish_args(path):
    """all generic args in the callee text, outermost groups, in order (strings)."""
    res = []
    i = 0
    n = len(path)
    while i < n:
        if path.startswith('::<', i):
            k = find_matching(path, i + 2)
            res.append([a for a in split_top(path[i + 3:k]) if not a.startswith("'")])
            i = k + 1
            continue
        i += 1
    return res


_MODPATH = re.compile(r'\b(?:[a-z_][a-z_0-9]*::)+(?=[A-Z])')


def canon_callee(callee):
    return _MODPATH.sub('', _canon_callee(callee))


def _canon_callee(callee):
    """callee text with generic arguments removed, except the trait's own arguments in
    `<Self as Trait<Args>>::method` heads (those select the impl)."""
    c = callee.strip()
    if c.startswith('<'):
        try:
            k = find_matching(c, 0)
        except ValueError:
            return strip_generics(c)
        head = c[1:k]
        rest = c[k + 1:]
        # split head on top-level ' as '
        depth = 0
        pos = -1
        i = 0
        while i < len(head):
            ch = head[i]
            if ch in '<([{':
                i = find_matching(head, i) + 1
                continue
            if head.startswith(' as ', i):
                pos = i
            i += 1
        if pos == -1:
            return '<' + strip_generics(head) + '>' + strip_generics(rest)
        selfty, trait = head[:pos], head[pos + 4:]
        m = re.match(r'^([A-Za-z_0-9:]+)<(.*)>$', trait, re.S)
        if m:
            args = [strip_generics(a) for a in split_top(m.group(2)) if not a.startswith("'")]
            trait = m.group(1) + ('<' + ', '.join(args) + '>' if args else '')
        return '<' + strip_generics(selfty) + ' as ' + trait + '>' + strip_generics(rest)
    return strip_generics(c)
