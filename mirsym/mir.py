"""Parser for rustc's `-Zunpretty=mir` text dump.

Produces Function objects (params, local types, basic blocks of parsed
statements and terminators).  Nothing here knows about z3; see exec.py.
Anything the parser cannot understand becomes an ('unknown', text) node that
the executor reports as *unsupported* if a path ever reaches it.
"""
import re
from dataclasses import dataclass, field

OPEN = {'(': ')', '[': ']', '{': '}', '<': '>'}
CLOSE = {v: k for k, v in OPEN.items()}

BINOPS = {'Add', 'Sub', 'Mul', 'Div', 'Rem', 'BitAnd', 'BitOr', 'BitXor', 'Shl', 'Shr',
          'Eq', 'Ne', 'Lt', 'Le', 'Gt', 'Ge', 'AddWithOverflow', 'SubWithOverflow',
          'MulWithOverflow', 'Offset', 'Cmp', 'AddUnchecked', 'SubUnchecked', 'MulUnchecked',
          'ShlUnchecked', 'ShrUnchecked'}
UNOPS = {'Not', 'Neg', 'PtrMetadata'}


def skip_string(s, i):
    """s[i] == '"'; return index just after the closing quote."""
    i += 1
    while i < len(s):
        c = s[i]
        if c == '\\':
            i += 2
            continue
        if c == '"':
            return i + 1
        i += 1
    return i


def skip_char_lit(s, i):
    """s[i] == "'"; if this is a char literal return index after it, else None (lifetime)."""
    # char literal: 'x' or '\n' or '\u{..}'
    if i + 2 < len(s) and s[i + 1] != '\\' and s[i + 2] == "'":
        return i + 3
    if i + 1 < len(s) and s[i + 1] == '\\':
        j = s.find("'", i + 2)
        if j != -1 and j - i <= 12:
            return j + 1
    return None


def find_matching(s, i):
    """s[i] is an opening bracket; return the index of the matching close.
    Angle brackets are only balanced when `angles` (types); `->`, `=>`, `>=`, `<=`
    and shifts do not occur in the texts we scan except `->`, which is skipped."""
    stack = [s[i]]
    j = i + 1
    n = len(s)
    while j < n:
        c = s[j]
        if c == '"':
            j = skip_string(s, j)
            continue
        if c == "'":
            k = skip_char_lit(s, j)
            if k:
                j = k
                continue
        if c == '-' and j + 1 < n and s[j + 1] == '>':
            j += 2
            continue
        if c == '=' and j + 1 < n and s[j + 1] == '>':
            j += 2
            continue
        if c in OPEN:
            if c == '<' and stack[-1] == '{' and False:
                pass
            stack.append(c)
        elif c in CLOSE:
            # tolerate stray '>' when top of stack is not '<'
            if c == '>' and stack[-1] != '<':
                j += 1
                continue
            while stack and stack[-1] == '<' and c != '>':
                stack.pop()  # unbalanced '<' (comparison) – drop
            if not stack:
                return j
            stack.pop()
            if not stack:
                return j
        j += 1
    raise ValueError('unbalanced: ' + s[i:i + 80])


def split_top(s, sep=','):
    """Split on `sep` at bracket depth 0 (strings respected)."""
    out = []
    depth = 0
    start = 0
    i = 0
    n = len(s)
    while i < n:
        c = s[i]
        if c == '"':
            i = skip_string(s, i)
            continue
        if c == "'":
            k = skip_char_lit(s, i)
            if k:
                i = k
                continue
        if c == '-' and i + 1 < n and s[i + 1] == '>':
            i += 2
            continue
        if c in '([{':
            depth += 1
        elif c in ')]}':
            depth -= 1
        elif c == '<':
            # angle bracket only counts when it looks like a generic list
            if _angle_opens(s, i):
                depth += 1
        elif c == '>':
            if _angle_closes(s, i):
                depth -= 1
        elif c == sep and depth == 0:
            out.append(s[start:i].strip())
            start = i + 1
        i += 1
    tail = s[start:].strip()
    if tail:
        out.append(tail)
    return out


def _angle_opens(s, i):
    # '<' followed by space usually is a comparison in messages – never in our operands.
    return True


def _angle_closes(s, i):
    return True


# ---------------------------------------------------------------- places / operands

@dataclass
class Place:
    local: int
    proj: list  # list of tuples

    def __repr__(self):
        return f'P(_{self.local}{"".join(str(p) for p in self.proj)})'


def parse_place(s, i=0):
    """Parse a place starting at s[i]; return (Place, next_index)."""
    if s[i] == '(':
        if s[i + 1] == '*':
            inner, j = parse_place(s, i + 2)
            assert s[j] == ')', s[i:]
            pl = Place(inner.local, inner.proj + [('deref',)])
            j += 1
        else:
            inner, j = parse_place(s, i + 1)
            if s.startswith(' as ', j):
                k = s.index(')', j)
                pl = Place(inner.local, inner.proj + [('downcast', s[j + 4:k])])
                j = k + 1
            elif s[j] == '.':
                m = re.match(r'\.(\d+): ', s[j:])
                assert m, s[i:]
                k = j + m.end()
                # type runs to the matching ')' of the '(' at i
                end = find_matching(s, i)
                ty = s[k:end]
                pl = Place(inner.local, inner.proj + [('field', int(m.group(1)), ty)])
                j = end + 1
            else:
                raise ValueError('place: ' + s[i:i + 60])
    else:
        m = re.match(r'_(\d+)', s[i:])
        if not m:
            raise ValueError('place: ' + s[i:i + 60])
        pl = Place(int(m.group(1)), [])
        j = i + m.end()
    # index / subslice suffixes
    while j < len(s) and s[j] == '[':
        k = find_matching(s, j)
        inner = s[j + 1:k]
        m = re.fullmatch(r'_(\d+)', inner)
        if m:
            pl = Place(pl.local, pl.proj + [('index', int(m.group(1)))])
        elif ' of ' in inner:
            a, b = inner.split(' of ')
            pl = Place(pl.local, pl.proj + [('constindex', int(a), int(b))])
        elif ':' in inner:
            a, b = inner.split(':')
            pl = Place(pl.local, pl.proj + [('subslice', int(a or 0), int(b) if b else 0)])
        else:
            raise ValueError('index: ' + inner)
        j = k + 1
    return pl, j


def parse_operand(s):
    s = s.strip()
    if s.startswith('no_retag '):
        s = s[9:]
    if s.startswith('copy '):
        pl, j = parse_place(s, 5)
        if j != len(s):
            raise ValueError('operand tail: ' + s)
        return ('copy', pl)
    if s.startswith('move '):
        pl, j = parse_place(s, 5)
        if j != len(s):
            raise ValueError('operand tail: ' + s)
        return ('move', pl)
    if s.startswith('const '):
        return ('const', s[6:].strip())
    if re.match(r'^[A-Za-z_<]', s) and ' = ' not in s:
        return ('fnitem', s)
    raise ValueError('operand: ' + s)


def parse_rvalue(s):
    s = s.strip()
    if s.startswith('no_retag '):
        s = s[9:]
    try:
        return _parse_rvalue(s)
    except (ValueError, AssertionError, IndexError) as e:
        return ('unknown', s, str(e))


def _parse_rvalue(s):
    if s.startswith(('copy ', 'move ', 'const ')):
        # maybe a cast:  `<operand> as <ty> (<kind>)`
        m = re.search(r' as (.*) \(([A-Za-z]+(?:\(.*\))?)\)$', s)
        if m and not s.startswith('const "'):
            # make sure the part before is a full operand
            head = s[:m.start()]
            try:
                op = parse_operand(head)
                return ('cast', op, m.group(1), m.group(2))
            except ValueError:
                pass
        return ('use', parse_operand(s))
    if s.startswith('&'):
        rest = s[1:]
        kind = 'shared'
        for pre, k in (('raw const (fake) ', 'rawconst'), ('raw const ', 'rawconst'), ('raw mut ', 'rawmut'), ('mut ', 'mut'),
                       ('fake shallow ', 'fake'), ('fake ', 'fake')):
            if rest.startswith(pre):
                rest = rest[len(pre):]
                kind = k
                break
        pl, j = parse_place(rest, 0)
        if j != len(rest):
            raise ValueError('ref tail')
        return ('ref', kind, pl)
    m = re.match(r'([A-Za-z]+)\(', s)
    if m and s.endswith(')'):
        name = m.group(1)
        inner = s[m.end():-1]
        if name in BINOPS:
            a, b = split_top(inner)
            return ('binop', name, parse_operand(a), parse_operand(b))
        if name in UNOPS:
            return ('unop', name, parse_operand(inner))
        if name == 'discriminant':
            pl, j = parse_place(inner, 0)
            return ('discriminant', pl)
        if name == 'Len':
            pl, j = parse_place(inner, 0)
            return ('len', pl)
        if name == 'CopyForDeref':
            pl, j = parse_place(inner, 0)
            return ('use', ('copy', pl))
        if name == 'ShallowInitBox':
            a, b = split_top(inner)
            return ('shallowbox', parse_operand(a), b)
    if s.startswith('['):
        k = find_matching(s, 0)
        if k == len(s) - 1:
            inner = s[1:k]
            parts = split_top(inner, ';')
            if len(parts) == 2:
                return ('repeat', parse_operand(parts[0]), parts[1].strip())
            return ('aggregate', 'array', None, [parse_operand(x) for x in split_top(inner)])
    if s.startswith('('):
        k = find_matching(s, 0)
        if k == len(s) - 1:
            inner = s[1:k]
            return ('aggregate', 'tuple', None, [parse_operand(x) for x in split_top(inner)])
    # ADT / closure aggregates
    # closure: `{closure@...}` optionally followed by ` { a: op, b: op }`? rustc prints
    #   {closure@path:l:c: l:c}            (no captures)   – actually `{closure@..}` alone
    if s.startswith('{closure@') or s.startswith('{coroutine@') or s.startswith('{async'):
        k = find_matching(s, 0)
        ty = s[:k + 1]
        rest = s[k + 1:].strip()
        ops = []
        if rest:
            if rest.startswith('{'):
                inner = rest[1:find_matching(rest, 0)]
                for f in split_top(inner):
                    nm, _, op = f.partition(': ')
                    ops.append((nm.strip(), parse_operand(op)))
            else:
                raise ValueError('closure tail')
        return ('aggregate', 'closure', ty, ops)
    # Path { f: op, .. }  |  Path(op, ..)  |  Path
    # find first top-level ' {' or '(' that is not inside <>
    depth = 0
    i = 0
    n = len(s)
    while i < n:
        c = s[i]
        if c == '-' and i + 1 < n and s[i + 1] == '>':
            i += 2
            continue
        if c == '<' or c == '[':
            i = find_matching(s, i) + 1
            continue
        if c == '{' and s[i:i + 9] == '{closure@':
            i = find_matching(s, i) + 1
            continue
        if c == '(' or (c == '{' and i > 0 and s[i - 1] == ' '):
            break
        i += 1
    path = s[:i].strip()
    if not re.match(r'^[A-Za-z_<\[{(&]', path or 'x'):
        raise ValueError('rvalue: ' + s)
    if i >= n:
        return ('aggregate', 'adt', path, [])
    k = find_matching(s, i)
    if k != n - 1:
        raise ValueError('aggregate tail: ' + s)
    inner = s[i + 1:k]
    if s[i] == '(':
        return ('aggregate', 'adt', path, [parse_operand(x) for x in split_top(inner)])
    ops = []
    for f in split_top(inner):
        nm, _, op = f.partition(': ')
        ops.append((nm.strip(), parse_operand(op)))
    return ('aggregate', 'adtnamed', path, ops)


# ---------------------------------------------------------------- terminators

def parse_targets(s):
    """`[return: bb1, unwind continue]` / `[0: bb3, otherwise: bb2]` -> dict"""
    out = {}
    s = s.strip()
    if s.startswith('['):
        s = s[1:-1]
    for part in split_top(s):
        if ': ' in part:
            k, v = part.split(': ', 1)
            out[k.strip()] = v.strip()
        else:
            out[part.split()[0]] = part
    return out


def parse_call_head(s):
    """`callee(args)` where callee may contain parentheses inside generics:
    the argument list is the *last* top-level (...) group."""
    assert s.endswith(')'), s
    # scan from the left, skipping balanced <...> and {...}; the first '(' at depth 0 that
    # is matched by the final ')' is the argument list.
    i = 0
    n = len(s)
    cand = None
    while i < n:
        c = s[i]
        if c == '-' and i + 1 < n and s[i + 1] == '>':
            i += 2
            continue
        if c in '<{[':
            i = find_matching(s, i) + 1
            continue
        if c == '(':
            k = find_matching(s, i)
            if k == n - 1:
                cand = i
                break
            i = k + 1
            continue
        i += 1
    if cand is None:
        raise ValueError('call: ' + s)
    callee = s[:cand].strip()
    args = [parse_operand(a) for a in split_top(s[cand + 1:-1])]
    return callee, args


def parse_terminator(s):
    s = s.strip()
    try:
        return _parse_terminator(s)
    except (ValueError, AssertionError, IndexError) as e:
        return ('unknown', s, str(e))


def _parse_terminator(s):
    if s.endswith(';'):
        s = s[:-1]
    if s in ('return', 'unreachable', 'resume', 'terminate(cleanup)', 'terminate(abi)'):
        return (s.split('(')[0],)
    m = re.match(r'goto -> (bb\d+)$', s)
    if m:
        return ('goto', m.group(1))
    if s.startswith('switchInt('):
        k = find_matching(s, 9)
        op = parse_operand(s[10:k])
        tg = parse_targets(s[k + 1:].strip()[2:].strip())
        return ('switch', op, tg)
    if s.startswith('drop('):
        k = find_matching(s, 4)
        pl, _ = parse_place(s[5:k], 0)
        tg = parse_targets(s[k + 1:].strip()[2:].strip())
        return ('drop', pl, tg.get('return'))
    if s.startswith('assert('):
        k = find_matching(s, 6)
        parts = split_top(s[7:k])
        cond = parts[0]
        neg = cond.startswith('!')
        op = parse_operand(cond[1:] if neg else cond)
        tg = parse_targets(s[k + 1:].strip()[2:].strip())
        return ('assert', op, not neg, parts[1] if len(parts) > 1 else '', tg.get('success'))
    if s.startswith('falseEdge') or s.startswith('falseUnwind'):
        m = re.search(r'(bb\d+)', s)
        return ('goto', m.group(1))
    # call:  [PLACE = ] callee(args) -> [return: bbN, unwind ...]   |  -> unwind continue
    arrow = s.rfind(' -> ')
    if arrow == -1:
        raise ValueError('terminator: ' + s)
    head, tail = s[:arrow], s[arrow + 4:]
    ret = None
    if tail.startswith('['):
        ret = parse_targets(tail).get('return')
    dest = None
    m = re.match(r'(\(?\(*\*?_\d+.*?) = ', head)
    if m and not head.startswith('<'):
        # destination place, then ' = '
        pl, j = parse_place(head, 0)
        if head.startswith(' = ', j):
            dest = pl
            head = head[j + 3:]
    callee, args = parse_call_head(head)
    return ('call', dest, callee, args, ret)


def parse_statement(s):
    s = s.strip()
    if s.endswith(';'):
        s = s[:-1]
    if s.startswith(('StorageLive', 'StorageDead', 'nop', 'FakeRead', 'PlaceMention', 'Retag',
                     'Coverage', 'ConstEvalCounter', 'AscribeUserType', 'BackwardIncompatibleDropHint')):
        return ('nop',)
    if s.startswith('Deinit('):
        return ('nop',)
    if s.startswith('assume('):
        return ('nop',)
    if s.startswith('discriminant('):
        k = find_matching(s, 12)
        pl, _ = parse_place(s[13:k], 0)
        return ('setdisc', pl, int(s[k + 1:].strip()[1:].strip()))
    try:
        pl, j = parse_place(s, 0)
        if not s.startswith(' = ', j):
            raise ValueError('stmt: ' + s)
        return ('assign', pl, parse_rvalue(s[j + 3:]))
    except (ValueError, AssertionError, IndexError) as e:
        return ('unknown', s, str(e))


# ---------------------------------------------------------------- functions

@dataclass
class Block:
    stmts: list
    term: tuple
    cleanup: bool = False


@dataclass
class Function:
    name: str            # as printed in the dump
    params: list         # [(local, type)]
    ret: str
    locals: dict         # local -> type
    blocks: dict         # 'bb0' -> Block
    kind: str = 'fn'     # fn | const | promoted | static
    debug: dict = field(default_factory=dict)   # local -> source name
    line: int = 0


HEAD_FN = re.compile(r'^fn (.*)$')
HEAD_CONST = re.compile(r'^(?:const|static(?: mut)?) (.*)$')


def parse_header(line):
    """`fn NAME(_1: T, _2: U) -> R {`  → (name, params, ret)"""
    assert line.endswith('{')
    body = line[3:-1].rstrip()
    # find the parameter list: the '(' at depth 0 followed by `_1:` or `)`;
    i = 0
    n = len(body)
    while i < n:
        c = body[i]
        if c in '<{[':
            i = find_matching(body, i) + 1
            continue
        if c == '(':
            k = find_matching(body, i)
            inner = body[i + 1:k]
            if inner == '' or re.match(r'(mut )?_\d+: ', inner):
                break
            i = k + 1
            continue
        i += 1
    name = body[:i]
    k = find_matching(body, i)
    params = []
    for p in split_top(body[i + 1:k]):
        m = re.match(r'(?:mut )?_(\d+): (.*)$', p, re.S)
        params.append((int(m.group(1)), m.group(2)))
    rest = body[k + 1:].strip()
    ret = rest[3:].strip() if rest.startswith('->') else '()'
    return name, params, ret


def parse_dump(text):
    """Return list of Function objects."""
    fns = []
    lines = text.split('\n')
    i = 0
    n = len(lines)
    while i < n:
        ln = lines[i]
        if ln.startswith('fn ') and ln.endswith('{'):
            try:
                name, params, ret = parse_header(ln)
            except Exception:
                i += 1
                continue
            f = Function(name, params, ret, {}, {}, 'fn', {}, i + 1)
            i = _parse_body(lines, i + 1, f)
            for p, t in params:
                f.locals[p] = t
            f.locals.setdefault(0, ret)
            fns.append(f)
            continue
        mc = re.match(r'^(?:const|static(?: mut)?) (.*) = const (.*);$', ln)
        if mc:
            full = mc.group(1)
            idx = _last_top_colon(full)
            if idx > 0:
                name, ty = full[:idx], full[idx + 2:]
                f = Function(name, [], ty, {0: ty}, {}, 'const', {}, i + 1)
                f.blocks['bb0'] = Block([('assign', Place(0, []), ('use', ('const', mc.group(2).strip())))], ('return',))
                fns.append(f)
            i += 1
            continue
        if (ln.startswith('const ') or ln.startswith('static ')) and ln.endswith('= {'):
            m = re.match(r'^(?:const|static(?: mut)?) (.*?): (.*) = \{$', ln)
            if m:
                # name may contain ': ' inside `<impl at a:b: c:d>`; split on the last top-level ': '
                full = ln[ln.index(' ') + 1:-4]
                idx = _last_top_colon(full)
                name, ty = full[:idx], full[idx + 2:]
                kind = 'promoted' if 'promoted[' in name else 'const'
                f = Function(name, [], ty, {}, {}, kind, {}, i + 1)
                i = _parse_body(lines, i + 1, f)
                f.locals.setdefault(0, ty)
                fns.append(f)
                continue
        i += 1
    return fns


def _last_top_colon(s):
    depth = 0
    best = -1
    i = 0
    while i < len(s):
        c = s[i]
        if c in '<([{':
            i = find_matching(s, i) + 1
            continue
        if s.startswith(': ', i):
            best = i
            break
        i += 1
    return best


LET = re.compile(r'^\s*let (?:mut )?_(\d+): (.*);$')
DEBUG = re.compile(r'^\s*debug (\S+) => (.*);$')
BB = re.compile(r'^    (bb\d+)( \(cleanup\))?: \{$')


def _parse_body(lines, i, f):
    n = len(lines)
    cur = None
    while i < n:
        ln = lines[i]
        if ln == '}':
            return i + 1
        m = LET.match(ln)
        if m and cur is None:
            f.locals[int(m.group(1))] = m.group(2)
            i += 1
            continue
        m = DEBUG.match(ln)
        if m and cur is None:
            mm = re.fullmatch(r'_(\d+)', m.group(2))
            if mm:
                f.debug[int(mm.group(1))] = m.group(1)
            i += 1
            continue
        m = BB.match(ln)
        if m:
            cur = Block([], None, bool(m.group(2)))
            f.blocks[m.group(1)] = cur
            i += 1
            # collect statements until '    }'
            stmts = []
            while i < n and lines[i] != '    }':
                t = lines[i].strip()
                # statements can span lines only for string constants with newlines – join
                while t and not t.endswith(';') and i + 1 < n and lines[i + 1] != '    }':
                    i += 1
                    t += '\n' + lines[i]
                if t:
                    stmts.append(t)
                i += 1
            if stmts:
                if not cur.cleanup:
                    cur.stmts = [parse_statement(x) for x in stmts[:-1]]
                    cur.term = parse_terminator(stmts[-1])
                else:
                    cur.stmts = []
                    cur.term = ('cleanup',)
            cur = None
            i += 1
            continue
        i += 1
    return i


if __name__ == '__main__':
    import sys, time, collections
    t = time.time()
    fns = parse_dump(open(sys.argv[1]).read())
    unk = collections.Counter()
    ns = nt = 0
    for f in fns:
        for b in f.blocks.values():
            for s in b.stmts:
                ns += 1
                if s[0] == 'unknown':
                    unk['S ' + s[1][:100]] += 1
                elif s[0] == 'assign' and s[2][0] == 'unknown':
                    unk['R ' + s[2][1][:100] + ' :: ' + s[2][2][:40]] += 1
            if b.term and b.term[0] == 'unknown':
                unk['T ' + b.term[1][:100] + ' :: ' + b.term[2][:40]] += 1
            nt += 1
    print(len(fns), 'functions', ns, 'stmts', nt, 'terms', sum(unk.values()), 'unknown', f'{time.time()-t:.1f}s')
    for k, v in unk.most_common(40):
        print(v, k)
