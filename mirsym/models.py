"""Closed list of theory-level models for library calls (DESIGN.md §1).

Every model is registered under the callee text with generic arguments stripped
(`strip_generics`).  A model receives a CallCtx and returns the call's value, or
PUSHED when it pushed a frame itself.  Models must make all their `choose`/`branch`/
`concretize` calls *before* mutating any object (the step is re-executed after a fork)."""
import re
import z3
from .values import *
from .rtypes import parse_type

REGISTRY = {}
PATTERNS = []
CONTS = {}


def model(*names, prefer_mir=False):
    def deco(fn):
        fn.model_name = names[0] if names else fn.__name__
        fn.prefer_mir = prefer_mir
        for n in names:
            REGISTRY[n] = fn
        return fn
    return deco


def pattern(rx, name=None):
    def deco(fn):
        fn.model_name = name or rx
        fn.prefer_mir = False
        PATTERNS.append((re.compile(rx), fn))
        return fn
    return deco


def cont(name):
    def deco(fn):
        CONTS[name] = fn
        return fn
    return deco


# ------------------------------------------------------------------ helpers

def some(v, ty='Option'):
    return Enum(ty, 1, {('Some', 0): v}, variant='Some')


def none(ty='Option'):
    return Enum(ty, 0, {}, variant='None')


def ok(v, ty='Result'):
    return Enum(ty, 0, {('Ok', 0): v}, variant='Ok')


def err(v, ty='Result'):
    return Enum(ty, 1, {('Err', 0): v}, variant='Err')


def usize(n):
    return Int(z3.BitVecVal(n, 64), False)


def deref(st, v):
    """follow references until a non-pointer value"""
    while isinstance(v, Ptr):
        v = v.load(st)
    return v


def as_seq(st, v):
    from .exec import SeqView
    v = deref(st, v)
    if isinstance(v, (Seq, SeqView)):
        return v
    raise Unsupported(f'expected sequence, got {type(v).__name__}')


def as_map(st, v):
    v = deref(st, v)
    if isinstance(v, Map):
        return v
    raise Unsupported(f'expected map, got {type(v).__name__}')


def elem_ptrs(st, seq):
    n = seq.length(st)
    from .exec import TypedPtr
    return [TypedPtr(seq, i, seq.elem_ty) for i in range(n)]


def new_cell_ptr(v):
    return Ptr(Cell(val=v), 0)


def disc_of(e):
    return e.disc if not isinstance(e.disc, int) else z3.BitVecVal(e.disc, 64)


def is_variant(st, e, name, label=''):
    """python bool: does enum value `e` hold variant `name` (forks if symbolic)."""
    e = deref(st, e)
    if not isinstance(e, Enum):
        raise Unsupported(f'expected enum, got {type(e).__name__}')
    en = parse_type(e.ty).name if isinstance(e.ty, str) else e.ty
    idx = st.ex.prog.variant_index(en, name)
    if idx is None:
        raise Unsupported(f'variant {name} of {e.ty}')
    if isinstance(e.disc, int):
        return e.disc == idx
    return st.branch(e.disc == z3.BitVecVal(idx, 64), label or f'is {name}')


def payload(st, e, name, idx=0, ty=None):
    e = deref(st, e)
    return e.load((name, idx), ty, st)


def option_inner_ty(e):
    try:
        t = parse_type(e.ty)
        if t.args:
            return t.args[0].raw
    except Exception:
        pass
    return None


# ------------------------------------------------------------------ slices / Vec

@model('core::slice::is_empty', 'Vec::is_empty', 'VecDeque::is_empty')
def m_is_empty(c):
    return z3.BoolVal(as_seq(c.st, c.args[0]).length(c.st) == 0)


@model('core::slice::len', 'Vec::len', 'VecDeque::len')
def m_len(c):
    return usize(as_seq(c.st, c.args[0]).length(c.st))


@model('Vec::new', 'Vec::with_capacity', 'VecDeque::new', 'VecDeque::with_capacity', '<Vec as Default>::default')
def m_vec_new(c):
    g = c.generics()
    ety = g[0][0] if g and g[0] else None
    if ety is None and c.dest_ty:
        t = parse_type(c.dest_ty)
        if t.args:
            ety = t.args[0].raw
    return Seq(ety, [])


@model('Vec::push', 'VecDeque::push_back')
def m_vec_push(c):
    s = as_seq(c.st, c.args[0])
    s.force(c.st).append(c.args[1])
    return UNIT


@model('Vec::pop')
def m_vec_pop(c):
    s = as_seq(c.st, c.args[0])
    e = s.force(c.st)
    if not e:
        return none()
    v = s.load(len(e) - 1, None, c.st)
    e.pop()
    return some(v)


@model('VecDeque::pop_front')
def m_vecdeque_pop_front(c):
    s = as_seq(c.st, c.args[0])
    e = s.force(c.st)
    if not e:
        return none()
    v = s.load(0, None, c.st)
    del e[0]
    return some(v)


@model('VecDeque::pop_back')
def m_vecdeque_pop_back(c):
    return m_vec_pop(c)


@model('VecDeque::push_front')
def m_vecdeque_push_front(c):
    s = as_seq(c.st, c.args[0])
    s.force(c.st).insert(0, c.args[1])
    return UNIT


@model('Vec::truncate')
def m_vec_truncate(c):
    s = as_seq(c.st, c.args[0])
    n = s.length(c.st)
    k = c.st.concretize(z3.If(z3.ULT(c.args[1].v, n), c.args[1].v, z3.BitVecVal(n, 64)), 0, n, 'truncate')
    del s.elems[k:]
    return UNIT


@model('Vec::clear')
def m_vec_clear(c):
    s = as_seq(c.st, c.args[0])
    s.force(c.st)
    s.elems.clear()
    return UNIT


@model('<Vec as Deref>::deref', '<Vec as DerefMut>::deref_mut', 'Vec::as_slice', 'Vec::as_mut_slice',
       '<Vec as AsRef<[T]>>::as_ref', 'core::slice::iter_mut_placeholder')
def m_vec_deref(c):
    return c.args[0]


@pattern(r'^<Vec as AsRef<\[.*\]>>::as_ref$|^<Vec as Borrow<\[.*\]>>::borrow$|^<\[.*\] as AsRef<\[.*\]>>::as_ref$')
def m_vec_asref(c):
    return c.args[0]


@model('<Vec as Clone>::clone', 'core::slice::to_vec', 'std::slice::to_vec', 'slice::to_vec', '<[T] as ToOwned>::to_owned')
def m_vec_clone(c):
    s = as_seq(c.st, c.args[0])
    items = s.items(c.st)
    for it in items:
        if isinstance(it, (Struct, Enum, Seq, Map)) and not _is_plain(it):
            raise Unsupported('Vec::clone of non-plain elements')
    from .exec import copy_val
    return Seq(s.elem_ty, [copy_val(x) for x in items])


def _is_plain(v):
    """value without interior references/containers: deep copy by copy_val is a faithful Clone"""
    if isinstance(v, (Int, Flt, Str, UnitT)) or z3.is_bool(v):
        return True
    if isinstance(v, Struct):
        return v.lazy is None and all(_is_plain(x) for x in v.fields.values())
    if isinstance(v, Enum):
        return v.lazy is None and all(_is_plain(x) for x in v.fields.values())
    if isinstance(v, Seq):
        return v.elems is not None and all(x is not None and _is_plain(x) for x in v.elems)
    return False


@pattern(r'^<\[.*\] as Index<(std::ops::|core::ops::)?RangeFull>>::index$|^<Vec as Index<(std::ops::|core::ops::)?RangeFull>>::index$')
def m_index_full(c):
    """&v[..]: the whole sequence as a slice"""
    from .exec import SeqView
    s = as_seq(c.st, c.args[0])
    return new_cell_ptr(SeqView(s, 0, s.length(c.st)))


@pattern(r'^<\[.*\] as Index<(std::ops::|core::ops::)?RangeFrom>>::index$|^<Vec as Index<(std::ops::|core::ops::)?RangeFrom>>::index$')
def m_index_rangefrom(c):
    from .exec import SeqView
    s = as_seq(c.st, c.args[0])
    n = s.length(c.st)
    start = c.args[1].load(0, 'usize', c.st)
    ok_ = c.st.branch(z3.ULE(start.v, n), 'range start')
    if not ok_:
        from .exec import Panic
        raise Panic('range start index out of range')
    a = c.st.concretize(start.v, 0, n, 'range start')
    return new_cell_ptr(SeqView(s, a, n))


@pattern(r'^<\[.*\] as Index<(std::ops::|core::ops::)?RangeTo>>::index$|^<Vec as Index<(std::ops::|core::ops::)?RangeTo>>::index$')
def m_index_rangeto(c):
    from .exec import SeqView, Panic
    s = as_seq(c.st, c.args[0])
    n = s.length(c.st)
    end = c.args[1].load(0, 'usize', c.st)
    if not c.st.branch(z3.ULE(end.v, n), 'range end'):
        raise Panic('range end index out of range')
    b = c.st.concretize(end.v, 0, n, 'range end')
    return new_cell_ptr(SeqView(s, 0, b))


@pattern(r'^<\[.*\] as Index<(std::ops::|core::ops::)?Range>>::index$|^<Vec as Index<(std::ops::|core::ops::)?Range>>::index$')
def m_index_range(c):
    from .exec import SeqView, Panic
    s = as_seq(c.st, c.args[0])
    n = s.length(c.st)
    a = c.args[1].load(0, 'usize', c.st)
    b = c.args[1].load(1, 'usize', c.st)
    if not c.st.branch(z3.And(z3.ULE(a.v, b.v), z3.ULE(b.v, n)), 'range'):
        raise Panic('slice index out of range')
    bi = c.st.concretize(b.v, 0, n, 'range end')
    ai = c.st.concretize(a.v, 0, bi, 'range start')
    return new_cell_ptr(SeqView(s, ai, bi))


@pattern(r'^<Vec as Index<usize>>::index$|^<Vec as IndexMut<usize>>::index_mut$|^<\[.*\] as Index<usize>>::index$')
def m_index_usize(c):
    from .exec import Panic, TypedPtr
    s = as_seq(c.st, c.args[0])
    n = s.length(c.st)
    i = c.args[1]
    if not c.st.branch(z3.ULT(i.v, n), 'index'):
        raise Panic('index out of bounds')
    k = c.st.concretize(i.v, 0, n - 1, 'index')
    return TypedPtr(s, k, s.elem_ty)


@model('core::slice::get', 'Vec::get', 'core::slice::get_mut')
def m_slice_get(c):
    from .exec import TypedPtr
    s = as_seq(c.st, c.args[0])
    n = s.length(c.st)
    i = c.args[1]
    if not isinstance(i, Int):
        raise Unsupported('slice::get with range')
    if n == 0 or not c.st.branch(z3.ULT(i.v, n), 'get in range'):
        return none()
    k = c.st.concretize(i.v, 0, n - 1, 'get')
    return some(TypedPtr(s, k, s.elem_ty))


@model('core::slice::last', 'Vec::last', 'core::slice::last_mut')
def m_slice_last(c):
    from .exec import TypedPtr
    s = as_seq(c.st, c.args[0])
    n = s.length(c.st)
    if n == 0:
        return none()
    return some(TypedPtr(s, n - 1, s.elem_ty))


@model('core::slice::first', 'Vec::first')
def m_slice_first(c):
    from .exec import TypedPtr
    s = as_seq(c.st, c.args[0])
    n = s.length(c.st)
    if n == 0:
        return none()
    return some(TypedPtr(s, 0, s.elem_ty))


@model('core::slice::windows')
def m_windows(c):
    from .exec import SeqView
    s = as_seq(c.st, c.args[0])
    n = s.length(c.st)
    k = c.args[1].v.as_long()
    return IterObj([new_cell_ptr(SeqView(s, i, i + k)) for i in range(0, max(0, n - k + 1))], 0, 'windows')


@model('core::slice::split_at', 'core::slice::split_at_mut', 'core::str::split_at')
def m_split_at(c):
    from .exec import SeqView, Panic
    s = as_seq(c.st, c.args[0])
    n = s.length(c.st)
    kv = z3.simplify(c.args[1].v)
    if not z3.is_bv_value(kv):
        raise Unsupported('split_at with a symbolic index')
    k = kv.as_long()
    if k > n:
        raise Panic('split_at: mid > len')
    return Struct('(&[T], &[T])', {0: new_cell_ptr(SeqView(s, 0, k)), 1: new_cell_ptr(SeqView(s, k, n))})


@model('core::slice::chunks', 'core::slice::chunks_exact')
def m_chunks(c):
    from .exec import SeqView
    s = as_seq(c.st, c.args[0])
    n = s.length(c.st)
    kv = z3.simplify(c.args[1].v)
    if not z3.is_bv_value(kv):
        raise Unsupported('chunks with a symbolic size')
    k = kv.as_long()
    if k == 0:
        from .exec import Panic
        raise Panic('chunk size must be non-zero')
    exact = c.canon.endswith('chunks_exact')
    out = []
    for i in range(0, n, k):
        hi = min(n, i + k)
        if exact and hi - i < k:
            break
        out.append(new_cell_ptr(SeqView(s, i, hi)))
    return IterObj(out, 0, 'windows')


@pattern(r'^<\[\w+; \d+\] as TryFrom<&(mut )?\[\w+\]>>::try_from$|^<&\[\w+; \d+\] as TryFrom<&\[\w+\]>>::try_from$')
def m_array_try_from(c):
    """&[T] -> [T; N] / &[T; N]: Ok exactly when the slice has N elements"""
    m = re.search(r'; (\d+)\]', c.canon)
    n = int(m.group(1))
    s = as_seq(c.st, c.args[0])
    if s.length(c.st) != n:
        return err(Opaque('TryFromSliceError'))
    items = list(s.items(c.st))
    arr = Seq(s.elem_ty, items)
    if c.canon.startswith('<&'):
        return ok(new_cell_ptr(arr))
    return ok(arr)


# ------------------------------------------------------------------ integers

def _int_method(name):
    return re.compile(r'^core::num::' + name + '$')


@pattern(r'^core::num::saturating_sub$')
def m_sat_sub(c):
    a, b = c.args
    if a.signed:
        raise Unsupported('signed saturating_sub')
    return Int(z3.simplify(z3.If(z3.ULT(a.v, b.v), z3.BitVecVal(0, a.width), a.v - b.v)), False)


@pattern(r'^core::num::saturating_add$')
def m_sat_add(c):
    a, b = c.args
    if a.signed:
        raise Unsupported('signed saturating_add')
    s = a.v + b.v
    return Int(z3.simplify(z3.If(z3.ULT(s, a.v), z3.BitVecVal(-1, a.width), s)), False)


@pattern(r'^core::num::saturating_mul$')
def m_sat_mul(c):
    a, b = c.args
    if a.signed:
        raise Unsupported('signed saturating_mul')
    return Int(z3.If(z3.BVMulNoOverflow(a.v, b.v, False), a.v * b.v, z3.BitVecVal(-1, a.width)), False)


@pattern(r'^core::num::wrapping_(add|sub|mul)$')
def m_wrapping(c):
    a, b = c.args
    op = c.canon.rsplit('_', 1)[1]
    r = {'add': a.v + b.v, 'sub': a.v - b.v, 'mul': a.v * b.v}[op]
    return Int(z3.simplify(r), a.signed)


@pattern(r'^core::num::checked_(add|sub|mul)$')
def m_checked(c):
    a, b = c.args
    op = c.canon.rsplit('_', 1)[1]
    sg = a.signed
    if op == 'add':
        r = a.v + b.v
        okc = z3.And(z3.BVAddNoOverflow(a.v, b.v, sg), z3.BVAddNoUnderflow(a.v, b.v) if sg else True)
    elif op == 'sub':
        r = a.v - b.v
        okc = z3.And(z3.BVSubNoUnderflow(a.v, b.v, sg), z3.BVSubNoOverflow(a.v, b.v) if sg else True)
    else:
        r = a.v * b.v
        okc = z3.And(z3.BVMulNoOverflow(a.v, b.v, sg), z3.BVMulNoUnderflow(a.v, b.v) if sg else True)
    if c.st.branch(okc, 'checked_' + op):
        return some(Int(z3.simplify(r), sg))
    return none()


@pattern(r'^core::num::(abs_diff)$')
def m_abs_diff(c):
    a, b = c.args
    if a.signed:
        raise Unsupported('signed abs_diff')
    return Int(z3.simplify(z3.If(z3.ULT(a.v, b.v), b.v - a.v, a.v - b.v)), False)


@pattern(r'^core::num::(div_ceil)$')
def m_div_ceil(c):
    a, b = c.args
    from .exec import Panic
    if a.signed:
        raise Unsupported('signed div_ceil')
    if z3.is_bv_value(z3.simplify(b.v)) and z3.simplify(b.v).as_long() == 0:
        raise Panic('attempt to divide by zero')
    if c.st.branch(b.v == 0, 'div_ceil by zero'):
        raise Panic('attempt to divide by zero')
    q = z3.UDiv(a.v, b.v)
    return Int(z3.simplify(z3.If(z3.URem(a.v, b.v) != 0, q + 1, q)), False)


@pattern(r'^core::num::(cast_unsigned|cast_signed)$')
def m_cast_sign(c):
    return Int(c.args[0].v, c.canon.endswith('cast_signed'))


@pattern(r'^core::num::(is_power_of_two)$')
def m_pow2(c):
    a = c.args[0]
    return z3.simplify(z3.And(a.v != 0, (a.v & (a.v - 1)) == 0))


@pattern(r'^core::num::(from|to)_(le|be|ne)_bytes$')
def m_bytes(c):
    name = c.canon.split('::')[-1]
    le = '_be_' not in name
    if name.startswith('to_'):
        a = c.args[0]
        n = a.width // 8
        bs = [Int(z3.simplify(z3.Extract(8 * i + 7, 8 * i, a.v)), False) for i in range(n)]
        if not le:
            bs.reverse()
        return Seq('u8', bs)
    s = as_seq(c.st, c.args[0])
    bs = [b.v for b in s.items(c.st)]
    if not le:
        bs = list(reversed(bs))
    v = bs[0]
    for b in bs[1:]:
        v = z3.Concat(b, v)
    # signedness from the callee generic: `core::num::<impl u32>::from_le_bytes`
    m = re.search(r'<impl (\w+)>', c.callee)
    sg = bool(m and m.group(1).startswith('i'))
    return Int(z3.simplify(v), sg)


@pattern(r'^<(u8|u16|u32|u64|u128|usize|i8|i16|i32|i64|i128|isize) as From<(u8|u16|u32|u64|usize|i8|i16|i32|i64|bool)>>::from$')
def m_int_from(c):
    from .rtypes import INT
    m = re.match(r'^<(\w+) as From<(\w+)>>', c.canon)
    w, sg = INT[m.group(1)]
    a = c.args[0]
    if z3.is_bool(a):
        return Int(z3.If(a, z3.BitVecVal(1, w), z3.BitVecVal(0, w)), sg)
    v = a.v
    if v.size() < w:
        v = z3.SignExt(w - v.size(), v) if a.signed else z3.ZeroExt(w - v.size(), v)
    return Int(z3.simplify(v), sg)


@pattern(r'^<(u8|u16|u32|u64|u128|usize|i8|i16|i32|i64|i128|isize) as TryFrom<(\w+)>>::try_from$')
def m_int_try_from(c):
    from .rtypes import INT
    m = re.match(r'^<(\w+) as TryFrom<(\w+)>>', c.canon)
    w, sg = INT[m.group(1)]
    a = c.args[0]
    sw = a.width
    # value as a mathematical integer fits in target?
    if a.signed:
        wide = z3.SignExt(129 - sw, a.v)
    else:
        wide = z3.ZeroExt(129 - sw, a.v)
    lo = -(1 << (w - 1)) if sg else 0
    hi = (1 << (w - 1)) - 1 if sg else (1 << w) - 1
    fits = z3.And(wide >= z3.BitVecVal(lo, 129), wide <= z3.BitVecVal(hi, 129))
    if c.st.branch(fits, 'try_from fits'):
        v = a.v
        if sw > w:
            v = z3.Extract(w - 1, 0, v)
        elif sw < w:
            v = z3.SignExt(w - sw, v) if a.signed else z3.ZeroExt(w - sw, v)
        return ok(Int(z3.simplify(v), sg))
    return err(Opaque('TryFromIntError'))


@pattern(r'^<(u8|u16|u32|u64|u128|usize|i8|i16|i32|i64|i128|isize) as Ord>::(min|max)$|^std::cmp::(min|max)$|^core::cmp::(min|max)$|^Ord::(min|max)$')
def m_int_minmax(c):
    a, b = c.args
    if not isinstance(a, Int):
        raise Unsupported('min/max on ' + type(a).__name__)
    le = (a.v <= b.v) if a.signed else z3.ULE(a.v, b.v)
    if c.canon.endswith('min'):
        return Int(z3.simplify(z3.If(le, a.v, b.v)), a.signed)
    return Int(z3.simplify(z3.If(le, b.v, a.v)), a.signed)


@pattern(r'^<(u8|u16|u32|u64|u128|usize|i8|i16|i32|i64|i128|isize|bool|char) as (PartialEq|PartialOrd|Ord)(<.*>)?>::(eq|ne|lt|le|gt|ge|cmp|partial_cmp)$')
def m_int_cmp(c):
    a = deref(c.st, c.args[0])
    b = deref(c.st, c.args[1])
    op = c.canon.split('::')[-1]
    if z3.is_bool(a):
        a = Int(z3.If(a, z3.BitVecVal(1, 8), z3.BitVecVal(0, 8)), False)
        b = Int(z3.If(b, z3.BitVecVal(1, 8), z3.BitVecVal(0, 8)), False)
    sg = a.signed
    lt = (a.v < b.v) if sg else z3.ULT(a.v, b.v)
    eq = a.v == b.v
    if op == 'eq':
        return z3.simplify(eq)
    if op == 'ne':
        return z3.simplify(z3.Not(eq))
    if op == 'lt':
        return z3.simplify(lt)
    if op == 'le':
        return z3.simplify(z3.Or(lt, eq))
    if op == 'gt':
        return z3.simplify(z3.Not(z3.Or(lt, eq)))
    if op == 'ge':
        return z3.simplify(z3.Not(lt))
    d = z3.simplify(z3.If(lt, z3.BitVecVal(-1, 64), z3.If(eq, z3.BitVecVal(0, 64), z3.BitVecVal(1, 64))))
    o = Enum('Ordering', d.as_signed_long() if z3.is_bv_value(d) else d, {})
    if op == 'cmp':
        return o
    return some(o)


@pattern(r'^<(u8|u16|u32|u64|u128|usize|i8|i16|i32|i64|i128|isize|bool|char|f32|f64) as Clone>::clone$')
def m_prim_clone(c):
    return deref(c.st, c.args[0])


@model('<bool as Default>::default')
def m_bool_default(c):
    return z3.BoolVal(False)


@pattern(r'^<(u8|u16|u32|u64|u128|usize|i8|i16|i32|i64|i128|isize) as Default>::default$')
def m_int_default(c):
    from .rtypes import INT
    m = re.match(r'^<(\w+) as', c.canon)
    w, sg = INT[m.group(1)]
    return Int(z3.BitVecVal(0, w), sg)


# ------------------------------------------------------------------ Option / Result (no closures)

@model('Option::is_some', 'Option::is_none', 'Result::is_ok', 'Result::is_err')
def m_is_variant(c):
    e = deref(c.st, c.args[0])
    name = {'is_some': 'Some', 'is_none': 'None', 'is_ok': 'Ok', 'is_err': 'Err'}[c.canon.split('::')[-1]]
    en = 'Option' if name in ('Some', 'None') else 'Result'
    idx = c.st.ex.prog.variant_index(en, name)
    if isinstance(e.disc, int):
        return z3.BoolVal(e.disc == idx)
    return z3.simplify(e.disc == z3.BitVecVal(idx, 64))


@pattern(r'^<Option as Ord>::(max|min)$')
def m_opt_minmax(c):
    """Option<int>: None < Some(_), Some compared by payload"""
    a, b = c.args
    def is_some(e):
        if isinstance(e.disc, int):
            return e.disc == 1
        return c.st.branch(e.disc == z3.BitVecVal(1, 64), 'opt-ord')
    sa, sb = is_some(a), is_some(b)
    want_max = c.canon.endswith('max')
    if not sa or not sb:
        if not sa and not sb:
            return a
        somev, nonev = (a, b) if sa else (b, a)
        return somev if want_max else nonev
    x, y = a.fields[('Some', 0)], b.fields[('Some', 0)]
    if not isinstance(x, Int):
        raise Unsupported('Option::max on payload ' + type(x).__name__)
    le = (x.v <= y.v) if x.signed else z3.ULE(x.v, y.v)
    pick_b = le if want_max else z3.Not(le)      # Ord::max returns the second argument on ties, min the first
    return some(Int(z3.simplify(z3.If(pick_b, y.v, x.v)), x.signed), a.ty)


@model('Option::as_ref', 'Option::as_mut', 'Result::as_ref', 'Option::as_deref', 'Option::as_deref_mut')
def m_opt_as_ref(c):
    """Option<T> behind a reference -> Option<&T>: same discriminant, payload pointer"""
    from .exec import TypedPtr
    e = deref(c.st, c.args[0])
    r = Enum('Option', e.disc, {}, variant=e.variant)
    inner = option_inner_ty(e)
    if isinstance(e.disc, int):
        if e.disc == 1 or (parse_type(e.ty).name == 'Result'):
            nm = 'Some' if parse_type(e.ty).name != 'Result' else ('Ok' if e.disc == 0 else 'Err')
            r.fields[(nm, 0)] = TypedPtr(e, (nm, 0), inner)
            r.ty = parse_type(e.ty).name
    else:
        r.fields[('Some', 0)] = TypedPtr(e, ('Some', 0), inner)
    return r


@model('Option::unwrap', 'Option::expect')
def m_opt_unwrap(c):
    from .exec import Panic
    e = c.args[0]
    if is_variant(c.st, e, 'Some'):
        return payload(c.st, e, 'Some', 0, option_inner_ty(e))
    raise Panic('unwrap on None')


@model('Result::unwrap', 'Result::expect')
def m_res_unwrap(c):
    from .exec import Panic
    e = c.args[0]
    if is_variant(c.st, e, 'Ok'):
        return payload(c.st, e, 'Ok', 0)
    raise Panic('unwrap on Err')


@model('Option::unwrap_or', 'Result::unwrap_or')
def m_unwrap_or(c):
    e = c.args[0]
    nm = 'Some' if parse_type(e.ty).name != 'Result' else 'Ok'
    if is_variant(c.st, e, nm):
        return payload(c.st, e, nm, 0, option_inner_ty(e))
    return c.args[1]


@model('Option::unwrap_or_default', 'Result::unwrap_or_default')
def m_unwrap_or_default(c):
    e = c.args[0]
    nm = 'Some' if parse_type(e.ty).name != 'Result' else 'Ok'
    if is_variant(c.st, e, nm):
        return payload(c.st, e, nm, 0, option_inner_ty(e))
    t = parse_type(c.dest_ty) if c.dest_ty else None
    if t is not None and t.kind == 'int':
        return Int(z3.BitVecVal(0, t.n), t.mut)
    if t is not None and t.kind == 'bool':
        return z3.BoolVal(False)
    if t is not None and t.kind == 'adt' and t.name == 'Duration':
        return Struct('Duration', {0: Int(z3.BitVecVal(0, 64), False)})
    if t is not None and t.kind == 'adt' and t.name in ('HashMap', 'BTreeMap', 'HashSet', 'BTreeSet', 'IndexMap'):
        is_set = t.name.endswith('Set')
        return Map(t.args[0].raw if t.args else None, t.args[1].raw if len(t.args) > 1 and not is_set else None, [], [], is_set=is_set, ordered=t.name.startswith('BTree'))
    if t is not None and t.kind == 'adt' and t.name in ('Vec', 'VecDeque'):
        return Seq(t.args[0].raw if t.args else None, [])
    if t is not None and t.kind == 'adt' and t.name == 'String':
        return Str(text='')
    raise Unsupported('unwrap_or_default for ' + str(c.dest_ty))


@model('Option::copied', 'Option::cloned')
def m_opt_copied(c):
    from .exec import copy_val
    e = c.args[0]
    if is_variant(c.st, e, 'Some'):
        v = deref(c.st, payload(c.st, e, 'Some', 0))
        if not _is_plain(v) and not isinstance(v, (Int, Flt, Str)) and not z3.is_bool(v):
            raise Unsupported('Option::cloned of non-plain value')
        return some(copy_val(v))
    return none()


@model('Option::take')
def m_opt_take(c):
    p = c.args[0]
    e = p.load(c.st)
    p.store(none(e.ty if isinstance(e, Enum) else 'Option'), c.st)
    return e


@model('Option::replace', 'std::mem::replace', 'core::mem::replace')
def m_replace(c):
    p = c.args[0]
    old = p.load(c.st)
    v = c.args[1]
    if c.canon.startswith('Option'):
        v = some(v)
    p.store(v, c.st)
    return old


@model('std::mem::take', 'core::mem::take')
def m_mem_take(c):
    p = c.args[0]
    old = p.load(c.st)
    if isinstance(old, Seq):
        p.store(Seq(old.elem_ty, []), c.st)
    elif isinstance(old, Map):
        p.store(Map(old.kty, old.vty, [], [], is_set=old.is_set, ordered=old.ordered), c.st)
    elif isinstance(old, Enum) and parse_type(old.ty).name == 'Option':
        p.store(none(old.ty), c.st)
    elif isinstance(old, Int):
        p.store(Int(z3.BitVecVal(0, old.width), old.signed), c.st)
    else:
        raise Unsupported('mem::take of ' + type(old).__name__)
    return old


@model('Option::ok_or')
def m_ok_or(c):
    e = c.args[0]
    if is_variant(c.st, e, 'Some'):
        return ok(payload(c.st, e, 'Some', 0, option_inner_ty(e)))
    return err(c.args[1])


@model('Result::ok')
def m_res_ok(c):
    e = c.args[0]
    if is_variant(c.st, e, 'Ok'):
        return some(payload(c.st, e, 'Ok', 0))
    return none()


@pattern(r'^<(std::option::)?Option as (std::ops::)?Try>::branch$')
def m_opt_try_branch(c):
    e = c.args[0]
    if is_variant(c.st, e, 'Some'):
        return Enum('ControlFlow', 0, {('Continue', 0): payload(c.st, e, 'Some', 0, option_inner_ty(e))}, variant='Continue')
    return Enum('ControlFlow', 1, {('Break', 0): none()}, variant='Break')


@pattern(r'^<(std::result::)?Result as (std::ops::)?Try>::branch$')
def m_res_try_branch(c):
    e = c.args[0]
    if is_variant(c.st, e, 'Ok'):
        return Enum('ControlFlow', 0, {('Continue', 0): payload(c.st, e, 'Ok', 0)}, variant='Continue')
    return Enum('ControlFlow', 1, {('Break', 0): err(payload(c.st, e, 'Err', 0))}, variant='Break')


@pattern(r'^<(std::option::)?Option as (std::ops::)?FromResidual(<.*>)?>::from_residual$')
def m_opt_from_residual(c):
    return none()


@pattern(r'^<(std::result::)?Result as (std::ops::)?FromResidual(<.*>)?>::from_residual$')
def m_res_from_residual(c):
    e = c.args[0]
    v = payload(c.st, e, 'Err', 0)
    # `?` applies From::from to the error; identity when the types agree, otherwise the
    # conversion is crate code we do not need for the properties: keep the payload tagged.
    return err(v)


# ------------------------------------------------------------------ misc std

@pattern(r'^<.* as Deref>::deref$|^<.* as DerefMut>::deref_mut$')
def m_generic_deref(c):
    """guards, Arc, Box, String->str: the reference itself designates the target"""
    v = c.args[0]
    inner = v.load(c.st) if isinstance(v, Ptr) else v
    if isinstance(inner, Ptr):
        return inner          # &Guard / &Arc<T> / &Box<T>  ->  &T
    if isinstance(inner, (Seq, Str)):
        return v              # &Vec<T> -> &[T], &String -> &str
    if isinstance(inner, Struct) and 'data' in inner.fields and isinstance(inner.fields['data'], Cell):
        return Ptr(inner.fields['data'], 0)
    raise Unsupported(f'deref of {type(inner).__name__} via {c.canon}')


@model('drop', 'std::mem::drop', 'core::mem::drop', 'std::mem::forget')
def m_drop(c):
    return UNIT


@pattern(r'^<Level as PartialOrd<LevelFilter>>::(le|lt|ge|gt)$')
def m_tracing_off(c):
    """tracing disabled: the first test of every tracing macro expansion is false"""
    return z3.BoolVal(False)


@pattern(r'^tracing::|^tracing_core::|^<tracing::')
def m_tracing_any(c):
    return Opaque('tracing')


@model('std::hint::black_box', 'core::hint::black_box', 'std::convert::identity', '<T as From<T>>::from', '<T as Into<U>>::into_identity')
def m_identity(c):
    return c.args[0]


@pattern(r'^<.* as From<.*>>::from$')
def m_from_generic(c):
    # only the reflexive impl is modelled generically
    m = re.match(r'^<(.*) as From<(.*)>>::from$', c.canon)
    if m and m.group(1).split('::')[-1] == m.group(2).split('::')[-1]:
        return c.args[0]
    if m and m.group(1).split('::')[-1] == 'String' and m.group(2) in ('&str', '&String'):
        return deref(c.st, c.args[0])
    raise Unsupported('call: ' + c.canon)


@model('<String as Clone>::clone', 'str::to_string', '<str as ToString>::to_string', '<String as ToString>::to_string',
       'str::to_owned', '<str as ToOwned>::to_owned', 'String::as_str', '<String as AsRef<str>>::as_ref',
       '<String as Borrow<str>>::borrow', 'core::str::to_string', 'core::str::to_owned', '<String as From<&str>>::from',
       '<String as Deref>::deref', 'String::as_ref', '<str as AsRef<str>>::as_ref')
def m_str_ident(c):
    v = c.args[0]
    name = c.canon.split('::')[-1]
    if name in ('as_str', 'as_ref', 'borrow', 'deref'):
        inner = v.load(c.st) if isinstance(v, Ptr) else v
        if isinstance(inner, Ptr):
            return inner
        return v
    return deref(c.st, v)


@pattern(r'^<(&)?(String|str|&str|std::string::String) as PartialEq(<.*>)?>::(eq|ne)$|^core::str::eq$')
def m_str_eq(c):
    a = deref(c.st, c.args[0])
    b = deref(c.st, c.args[1])
    if not (isinstance(a, Str) and isinstance(b, Str)):
        raise Unsupported('str eq on ' + type(a).__name__)
    from .models_std import str_equal
    r = str_equal(c.st, a, b)
    return z3.simplify(z3.Not(r) if c.canon.endswith('::ne') else r)


@pattern(r'^<(std::option::)?Option as PartialEq>::(eq|ne)$')
def m_opt_eq(c):
    a = deref(c.st, c.args[0])
    b = deref(c.st, c.args[1])
    cs = [disc_of(a) == disc_of(b)]
    ita = option_inner_ty(a) or option_inner_ty(b)
    # payload compared only when both are Some
    both = z3.And(disc_of(a) == 1, disc_of(b) == 1)
    both = z3.simplify(both)
    if not z3.is_false(both):
        pa = deref(c.st, a.load(('Some', 0), ita, c.st))
        pb = deref(c.st, b.load(('Some', 0), ita, c.st))
        if isinstance(pa, (Struct, Enum)) and not _is_plain_scalar_struct(pa):
            raise Unsupported('Option == on ' + str(a.ty))
        cs.append(z3.Implies(both, c.st.val_eq(pa, pb)))
    r = z3.And(cs)
    return z3.simplify(z3.Not(r) if c.canon.endswith('::ne') else r)


def _is_plain_scalar_struct(v):
    return False


@model('core::slice::copy_from_slice', 'core::slice::clone_from_slice')
def m_copy_from_slice(c):
    from .exec import Panic
    dst = as_seq(c.st, c.args[0])
    src = as_seq(c.st, c.args[1])
    n, k = dst.length(c.st), src.length(c.st)
    if n != k:
        raise Panic('copy_from_slice: source slice length does not match destination')
    items = list(src.items(c.st))
    for i, v in enumerate(items):
        dst.store(i, v, c.st)
    return UNIT


@pattern(r'^<\[.*\] as PartialEq(<.*>)?>::(eq|ne)$|^<Vec as PartialEq(<.*>)?>::(eq|ne)$|^<&\[.*\] as PartialEq(<.*>)?>::(eq|ne)$')
def m_seq_eq(c):
    a = as_seq(c.st, c.args[0])
    b = as_seq(c.st, c.args[1])
    ia, ib = a.items(c.st), b.items(c.st)
    if len(ia) != len(ib):
        r = z3.BoolVal(False)
    else:
        for x in ia + ib:
            if not (isinstance(x, (Int, Str)) or z3.is_bool(x)):
                raise Unsupported('sequence == on non-scalar elements')
        r = z3.And([c.st.val_eq(x, y) for x, y in zip(ia, ib)]) if ia else z3.BoolVal(True)
    return z3.simplify(z3.Not(r) if c.canon.endswith('ne') else r)


@pattern(r'^<\[.*\] as IndexMut<(Range|RangeFrom|RangeTo)>>::index_mut$|^<Vec as IndexMut<(Range|RangeFrom|RangeTo)>>::index_mut$')
def m_index_mut_range(c):
    if 'RangeFrom' in c.canon:
        return m_index_rangefrom(c)
    if 'RangeTo' in c.canon:
        return m_index_rangeto(c)
    return m_index_range(c)


@pattern(r'^<&?(str|String|&str|std::string::String) as Into<(String|std::string::String)>>::into$|^<(String|std::string::String) as From<&(mut )?str>>::from$')
def m_str_into_string(c):
    return deref(c.st, c.args[0])


@pattern(r'^<impl Into as Into<(String|std::string::String)>>::into$')
def m_generic_into_string(c):
    # `impl Into<String>` parameter in generic MIR: the only instantiations modelled are the string-like ones
    v = deref(c.st, c.args[0])
    if isinstance(v, Str):
        return v
    raise Unsupported('Into<String> of ' + type(v).__name__)


@model('core::str::starts_with', 'str::starts_with', 'core::str::ends_with', 'str::ends_with')
def m_str_starts_with(c):
    s_ = deref(c.st, c.args[0])
    pat = c.args[1]
    pat = deref(c.st, pat) if isinstance(pat, Ptr) else pat
    if isinstance(pat, Int) and z3.is_bv_value(z3.simplify(pat.v)):
        pat = Str(text=chr(z3.simplify(pat.v).as_long()))
    if isinstance(s_, Str) and s_.text is not None and isinstance(pat, Str) and pat.text is not None:
        return z3.BoolVal(s_.text.startswith(pat.text) if c.canon.endswith('starts_with') else s_.text.endswith(pat.text))
    if isinstance(s_, Str) and s_.text is None and s_.parts is None and isinstance(pat, Str) and pat.text is not None:
        # abstract string against a literal pattern: an uninterpreted predicate on the string's identity, pinned to the truth on
        # every literal the run knows (so "equal to the literal `_from`" implies "starts with `_`")
        kind = 'starts' if c.canon.endswith('starts_with') else 'ends'
        f = z3.Function(f'str_{kind}_with[{pat.text}]', z3.BitVecSort(64), z3.BoolSort())
        key = ('str_pred', kind, pat.text)
        done = c.st.env.setdefault(key, set())
        for text in list(Str._intern):
            if text is None or text in done:
                continue
            done.add(text)
            truth = text.startswith(pat.text) if kind == 'starts' else text.endswith(pat.text)
            c.st.assume(f(Str(text=text).id) == z3.BoolVal(truth))
        return f(s_.id)
    raise Unsupported('starts_with / ends_with on a string that is not a literal')


def _lit(c, v):
    v = deref(c.st, v) if isinstance(v, Ptr) else v
    if isinstance(v, Int) and z3.is_bv_value(z3.simplify(v.v)):
        return chr(z3.simplify(v.v).as_long())
    if isinstance(v, Str) and v.text is not None and v.parts is None:
        return v.text
    raise Unsupported(c.canon + ' on a string that is not a literal')


@model('core::str::is_empty', 'str::is_empty', 'String::is_empty')
def m_str_is_empty(c):
    return z3.BoolVal(_lit(c, c.args[0]) == '')


@model('core::str::bytes', 'str::bytes')
def m_str_bytes(c):
    from .values import IterObj
    return IterObj([Int(z3.BitVecVal(b, 8), False) for b in _lit(c, c.args[0]).encode()], 0, 'list')


@pattern(r'^core::num::is_ascii_(digit|alphabetic|alphanumeric|whitespace|uppercase|lowercase)$|^core::char::methods::is_ascii_digit$')
def m_is_ascii_class(c):
    v = deref(c.st, c.args[0]) if isinstance(c.args[0], Ptr) else c.args[0]
    x = v.v
    w = x.size()
    rng = lambda lo, hi: z3.And(z3.UGE(x, z3.BitVecVal(lo, w)), z3.ULE(x, z3.BitVecVal(hi, w)))
    k = c.canon.rsplit('_', 1)[1]
    digit, upper, lower = rng(48, 57), rng(65, 90), rng(97, 122)
    if k == 'digit':
        return z3.simplify(digit)
    if k == 'uppercase':
        return z3.simplify(upper)
    if k == 'lowercase':
        return z3.simplify(lower)
    if k == 'alphabetic':
        return z3.simplify(z3.Or(upper, lower))
    if k == 'alphanumeric':
        return z3.simplify(z3.Or(digit, upper, lower))
    return z3.simplify(z3.Or(x == 32, rng(9, 10), rng(12, 13)))


@model('core::str::contains', 'str::contains')
def m_str_contains(c):
    return z3.BoolVal(_lit(c, c.args[1]) in _lit(c, c.args[0]))


@model('core::str::strip_prefix', 'str::strip_prefix', 'core::str::strip_suffix', 'str::strip_suffix')
def m_str_strip(c):
    s_, p_ = _lit(c, c.args[0]), _lit(c, c.args[1])
    if c.canon.endswith('prefix'):
        return some(Ptr(Cell(val=Str(text=s_[len(p_):])), 0), 'Option<&str>') if s_.startswith(p_) else none('Option<&str>')
    return some(Ptr(Cell(val=Str(text=s_[:len(s_) - len(p_)])), 0), 'Option<&str>') if s_.endswith(p_) else none('Option<&str>')


@model('core::str::rsplit', 'str::rsplit', 'core::str::split', 'str::split')
def m_str_split(c):
    from .values import IterObj
    pieces = _lit(c, c.args[0]).split(_lit(c, c.args[1]))
    if c.canon.endswith('rsplit'):
        pieces.reverse()
    return IterObj([Ptr(Cell(val=Str(text=x)), 0) for x in pieces], 0, 'list')


@model('String::new', 'std::string::String::new')
def m_string_new(c):
    return Str(text='')
