"""Path-by-path symbolic execution of MIR with z3 deciding feasibility.

See DESIGN.md §1 (E2).  The public entry point is Executor.run(): it explores every
path of one call from a caller-supplied initial state and returns PathResult objects
(status, return value, final state, path condition)."""
import os
import re
import time
import z3
from .mir import Place
from .rtypes import parse_type, strip_generics, turbofish_args, canon_callee, INT
from .values import *

NOKEEP = bool(os.environ.get('VERIF_NOKEEP'))   # debugging only: reproduce the pre-keep-alive behaviour
FORKLOG = bool(os.environ.get('VERIF_FORKLOG'))
TRACE = int(os.environ.get('MIRSYM_TRACE', '0'))


class Fork(Exception):
    def __init__(self, n, key=None, keep=None):
        self.n = n
        self.key = key
        self.keep = keep      # z3 terms whose ids the key mentions: kept alive so that re-execution rebuilds the same hash-consed AST


class Infeasible(Exception):
    pass


class Panic(Exception):
    def __init__(self, msg):
        self.msg = msg


START = object()


class Frame:
    def __init__(self, fn, locals_, dest, ret_bb, cont=None):
        self.fn = fn
        self.locals = locals_
        self.bb = 'bb0'
        self.idx = 0
        self.dest = dest        # LV in the caller (or None)
        self.ret_bb = ret_bb
        self.cont = cont        # (handler_name, payload) invoked on return instead of plain store
        self.visits = {}

    def __mirsym_clone__(self, memo):
        r = Frame.__new__(Frame)
        memo[id(self)] = r
        r.fn = self.fn
        r.locals = clone(self.locals, memo)
        r.bb = self.bb
        r.idx = self.idx
        r.dest = clone(self.dest, memo)
        r.ret_bb = self.ret_bb
        r.cont = clone(self.cont, memo)
        r.visits = dict(self.visits)
        return r


class NativeFrame:
    """a model that needs to call MIR functions: a resumable Python-side frame.
    handler(st, frame, retval) is called first with retval=START and then again each
    time a callee pushed by the handler returns."""

    def __init__(self, handler, data, dest, ret_bb):
        self.handler = handler   # name in CONT registry
        self.data = data
        self.dest = dest
        self.ret_bb = ret_bb
        self.fn = None
        self.pending = START

    def __mirsym_clone__(self, memo):
        r = NativeFrame.__new__(NativeFrame)
        memo[id(self)] = r
        r.pending = clone(self.pending, memo)
        r.handler = self.handler
        r.data = clone(self.data, memo)
        r.dest = clone(self.dest, memo)
        r.ret_bb = self.ret_bb
        r.fn = None
        return r


class SlotLV:
    __slots__ = ('cont', 'key', 'ty')

    def __init__(self, cont, key, ty=None):
        self.cont = cont
        self.key = key
        self.ty = ty

    def get(self, st):
        return self.cont.load(self.key, self.ty, st)

    def set(self, v, st):
        self.cont.store(self.key, v, st)

    def ptr(self):
        return Ptr(self.cont, self.key)


class ValLV:
    __slots__ = ('val',)

    def __init__(self, val):
        self.val = val

    def get(self, st):
        return self.val

    def set(self, v, st):
        raise ExecBug('store to a value place')

    def ptr(self):
        return Ptr(Cell(val=self.val), 0)


class SolverCache:
    """one incremental solver; the assertion stack follows the path condition prefix."""

    def __init__(self, timeout_ms=60000):
        self.s = z3.Solver()
        self.s.set('timeout', timeout_ms)
        self.stack = []     # list of constraint ids
        self.queries = 0
        self.time = 0.0
        self.unknown = 0

    def check(self, pc, extra=None):
        i = 0
        n = min(len(pc), len(self.stack))
        while i < n and self.stack[i] == pc[i].get_id():
            i += 1
        while len(self.stack) > i:
            self.s.pop()
            self.stack.pop()
        for c in pc[i:]:
            self.s.push()
            self.s.add(c)
            self.stack.append(c.get_id())
        t = time.time()
        self.queries += 1
        if extra is not None:
            self.s.push()
            self.s.add(extra)
            r = self.s.check()
            self.s.pop()
        else:
            r = self.s.check()
        self.time += time.time() - t
        if r == z3.unknown:
            self.unknown += 1
        return r

    def model(self, pc, extra=None):
        i = 0
        n = min(len(pc), len(self.stack))
        while i < n and self.stack[i] == pc[i].get_id():
            i += 1
        while len(self.stack) > i:
            self.s.pop()
            self.stack.pop()
        for c in pc[i:]:
            self.s.push()
            self.s.add(c)
            self.stack.append(c.get_id())
        self.queries += 1
        t = time.time()
        self.s.push()
        if extra is not None:
            self.s.add(extra)
        r = self.s.check()
        m = self.s.model() if r == z3.sat else None
        self.s.pop()
        self.time += time.time() - t
        return r, m


class State:
    def __init__(self, ex):
        self.ex = ex
        self.frames = []
        self.pc = []
        self.roots = {}
        self.symbols = {}       # path -> value created lazily (pre-state symbols)
        self.choices = {}      # keyed choices of the step being (re-)executed
        self.choice_pos = 0
        self.label_seen = {}
        self.counter = 0
        self.notes = []         # (tag, payload) trail: models record events (file ops, io, ...)
        self.env = {}           # model-level state: files, clocks, ...
        self.status = None
        self.retval = None
        self.msg = None
        self.steps = 0
        self.maxlen_default = ex.default_maxlen

    def clone(self):
        memo = {}
        r = State.__new__(State)
        r.ex = self.ex
        r.frames = clone(self.frames, memo)
        r.pc = list(self.pc)
        r.roots = clone(self.roots, memo)
        r.symbols = clone(self.symbols, memo)
        r.choices = dict(self.choices)
        r.choice_pos = 0
        r.label_seen = {}
        r.counter = self.counter
        r.notes = clone(self.notes, memo)
        r.env = clone(self.env, memo)
        r.status = self.status
        r.retval = clone(self.retval, memo)
        r.msg = self.msg
        r.steps = self.steps
        r.maxlen_default = self.maxlen_default
        if FORKLOG:
            r.forklog = getattr(self, 'forklog', ())
        return r

    # ---- choice / constraints
    def choose(self, n, label='', key=None, keep=None):
        """index in 0..n-1.  Choices are keyed (not positional): a step is re-executed after a fork, and on the
        re-run an earlier choice may already be persisted in the state (forced shape, assumed constraint) and not
        be asked again - positional replay would then hand its value to the wrong question."""
        if n == 1:
            return 0
        if key is None:
            k = self.label_seen.get(label, 0)
            self.label_seen[label] = k + 1
            key = ('lbl', label, k)
        if key in self.choices:
            return self.choices[key]
        raise Fork(n, key, keep)

    def assume(self, c):
        c = z3.simplify(c) if not isinstance(c, bool) else z3.BoolVal(c)
        if z3.is_true(c):
            return
        if z3.is_false(c):
            raise Infeasible()
        self.pc.append(c)

    def assume_checked(self, c):
        """assume and drop the path if it became infeasible"""
        self.assume(c)
        if self.ex.solver.check(self.pc) == z3.unsat:
            raise Infeasible()

    def feasible(self, c):
        c = z3.simplify(c)
        if z3.is_true(c):
            return True
        if z3.is_false(c):
            return False
        r = self.ex.solver.check(self.pc, c)
        if r == z3.unknown:
            raise Unsupported('solver returned unknown')
        return r == z3.sat

    def branch(self, cond, label=''):
        """python bool for a symbolic condition, forking when both sides are feasible."""
        cond = z3.simplify(cond)
        if z3.is_true(cond):
            return True
        if z3.is_false(cond):
            return False
        t = self.feasible(cond)
        if not t:
            # the path condition itself is satisfiable (invariant of the exploration), so the other side is
            return False
        f = self.feasible(z3.Not(cond))
        if not f:
            return True
        i = self.choose(2, label, key=('br', cond.get_id()), keep=cond)
        if i == 0:
            self.assume(cond)
            return True
        self.assume(z3.Not(cond))
        return False

    def concretize(self, e, lo, hi, label=''):
        """python int for a BV term known to lie in [lo, hi] (forks over feasible values)."""
        e = z3.simplify(e)
        if z3.is_bv_value(e):
            return e.as_long()
        cands = [c for c in range(lo, hi + 1) if self.feasible(e == c)]
        if not cands:
            raise Infeasible()
        i = self.choose(len(cands), label, key=('conc', e.get_id()), keep=e)
        self.assume(e == cands[i])
        return cands[i]

    def choose_len(self, obj):
        mx = obj.maxlen if obj.maxlen is not None else self.maxlen_default
        mn = getattr(obj, 'minlen', 0) or 0
        n = mn + self.choose(mx - mn + 1, f'len {obj.lazy}', key=('len', obj.lazy))
        self.notes.append(('shape', obj.lazy, n))
        return n

    def fresh_name(self, base):
        self.counter += 1
        return f'{base}#{self.counter}'

    # ---- symbolic values from types
    def fresh(self, ty, path):
        t = parse_type(ty) if isinstance(ty, str) else ty
        v = self._fresh(t, path)
        return v

    def _fresh(self, t, path):
        k = t.kind
        hook = self.ex.fresh_hooks.get(t.name) if k == 'adt' else None
        if hook:
            r = hook(self, t, path)
            if r is not None:
                return r
        if k == 'int':
            v = Int(z3.BitVec(path, t.n), t.mut)
            self.symbols[path] = v
            return v
        if k == 'bool':
            v = z3.Bool(path)
            self.symbols[path] = v
            return v
        if k == 'char':
            v = Int(z3.BitVec(path, 32), False)
            self.symbols[path] = v
            return v
        if k == 'float':
            v = Flt(z3.FP(path, z3.Float32() if t.n == 32 else z3.Float64()))
            self.symbols[path] = v
            return v
        if k == 'unit':
            return UNIT
        if k == 'tuple':
            return Struct(t.raw, {}, lazy=path)
        if k in ('ref', 'rawptr'):
            inner = t.args[0]
            return Ptr(Cell(inner.raw, lazy=path + '*'), 0)
        if k == 'str':
            v = Str(z3.BitVec(path, 64))
            self.symbols[path] = v
            return v
        if k in ('slice', 'array'):
            if k == 'array' and t.n.isdigit():
                n = int(t.n)
                return Seq(t.args[0].raw, [None] * n, lazy=path)
            return Seq(t.args[0].raw, None, lazy=path)
        if k == 'closure':
            return Struct(t.name, {}, lazy=path)
        if k == 'adt':
            return self._fresh_adt(t, path)
        if k in ('dyn', 'fnptr', 'never'):
            return Opaque(t.raw, path)
        raise Unsupported(f'fresh value of type {t.raw}')

    def _fresh_adt(self, t, path):
        n = t.name
        if n == 'String':
            v = Str(z3.BitVec(path, 64))
            self.symbols[path] = v
            return v
        if n in ('Vec', 'VecDeque'):
            return Seq(t.args[0].raw if t.args else None, None, lazy=path)
        if n in ('HashMap', 'BTreeMap'):
            return Map(t.args[0].raw, t.args[1].raw, lazy=path, ordered=(n == 'BTreeMap'))
        if n in ('HashSet', 'BTreeSet'):
            return Map(t.args[0].raw, None, lazy=path, is_set=True, ordered=(n == 'BTreeSet'))
        if n in ('RwLock', 'Mutex'):
            inner = t.args[-1]
            return Struct(t.raw, {'data': Cell(inner.raw, lazy=path + '.data')}, lazy=None)
        if n in ('Arc', 'Box', 'Rc'):
            return Ptr(Cell(t.args[0].raw, lazy=path + '*'), 0)
        if n in ('AtomicU64', 'AtomicUsize', 'AtomicU32', 'AtomicBool', 'AtomicI64', 'AtomicU8'):
            ity = {'AtomicU64': 'u64', 'AtomicUsize': 'usize', 'AtomicU32': 'u32', 'AtomicBool': 'bool',
                   'AtomicI64': 'i64', 'AtomicU8': 'u8'}[n]
            return Struct(t.raw, {'data': Cell(ity, lazy=path + '.atomic')}, lazy=None)
        if n == 'Atomic' and t.args:
            return Struct(t.raw, {'data': Cell(t.args[0].raw, lazy=path + '.atomic')}, lazy=None)
        vs = self.ex.prog.variants(n)
        if vs is not None and (n in ('Option', 'Result') or n in self.ex.prog.enums):
            d = z3.BitVec(path + '.disc', 64)
            idxs = [self.ex.prog.variant_index(n, v) for v in vs]
            self.assume(z3.Or([d == z3.BitVecVal(i, 64) for i in idxs]))
            e = Enum(t.raw, d, {}, lazy=path)
            self.symbols[path + '.disc'] = Int(d, True)
            return e
        return Struct(t.raw, {}, lazy=path)

    # ---- equality of values (for models and obligations)
    def val_eq(self, a, b):
        return val_eq(a, b, self)


def val_eq(a, b, st=None):
    """z3 Bool: structural equality of two runtime values (same shape assumed where concrete)."""
    if isinstance(a, Int) and isinstance(b, Int):
        return a.v == b.v
    if z3.is_bool(a) and z3.is_bool(b):
        return a == b
    if isinstance(a, Flt) and isinstance(b, Flt):
        return z3.fpToIEEEBV(a.v) == z3.fpToIEEEBV(b.v) if False else z3.fpEQ(a.v, b.v)
    if isinstance(a, Str) and isinstance(b, Str):
        if a.parts is not None or b.parts is not None:
            from .models_std import str_equal
            return str_equal(st, a, b)
        return a.id == b.id
    if isinstance(a, UnitT) and isinstance(b, UnitT):
        return z3.BoolVal(True)
    if isinstance(a, Ptr) and isinstance(b, Ptr):
        return val_eq(a.load(st), b.load(st), st)
    if isinstance(a, Ptr):
        return val_eq(a.load(st), b, st)
    if isinstance(b, Ptr):
        return val_eq(a, b.load(st), st)
    if isinstance(a, Struct) and isinstance(b, Struct):
        keys = set(a.fields) | set(b.fields)
        cs = []
        for k in keys:
            if isinstance(a.fields.get(k), Cell) or isinstance(b.fields.get(k), Cell):
                cs.append(val_eq(a.fields[k].load(0, None, st), b.fields[k].load(0, None, st), st))
                continue
            cs.append(val_eq(a.load(k, _peer_ty(b, k), st), b.load(k, _peer_ty(a, k), st), st))
        return z3.And(cs) if cs else z3.BoolVal(True)
    if isinstance(a, Enum) and isinstance(b, Enum):
        da = a.disc if not isinstance(a.disc, int) else z3.BitVecVal(a.disc, 64)
        db = b.disc if not isinstance(b.disc, int) else z3.BitVecVal(b.disc, 64)
        cs = [da == db]
        keys = set(a.fields) | set(b.fields)
        for k in keys:
            if (k not in a.fields and a.lazy is None) or (k not in b.fields and b.lazy is None):
                continue   # other variant's payload: guarded by disc equality + variant guard below
            idx = st.ex.prog.variant_index(_adt_name(a.ty), k[0]) if st else None
            fa = a.load(k, _peer_ty(b, k), st)
            fb = b.load(k, _peer_ty(a, k), st)
            eq = val_eq(fa, fb, st)
            if idx is not None:
                cs.append(z3.Implies(da == z3.BitVecVal(idx, 64), eq))
            else:
                cs.append(eq)
        return z3.And(cs)
    if isinstance(a, Seq) and isinstance(b, Seq):
        ea, eb = a.items(st), b.items(st)
        if len(ea) != len(eb):
            return z3.BoolVal(False)
        return z3.And([val_eq(x, y, st) for x, y in zip(ea, eb)]) if ea else z3.BoolVal(True)
    if isinstance(a, Cell) and isinstance(b, Cell):
        return val_eq(a.load(0, None, st), b.load(0, None, st), st)
    if isinstance(a, Opaque) and isinstance(b, Opaque):
        return z3.BoolVal(a.what == b.what and a.payload == b.payload)
    raise Unsupported(f'val_eq on {type(a).__name__} / {type(b).__name__}')


def _peer_ty(o, k):
    v = o.fields.get(k)
    if v is None:
        return None
    return type_of_value(v)


def type_of_value(v):
    if isinstance(v, Int):
        for nme, (w, s) in INT.items():
            if w == v.width and s == v.signed and nme not in ('usize', 'isize'):
                return nme
    if z3.is_bool(v):
        return 'bool'
    if isinstance(v, Flt):
        return 'f32' if v.v.sort() == z3.Float32() else 'f64'
    if isinstance(v, Str):
        return 'String'
    if isinstance(v, (Struct, Enum)):
        return v.ty
    if isinstance(v, UnitT):
        return '()'
    return None


def _adt_name(ty):
    try:
        return parse_type(ty).name
    except Exception:
        return None


class PathResult:
    def __init__(self, status, st, retval=None, msg=None):
        self.status = status    # 'return' | 'panic' | 'unsupported' | 'unroll' | 'error'
        self.st = st
        self.retval = retval
        self.msg = msg
        self.pc = list(st.pc)

    def __repr__(self):
        return f'<{self.status} {self.msg or ""} pc={len(self.pc)}>'


class Executor:
    def __init__(self, prog, unroll=16, default_maxlen=2, max_paths=20000, max_steps=200000, timeout_s=None):
        self.prog = prog
        self.unroll = unroll
        self.default_maxlen = default_maxlen
        self.max_paths = max_paths
        self.max_steps = max_steps
        # per-query cap: 60 s in the quick tier, 300 s in thorough (a thorough run shares the machine with up to 16 worker processes)
        self.solver = SolverCache(timeout_ms=300000 if os.environ.get('VERIF_TIER') == 'thorough' else 60000)
        self.models_used = set()
        self.fns_executed = set()
        self.fresh_hooks = {}
        self.const_cache = {}
        self.stats = {'paths': 0, 'forks': 0, 'steps': 0, 'infeasible': 0}
        self.deadline = time.time() + timeout_s if timeout_s else None
        from . import models, models_iter, models_map, models_std, models_fs
        self.generic_subst = {}
        self.all_orders = False
        self.models = models.REGISTRY
        self.model_pats = models.PATTERNS
        self.conts = models.CONTS
        self.extra_models = {}   # per-check overrides: canonical callee -> python fn

    # ------------------------------------------------------------ public
    def new_state(self):
        return State(self)

    def call(self, st, fname, args, dest_name='ret'):
        """push the entry frame for canonical function name `fname`."""
        f = self.prog.resolve(fname) if isinstance(fname, str) else fname
        if f is None:
            raise Unsupported('no MIR for ' + fname)
        root = Cell()
        st.roots['__ret'] = root
        self.push_fn(st, f, args, SlotLV(root, 0), None)
        return st

    def run(self, st0):
        """explore all paths from st0; returns list[PathResult]."""
        results = []
        work = [st0]
        while work:
            if self.deadline and time.time() > self.deadline:
                for st in work:
                    results.append(PathResult('timeout', st, msg='executor deadline'))
                break
            st = work.pop()
            try:
                self._run_path(st, work, results)
            except RecursionError:
                results.append(PathResult('error', st, msg='recursion'))
            if len(results) > self.max_paths:
                results.append(PathResult('error', st, msg='max_paths exceeded'))
                break
        self.stats['paths'] += len(results)
        seen = set()
        for r in results:
            k = (r.status, tuple(c.get_id() for c in r.st.pc))
            if k in seen:
                self.stats['dup_paths'] = self.stats.get('dup_paths', 0) + 1
            seen.add(k)
        return results

    def _run_path(self, st, work, results):
        while True:
            if not st.frames:
                results.append(PathResult(st.status or 'return', st, st.retval, st.msg))
                return
            if st.steps > self.max_steps:
                results.append(PathResult('unroll', st, msg='max_steps'))
                return
            st.choice_pos = 0
            st.label_seen = {}
            try:
                self.step(st)
                st.choices = {}
                st.keep = ()
                st.steps += 1
                self.stats['steps'] += 1
            except Fork as fk:
                self.stats['forks'] += 1
                base = st.choices
                src = getattr(fk, 'base', st)
                for i in reversed(range(fk.n)):
                    s2 = src.clone()
                    s2.choices = dict(base)
                    s2.choices[fk.key] = i
                    if not NOKEEP:
                        s2.keep = getattr(st, 'keep', ()) + (fk.keep,)
                    if FORKLOG:
                        s2.forklog = getattr(src, 'forklog', ()) + ((self._where(src), str(fk.key)[:80], i),)
                    work.append(s2)
                return
            except Infeasible:
                self.stats['infeasible'] += 1
                if FORKLOG:
                    print('  [infeasible] at', self._where(st), getattr(st, 'forklog', ())[-3:])
                return
            except Panic as p:
                results.append(PathResult('panic', st, msg=p.msg))
                return
            except UnrollExceeded as u:
                results.append(PathResult('unroll', st, msg='unroll bound at ' + str(u) + ' @ ' + self._where(st)))
                return
            except Unsupported as u:
                results.append(PathResult('unsupported', st, msg=str(u) + ' @ ' + self._where(st)))
                return
            except ExecBug as b:
                results.append(PathResult('error', st, msg='ExecBug: ' + str(b) + ' @ ' + self._where(st)))
                return
            except (AttributeError, TypeError, KeyError, IndexError, z3.Z3Exception) as b:
                # a model or the executor met a value shape it does not handle: inconclusive, never a verdict
                import traceback
                tb = traceback.extract_tb(b.__traceback__)[-1]
                results.append(PathResult('error', st, msg=f'{type(b).__name__}: {b} ({os.path.basename(tb.filename)}:{tb.lineno}) @ ' + self._where(st)))
                return

    def _where(self, st):
        for fr in reversed(st.frames):
            if isinstance(fr, Frame):
                return f'{fr.fn.canon}:{fr.bb}[{fr.idx}]'
        return '?'

    # ------------------------------------------------------------ stepping
    def step(self, st):
        fr = st.frames[-1]
        if isinstance(fr, NativeFrame):
            snap = st.clone()
            snap.choices = dict(st.choices)
            rv = fr.pending
            fr.pending = START
            try:
                self.conts[fr.handler](st, fr, rv)
            except Fork as fk:
                fk.base = snap
                raise
            return
        blk = fr.fn.blocks[fr.bb]
        if fr.idx < len(blk.stmts):
            s = blk.stmts[fr.idx]
            if TRACE > 1:
                print('   ', fr.fn.canon.split('::')[-1], fr.bb, fr.idx, s)
            self.exec_stmt(st, fr, s)
            fr.idx += 1
        else:
            if TRACE:
                print('  T', fr.fn.canon.split('::')[-1], fr.bb, blk.term[:3] if blk.term[0] == 'call' else blk.term)
            self.exec_term(st, fr, blk.term)

    def goto(self, st, fr, bb):
        fr.bb = bb
        fr.idx = 0
        v = fr.visits.get(bb, 0) + 1
        fr.visits[bb] = v
        if v > self.unroll:
            st.status = 'unroll'
            raise UnrollExceeded(bb)

    # ------------------------------------------------------------ places
    def lv(self, st, fr, pl):
        cur = SlotLV(fr.locals, pl.local, fr.fn.locals.get(pl.local))
        curty = fr.fn.locals.get(pl.local)
        for p in pl.proj:
            k = p[0]
            if k == 'deref':
                v = cur.get(st)
                if isinstance(v, Ptr):
                    cur = SlotLV(v.cont, v.key, getattr(v, 'ty', None))
                elif isinstance(v, Struct) and 'data' in v.fields and isinstance(v.fields['data'], Cell):
                    cur = SlotLV(v.fields['data'], 0, None)
                else:
                    raise Unsupported(f'deref of {type(v).__name__} {v!r}'[:200])
            elif k == 'field':
                v = cur.get(st)
                if isinstance(v, (Struct, EnumView)):
                    cur = SlotLV(v, p[1], p[2])
                elif isinstance(v, Enum):
                    # single-variant access without downcast does not occur; treat as bug
                    raise ExecBug('field of enum without downcast')
                elif isinstance(v, Ptr) and p[1] == 0:
                    # Box<T>/Unique<T>/NonNull internals – treat field 0 of a pointer as itself
                    cur = ValLV(v)
                else:
                    raise Unsupported(f'field .{p[1]} of {type(v).__name__} ({p[2]})')
            elif k == 'downcast':
                v = cur.get(st)
                if isinstance(v, Struct) and '__state' in v.fields:
                    # coroutine body: a local saved across a suspension point lives at (variant, field) - rustc's remap gives
                    # every saved local exactly one such place
                    cur = ValLV(EnumView(v, p[1]))
                    continue
                if not isinstance(v, Enum):
                    raise Unsupported(f'downcast of {type(v).__name__}')
                cur = ValLV(EnumView(v, p[1]))
            elif k == 'index':
                seq = cur.get(st)
                iv = fr.locals[p[1]]
                seq = self._as_seq(st, seq)
                n = seq.length(st)
                i = st.concretize(iv.v, 0, n - 1, 'index')
                cur = SlotLV(seq, i, seq.elem_ty)
            elif k == 'constindex':
                seq = self._as_seq(st, cur.get(st))
                i = p[1]
                if i < 0:
                    i = seq.length(st) + i
                cur = SlotLV(seq, i, seq.elem_ty)
            elif k == 'subslice':
                seq = self._as_seq(st, cur.get(st))
                n = seq.length(st)
                a, b = p[1], p[2]
                hi = n + b if b <= 0 else b
                cur = ValLV(SeqView(seq, a, hi))
            else:
                raise Unsupported('projection ' + k)
        return cur

    @staticmethod
    def _drop_bufw(v):
        from .models_fs import BufW, file_write
        if isinstance(v, BufW) and v.buf:
            file_write(v.h, v.buf)
            v.buf = []

    def _as_seq(self, st, v):
        if isinstance(v, (Seq, SeqView)):
            return v
        if isinstance(v, Ptr):
            return self._as_seq(st, v.load(st))
        raise Unsupported(f'index into {type(v).__name__}')

    def read(self, st, fr, pl):
        return self.lv(st, fr, pl).get(st)

    # ------------------------------------------------------------ operands
    def operand(self, st, fr, op):
        k = op[0]
        if k == 'copy':
            v = self.read(st, fr, op[1])
            return copy_val(v)
        if k == 'move':
            return self.read(st, fr, op[1])
        if k == 'const':
            return self.const(st, fr, op[1])
        if k == 'fnitem':
            return FnItem(op[1])
        raise Unsupported('operand ' + k)

    CONST_INT = re.compile(r'^(-?\d+)_(u8|u16|u32|u64|u128|usize|i8|i16|i32|i64|i128|isize)$')
    CONST_FLT = re.compile(r'^([-+]?(?:\d+\.?\d*(?:[eE][-+]?\d+)?|inf|NaN))(f32|f64)$')

    def const(self, st, fr, txt):
        m = self.CONST_INT.match(txt)
        if m:
            w, s = INT[m.group(2)]
            return Int(z3.BitVecVal(int(m.group(1)), w), s)
        if txt == 'true':
            return z3.BoolVal(True)
        if txt == 'false':
            return z3.BoolVal(False)
        if txt == '()':
            return UNIT
        m = self.CONST_FLT.match(txt)
        if m:
            sort = z3.Float32() if m.group(2) == 'f32' else z3.Float64()
            t = m.group(1)
            if t in ('inf', '+inf'):
                return Flt(z3.fpPlusInfinity(sort))
            if t == '-inf':
                return Flt(z3.fpMinusInfinity(sort))
            if t == 'NaN':
                return Flt(z3.fpNaN(sort))
            import struct as _s
            x = float(t)
            if m.group(2) == 'f32':
                bits = _s.unpack('<I', _s.pack('<f', x))[0]
                return Flt(z3.fpBVToFP(z3.BitVecVal(bits, 32), sort))
            bits = _s.unpack('<Q', _s.pack('<d', x))[0]
            return Flt(z3.fpBVToFP(z3.BitVecVal(bits, 64), sort))
        if txt.startswith('"'):
            return Ptr(Cell(val=Str(text=_unescape(txt[1:-1]))), 0)
        if txt.startswith('b"'):
            bs = _unescape_bytes(txt[2:-1])
            return Ptr(Cell(val=Seq('u8', [Int(z3.BitVecVal(b, 8), False) for b in bs])), 0)
        if txt.startswith("'") and txt.endswith("'"):
            c = _unescape(txt[1:-1])
            return Int(z3.BitVecVal(ord(c), 32), False)
        if txt.startswith('ZeroSized: '):
            t = txt[11:].strip()
            return Struct(t, {}) if t.startswith('{closure@') else Opaque('zst', t)
        if 'promoted[' in txt:
            return self.promoted(st, fr, txt)
        m = re.search(r'(?:^|::|<impl )(u8|u16|u32|u64|u128|usize|i8|i16|i32|i64|i128|isize)>?::(MAX|MIN|BITS)$', txt)
        if m:
            w, s = INT[m.group(1)]
            if m.group(2) == 'BITS':
                return Int(z3.BitVecVal(w, 32), False)
            if m.group(2) == 'MAX':
                return Int(z3.BitVecVal((1 << (w - 1)) - 1 if s else (1 << w) - 1, w), s)
            return Int(z3.BitVecVal(-(1 << (w - 1)) if s else 0, w), s)
        m = re.search(r'(?:^|::|<impl )(f32|f64)>?::(MAX|MIN|INFINITY|NEG_INFINITY|NAN|EPSILON|MIN_POSITIVE)$', txt)
        if m:
            import struct as _s
            sort = z3.Float32() if m.group(1) == 'f32' else z3.Float64()
            k = m.group(2)
            if k == 'INFINITY':
                return Flt(z3.fpPlusInfinity(sort))
            if k == 'NEG_INFINITY':
                return Flt(z3.fpMinusInfinity(sort))
            if k == 'NAN':
                return Flt(z3.fpNaN(sort))
            f32 = m.group(1) == 'f32'
            val = {'MAX': 3.4028234663852886e38 if f32 else 1.7976931348623157e308, 'MIN': -3.4028234663852886e38 if f32 else -1.7976931348623157e308,
                   'EPSILON': 1.1920929e-07 if f32 else 2.220446049250313e-16, 'MIN_POSITIVE': 1.17549435e-38 if f32 else 2.2250738585072014e-308}[k]
            bits = _s.unpack('<I', _s.pack('<f', val))[0] if f32 else _s.unpack('<Q', _s.pack('<d', val))[0]
            return Flt(z3.fpBVToFP(z3.BitVecVal(bits, 32 if f32 else 64), sort))
        m = re.match(r'^\{(alloc\d+): &', txt)
        if m:
            # reference to a static item: the check supplies the object (`static NAME`), otherwise it stays opaque
            name = self.prog.statics.get(m.group(1))
            h = self.extra_models.get('static ' + str(name).split('::')[-1])
            if h:
                return h(st)
            return Opaque('const', txt)
        # unit-like enum variant / named constant of this crate
        c = strip_generics(txt)
        segs = c.split('::')
        if len(segs) >= 2:
            en, vn = segs[-2], segs[-1]
            idx = self.prog.variant_index(en, vn)
            if idx is not None:
                return Enum(en, idx, {}, variant=vn)
        f = self.prog.consts.get(c) or self.prog.consts.get(segs[-1])
        if f is not None:
            return self.eval_const_fn(f)
        h = self.extra_models.get('const ' + c)
        if h:
            return h(st)
        return Opaque('const', txt)

    def promoted(self, st, fr, txt):
        # `raft::RaftNode::handle_request_vote::promoted[23]`
        m = re.search(r'promoted\[(\d+)\]$', txt)
        owner = fr.fn.canon
        # a promoted of the *current* function (closures: own name)
        key = f'{owner}::promoted[{m.group(1)}]'
        f = self.prog.promoted.get(key)
        if f is None:
            # match on the textual owner given in the operand
            t = strip_generics(txt)
            cands = [g for c, g in self.prog.promoted.items() if c.endswith(t.split('::', 1)[-1])]
            f = cands[0] if cands else None
        if f is None:
            return Opaque('promoted', txt)
        return self.eval_const_fn(f)

    def eval_const_fn(self, f):
        if f.name in self.const_cache:
            return self.const_cache[f.name]
        sub = State(self)
        root = Cell()
        self.push_fn(sub, f, [], SlotLV(root, 0), None)
        try:
            n = 0
            while sub.frames:
                sub.choice_pos = 0
                sub.label_seen = {}
                self.step(sub)
                n += 1
                if n > 5000:
                    raise Unsupported('const eval too long')
            v = root.val
        except (Fork, Panic, Unsupported, ExecBug, Infeasible) as e:
            v = Opaque('const-unevaluable', f.name + ': ' + str(e)[:100])
        self.const_cache[f.name] = v
        return v

    # ------------------------------------------------------------ statements
    def exec_stmt(self, st, fr, s):
        k = s[0]
        if k == 'nop':
            return
        if k == 'assign':
            v = self.rvalue(st, fr, s[2], s[1])
            self.lv(st, fr, s[1]).set(v, st)
            return
        if k == 'setdisc':
            e = self.read(st, fr, s[1])
            if isinstance(e, Struct) and '__state' in e.fields:
                e.fields['__state'] = s[2]          # state of an `async fn` body (coroutine lowered to a state machine)
                return
            if not isinstance(e, Enum):
                raise Unsupported('setdisc on non-enum')
            e.disc = s[2]
            e.variant = None
            return
        raise Unsupported('statement: ' + str(s[1])[:120])

    def dest_type(self, fr, pl):
        if not pl.proj:
            return fr.fn.locals.get(pl.local)
        last = pl.proj[-1]
        if last[0] == 'field':
            return last[2]
        return None

    def rvalue(self, st, fr, rv, dest):
        k = rv[0]
        if k == 'use':
            return self.operand(st, fr, rv[1])
        if k == 'ref':
            lv = self.lv(st, fr, rv[2])
            if isinstance(lv, SlotLV):
                # make sure lazily created targets exist so that aliasing is stable
                return Ptr(lv.cont, lv.key) if not isinstance(lv.cont, (Struct, EnumView, Enum)) else TypedPtr(lv.cont, lv.key, lv.ty)
            return lv.ptr()
        if k == 'binop':
            a = self.operand(st, fr, rv[2])
            b = self.operand(st, fr, rv[3])
            return self.binop(st, rv[1], a, b)
        if k == 'unop':
            a = self.operand(st, fr, rv[2])
            return self.unop(st, rv[1], a)
        if k == 'cast':
            a = self.operand(st, fr, rv[1])
            return self.cast(st, a, rv[2], rv[3])
        if k == 'discriminant':
            e = self.read(st, fr, rv[1])
            while isinstance(e, Ptr):
                e = e.load(st)      # a reference that was passed with one level of indirection too many (map-slot pointers)
            ty = parse_type(self.dest_type(fr, dest) or 'isize')
            w, sg = (ty.n, ty.mut) if ty.kind == 'int' else (64, True)
            if isinstance(e, Struct) and '__state' in e.fields:
                return Int(z3.BitVecVal(e.fields['__state'], w), sg)
            if not isinstance(e, Enum):
                raise Unsupported(f'discriminant of {type(e).__name__}')
            if isinstance(e.disc, int):
                return Int(z3.BitVecVal(e.disc, w), sg)
            return Int(z3.simplify(z3.Extract(w - 1, 0, e.disc)) if w < 64 else e.disc, sg)
        if k == 'len':
            seq = self._as_seq(st, self.read(st, fr, rv[1]))
            return Int(z3.BitVecVal(seq.length(st), 64), False)
        if k == 'aggregate':
            return self.aggregate(st, fr, rv, dest)
        if k == 'repeat':
            v = self.operand(st, fr, rv[1])
            n = rv[2]
            m = re.match(r'^(?:const )?(\d+)(_usize)?$', n)
            if not m:
                c = self.const(st, fr, n.replace('const ', ''))
                if isinstance(c, Int) and z3.is_bv_value(c.v):
                    cnt = c.v.as_long()
                else:
                    raise Unsupported('repeat count ' + n)
            else:
                cnt = int(m.group(1))
            if cnt > 4096:
                raise Unsupported('repeat count too large')
            return Seq(None, [copy_val(v) for _ in range(cnt)])
        if k == 'shallowbox':
            return self.operand(st, fr, rv[1])
        if k == 'unknown':
            raise Unsupported('rvalue: ' + rv[1][:100])
        raise Unsupported('rvalue kind ' + k)

    def aggregate(self, st, fr, rv, dest):
        kind, path, ops = rv[1], rv[2], rv[3]
        if kind == 'array':
            return Seq(None, [self.operand(st, fr, o) for o in ops])
        if kind == 'tuple':
            vals = [self.operand(st, fr, o) for o in ops]
            return Struct(self.dest_type(fr, dest) or 'tuple', dict(enumerate(vals)))
        if kind == 'closure':
            vals = [self.operand(st, fr, o[1]) for o in ops]
            return Struct(path, dict(enumerate(vals)))
        named = kind == 'adtnamed'
        vals = [self.operand(st, fr, (o[1] if named else o)) for o in ops]
        c = strip_generics(path)
        segs = c.split('::')
        if len(segs) >= 2:
            idx = self.prog.variant_index(segs[-2], segs[-1])
            if idx is not None:
                return Enum(self.dest_type(fr, dest) or segs[-2], idx,
                            {(segs[-1], i): v for i, v in enumerate(vals)}, variant=segs[-1])
        ty = self.dest_type(fr, dest) or c
        try:
            tn = parse_type(ty).name
        except Exception:
            tn = None
        if tn:
            idx = self.prog.variant_index(tn, segs[-1])
            if idx is not None:
                return Enum(ty, idx, {(segs[-1], i): v for i, v in enumerate(vals)}, variant=segs[-1])
        return Struct(ty, dict(enumerate(vals)))

    # ------------------------------------------------------------ arithmetic
    def binop(self, st, op, a, b):
        if isinstance(a, Flt) or isinstance(b, Flt):
            return self.fbinop(op, a, b)
        if z3.is_bool(a) and z3.is_bool(b):
            r = {'Eq': lambda: a == b, 'Ne': lambda: a != b, 'BitAnd': lambda: z3.And(a, b),
                 'BitOr': lambda: z3.Or(a, b), 'BitXor': lambda: z3.Xor(a, b),
                 'Lt': lambda: z3.And(z3.Not(a), b), 'Le': lambda: z3.Implies(a, b),
                 'Gt': lambda: z3.And(a, z3.Not(b)), 'Ge': lambda: z3.Implies(b, a)}.get(op)
            if r is None:
                raise Unsupported('bool binop ' + op)
            return z3.simplify(r())
        if isinstance(a, Ptr) and isinstance(b, Ptr) and op in ('Eq', 'Ne'):
            same = a.cont is b.cont and a.key == b.key
            return z3.BoolVal(same if op == 'Eq' else not same)
        if not (isinstance(a, Int) and isinstance(b, Int)):
            raise Unsupported(f'binop {op} on {type(a).__name__},{type(b).__name__}')
        x, y, sg, w = a.v, b.v, a.signed, a.width
        if op in ('Shl', 'Shr', 'ShlUnchecked', 'ShrUnchecked'):
            # shift amount may have another width: mask to the width of the lhs (MIR semantics)
            if y.size() != w:
                y = z3.ZeroExt(w - y.size(), y) if y.size() < w else z3.Extract(w - 1, 0, y)
            y = y & z3.BitVecVal(w - 1, w)
            if op.startswith('Shl'):
                return Int(z3.simplify(x << y), sg)
            return Int(z3.simplify(x >> y if sg else z3.LShR(x, y)), sg)
        if y.size() != w:
            raise ExecBug(f'width mismatch in {op}: {w} vs {y.size()}')
        if op in ('Add', 'AddUnchecked'):
            return Int(z3.simplify(x + y), sg)
        if op in ('Sub', 'SubUnchecked'):
            return Int(z3.simplify(x - y), sg)
        if op in ('Mul', 'MulUnchecked'):
            return Int(z3.simplify(x * y), sg)
        if op == 'Div':
            return Int(z3.simplify(x / y if sg else z3.UDiv(x, y)), sg)
        if op == 'Rem':
            return Int(z3.simplify(z3.SRem(x, y) if sg else z3.URem(x, y)), sg)
        if op == 'BitAnd':
            return Int(z3.simplify(x & y), sg)
        if op == 'BitOr':
            return Int(z3.simplify(x | y), sg)
        if op == 'BitXor':
            return Int(z3.simplify(x ^ y), sg)
        if op == 'Eq':
            return z3.simplify(x == y)
        if op == 'Ne':
            return z3.simplify(x != y)
        if op == 'Lt':
            return z3.simplify(x < y if sg else z3.ULT(x, y))
        if op == 'Le':
            return z3.simplify(x <= y if sg else z3.ULE(x, y))
        if op == 'Gt':
            return z3.simplify(x > y if sg else z3.UGT(x, y))
        if op == 'Ge':
            return z3.simplify(x >= y if sg else z3.UGE(x, y))
        if op == 'Cmp':
            lt = (x < y) if sg else z3.ULT(x, y)
            d = z3.If(lt, z3.BitVecVal(-1, 64), z3.If(x == y, z3.BitVecVal(0, 64), z3.BitVecVal(1, 64)))
            d = z3.simplify(d)
            return Enum('Ordering', d.as_signed_long() if z3.is_bv_value(d) else d, {})
        if op in ('AddWithOverflow', 'SubWithOverflow', 'MulWithOverflow'):
            if op[0] == 'A':
                r = x + y
                ov = z3.Not(z3.And(z3.BVAddNoOverflow(x, y, sg), z3.BVAddNoUnderflow(x, y) if sg else True))
            elif op[0] == 'S':
                r = x - y
                ov = z3.Not(z3.And(z3.BVSubNoUnderflow(x, y, sg), z3.BVSubNoOverflow(x, y) if sg else True))
            else:
                r = x * y
                ov = z3.Not(z3.And(z3.BVMulNoOverflow(x, y, sg), z3.BVMulNoUnderflow(x, y) if sg else True))
            return Struct('(int, bool)', {0: Int(z3.simplify(r), sg), 1: z3.simplify(ov)})
        raise Unsupported('binop ' + op)

    def fbinop(self, op, a, b):
        x, y = a.v, b.v
        rm = z3.RNE()
        if op == 'Add':
            return Flt(z3.fpAdd(rm, x, y))
        if op == 'Sub':
            return Flt(z3.fpSub(rm, x, y))
        if op == 'Mul':
            return Flt(z3.fpMul(rm, x, y))
        if op == 'Div':
            return Flt(z3.fpDiv(rm, x, y))
        if op == 'Rem':
            return Flt(z3.fpRem(x, y))
        if op == 'Eq':
            return z3.simplify(z3.fpEQ(x, y))
        if op == 'Ne':
            return z3.simplify(z3.Not(z3.fpEQ(x, y)))
        if op == 'Lt':
            return z3.simplify(z3.fpLT(x, y))
        if op == 'Le':
            return z3.simplify(z3.fpLEQ(x, y))
        if op == 'Gt':
            return z3.simplify(z3.fpGT(x, y))
        if op == 'Ge':
            return z3.simplify(z3.fpGEQ(x, y))
        raise Unsupported('float binop ' + op)

    def unop(self, st, op, a):
        if op == 'Not':
            if z3.is_bool(a):
                return z3.simplify(z3.Not(a))
            return Int(z3.simplify(~a.v), a.signed)
        if op == 'Neg':
            if isinstance(a, Flt):
                return Flt(z3.fpNeg(a.v))
            return Int(z3.simplify(-a.v), a.signed)
        if op == 'PtrMetadata':
            seq = self._as_seq(st, a)
            return Int(z3.BitVecVal(seq.length(st), 64), False)
        raise Unsupported('unop ' + op)

    def cast(self, st, a, ty, kind):
        t = parse_type(ty)
        if kind == 'IntToInt':
            if z3.is_bool(a):
                a = Int(z3.If(a, z3.BitVecVal(1, 8), z3.BitVecVal(0, 8)), False)
            if isinstance(a, Enum):
                a = Int(z3.BitVecVal(a.disc, 64) if isinstance(a.disc, int) else a.disc, True)
            if t.kind == 'char':
                w, sg = 32, False
            elif t.kind == 'int':
                w, sg = t.n, t.mut
            else:
                raise Unsupported('IntToInt to ' + ty)
            v = a.v
            if v.size() > w:
                v = z3.Extract(w - 1, 0, v)
            elif v.size() < w:
                v = z3.SignExt(w - v.size(), v) if a.signed else z3.ZeroExt(w - v.size(), v)
            return Int(z3.simplify(v), sg)
        if kind.startswith('PointerCoercion') or kind in ('PtrToPtr', 'Transmute', 'Subtype'):
            if kind == 'Transmute':
                if isinstance(a, Flt) and t.kind == 'int':
                    return Int(z3.simplify(z3.fpToIEEEBV(a.v)), t.mut)
                if isinstance(a, Int) and t.kind == 'float':
                    return Flt(z3.fpBVToFP(a.v, z3.Float32() if t.n == 32 else z3.Float64()))
                if isinstance(a, Int) and t.kind == 'int' and t.n == a.width:
                    return Int(a.v, t.mut)
            return a
        if kind == 'IntToFloat':
            sort = z3.Float32() if t.n == 32 else z3.Float64()
            return Flt(z3.fpSignedToFP(z3.RNE(), a.v, sort) if a.signed else z3.fpUnsignedToFP(z3.RNE(), a.v, sort))
        if kind == 'FloatToFloat':
            sort = z3.Float32() if t.n == 32 else z3.Float64()
            return Flt(z3.fpFPToFP(z3.RNE(), a.v, sort))
        if kind == 'FloatToInt':
            return float_to_int_sat(a, t.n, t.mut)
        raise Unsupported('cast ' + kind)

    # ------------------------------------------------------------ terminators
    def exec_term(self, st, fr, t):
        k = t[0]
        if k == 'goto':
            return self.goto(st, fr, t[1])
        if k == 'switch':
            v = self.operand(st, fr, t[1])
            return self.switch(st, fr, v, t[2])
        if k == 'return':
            return self.do_return(st, fr.locals.get(0, UNIT))
        if k == 'drop':
            if not t[1].proj and t[1].local in fr.locals:
                from .models_std import release
                release(st, fr.locals[t[1].local])
                self._drop_bufw(fr.locals[t[1].local])
            elif t[1].proj and t[1].proj[-1][0] == 'field' and 'BufWriter' in str(t[1].proj[-1][2]):
                # `self.file = BufWriter::new(..)` drops the old writer first: BufWriter's Drop flushes what is buffered
                self._drop_bufw(self.read(st, fr, t[1]))
            return self.goto(st, fr, t[2])
        if k == 'assert':
            c = self.operand(st, fr, t[1])
            if not t[2]:
                c = z3.Not(c)
            ok = st.branch(c, 'assert')
            if ok:
                return self.goto(st, fr, t[4])
            raise Panic('assert: ' + t[3][:80])
        if k == 'call':
            return self.do_call(st, fr, t)
        if k == 'unreachable':
            raise Infeasible()
        if k == 'unknown':
            raise Unsupported('terminator: ' + t[1][:120])
        raise Unsupported('terminator ' + k)

    def switch(self, st, fr, v, targets):
        if z3.is_bool(v):
            cond_of = lambda val: (v if val != 0 else z3.Not(v))
            w = None
        elif isinstance(v, Int):
            w = v.width
            cond_of = lambda val: v.v == z3.BitVecVal(val, w)
        elif isinstance(v, Enum):
            d = v.disc if not isinstance(v.disc, int) else z3.BitVecVal(v.disc, 64)
            cond_of = lambda val: d == z3.BitVecVal(val, 64)
        else:
            raise Unsupported(f'switch on {type(v).__name__}')
        alts = []
        others = []
        for key, bb in targets.items():
            if key == 'otherwise':
                continue
            c = z3.simplify(cond_of(int(key)))
            others.append(c)
            if z3.is_false(c):
                continue
            alts.append((c, bb))
        if 'otherwise' in targets:
            c = z3.simplify(z3.Not(z3.Or(others))) if others else z3.BoolVal(True)
            if not z3.is_false(c):
                alts.append((c, targets['otherwise']))
        # concrete?
        for c, bb in alts:
            if z3.is_true(c):
                return self.goto(st, fr, bb)
        feas = [(c, bb) for c, bb in alts if st.feasible(c)]
        if not feas:
            raise Infeasible()
        i = st.choose(len(feas), 'switch', key=('sw',) + tuple(c.get_id() for c, _ in feas), keep=[c for c, _ in feas])
        st.assume(feas[i][0])
        return self.goto(st, fr, feas[i][1])

    def do_return(self, st, v):
        fr = st.frames.pop()
        self.finish_call(st, fr, v)

    def finish_call(self, st, fr, v):
        """deliver return value `v` of popped frame `fr` to its caller."""
        if not st.frames:
            st.retval = v
            if fr.dest is not None:
                fr.dest.set(v, st)
            st.status = 'return'
            return
        caller = st.frames[-1]
        if isinstance(caller, NativeFrame):
            caller.pending = v
            return
        if fr.dest is not None:
            fr.dest.set(v, st)
        if fr.ret_bb is None:
            raise Infeasible()   # diverging call returned: cannot happen
        self.goto(st, caller, fr.ret_bb)

    def native_return(self, st, nf, v):
        """a NativeFrame finished with value v"""
        assert st.frames[-1] is nf
        st.frames.pop()
        self.finish_call(st, nf, v)

    def push_fn(self, st, f, args, dest, ret_bb, cont=None):
        loc = Locals()
        if len(args) != len(f.params):
            # closures called through Fn* traits receive (env, (args,)) – spread the tuple
            if len(f.params) >= 1 and len(args) == 2 and isinstance(args[1], Struct) and len(f.params) == 1 + len(args[1].fields):
                args = [args[0]] + [args[1].fields[i] for i in range(len(args[1].fields))]
            else:
                raise Unsupported(f'arity mismatch calling {f.canon}: {len(args)} vs {len(f.params)}')
        for (p, ty), a in zip(f.params, args):
            loc[p] = a
        nf = Frame(f, loc, dest, ret_bb, cont)
        st.frames.append(nf)
        self.fns_executed.add(f.canon)
        if len(st.frames) > 60:
            raise Unsupported('call depth')

    def do_call(self, st, fr, t):
        _, dest, callee, argops, ret_bb = t
        args = [self.operand(st, fr, a) for a in argops]
        destlv = self.lv(st, fr, dest) if dest is not None else None
        dest_ty = self.dest_type(fr, dest) if dest is not None else None
        self.invoke(st, callee, args, destlv, ret_bb, dest_ty, fr)

    def invoke(self, st, callee, args, destlv, ret_bb, dest_ty=None, fr=None):
        """dispatch a call: per-check override, model, MIR body, else unsupported."""
        for gp, conc_ty in self.generic_subst.items():
            if f'<{gp} as ' in callee:
                callee = callee.replace(f'<{gp} as ', f'<{conc_ty} as ')
        c = canon_callee(callee)
        ctx = CallCtx(self, st, callee, c, args, destlv, ret_bb, dest_ty, fr)
        h = self.extra_models.get(c)
        if h is None:
            h = self.models.get(c)
        f = None
        if h is None or getattr(h, 'prefer_mir', False):
            f = self.prog.resolve(callee)
            if f is None and c.startswith('<{closure@'):
                f = self.prog.closure_fn(c[1:c.index('} as') + 1])
        if f is not None:
            if not f.blocks:
                raise Unsupported('no body: ' + callee)
            self.push_fn(st, f, args, destlv, ret_bb)
            return
        if h is None:
            for pat, fn in self.model_pats:
                if pat.search(c):
                    h = fn
                    break
        if h is None:
            raise Unsupported('call: ' + c)
        self.models_used.add(getattr(h, 'model_name', c))
        r = h(ctx)
        if r is PUSHED:
            return
        if r is DIVERGE:
            raise Infeasible()
        ctx.ret(r)

    def call_value(self, st, fval, args, destlv, ret_bb, handler_frame=None):
        """call a closure / fn item value with python list args (already spread)."""
        if isinstance(fval, Ptr):
            fval = fval.load(st)
        if isinstance(fval, FnItem):
            self.invoke(st, fval.name, args, destlv, ret_bb)
            return
        if isinstance(fval, Struct) and isinstance(fval.ty, str) and fval.ty.startswith('{closure@'):
            f = self.prog.closure_fn(fval.ty)
            if f is None:
                raise Unsupported('closure body not found: ' + fval.ty[:80])
            p0 = f.params[0][1].strip()
            env = fval if not p0.startswith('&') else Ptr(Cell(val=fval), 0)
            self.push_fn(st, f, [env] + list(args), destlv, ret_bb)
            return
        raise Unsupported(f'call of {fval!r}'[:100])


class UnrollExceeded(Unsupported):
    pass


PUSHED = object()
DIVERGE = object()


class CallCtx:
    def __init__(self, ex, st, callee, canon, args, destlv, ret_bb, dest_ty, fr):
        self.ex = ex
        self.st = st
        self.callee = callee
        self.canon = canon
        self.args = args
        self.destlv = destlv
        self.ret_bb = ret_bb
        self.dest_ty = dest_ty
        self.fr = fr

    def ret(self, v):
        top = self.st.frames[-1] if self.st.frames else None
        if isinstance(top, NativeFrame) and self.ret_bb is None and self.destlv is None:
            # a fn item / modelled function called by a native consumer (e.g. `.map(UndoEntry::checksum)`): hand the
            # value to that frame, exactly as a returning MIR frame would
            top.pending = v if v is not None else UNIT
            return
        if self.destlv is not None:
            self.destlv.set(v if v is not None else UNIT, self.st)
        if self.ret_bb is None:
            raise Infeasible()
        self.ex.goto(self.st, self.st.frames[-1], self.ret_bb)

    def generics(self):
        return turbofish_args(self.callee)

    def native(self, handler, data):
        """push a NativeFrame that will deliver its result to this call's destination."""
        nf = NativeFrame(handler, data, self.destlv, self.ret_bb)
        self.st.frames.append(nf)
        return PUSHED


class TypedPtr(Ptr):
    """pointer into a lazily typed container: remembers the field type for lazy creation."""
    __slots__ = ('ty',)

    def __init__(self, cont, key, ty):
        Ptr.__init__(self, cont, key)
        self.ty = ty

    def load(self, st, ty=None):
        return self.cont.load(self.key, self.ty or ty, st)


class SeqView:
    """sub-slice view sharing storage with the parent sequence."""

    def __init__(self, base, lo, hi):
        if isinstance(base, SeqView):
            lo += base.lo
            hi += base.lo
            base = base.base
        self.base = base
        self.lo = lo
        self.hi = hi
        self.elem_ty = base.elem_ty
        self.lazy = None

    def length(self, st):
        return self.hi - self.lo

    def load(self, key, ty, st):
        return self.base.load(self.lo + key, ty, st)

    def store(self, key, v, st):
        self.base.store(self.lo + key, v, st)

    def items(self, st):
        return [self.load(i, None, st) for i in range(self.hi - self.lo)]

    def force(self, st):
        return self.items(st)


def copy_val(v):
    """`copy` of a Copy value: structs/tuples/arrays are duplicated one level deep (recursively)."""
    if isinstance(v, Struct):
        r = Struct(v.ty, {k: copy_val(x) for k, x in v.fields.items()}, v.lazy)
        return r
    if isinstance(v, Enum):
        return Enum(v.ty, v.disc, {k: copy_val(x) for k, x in v.fields.items()}, v.lazy, v.variant)
    if isinstance(v, Seq) and v.elems is not None:
        return Seq(v.elem_ty, [copy_val(x) for x in v.elems], v.lazy, v.maxlen)
    return v


def float_to_int_sat(a, w, signed):
    x = a.v
    rm = z3.RTZ()
    if signed:
        lo, hi = -(1 << (w - 1)), (1 << (w - 1)) - 1
        conv = z3.fpToSBV(rm, x, z3.BitVecSort(w))
    else:
        lo, hi = 0, (1 << w) - 1
        conv = z3.fpToUBV(rm, x, z3.BitVecSort(w))
    srt = x.sort()
    flo = z3.fpSignedToFP(z3.RTZ(), z3.BitVecVal(lo, w + 1), srt) if signed else z3.fpUnsignedToFP(z3.RTZ(), z3.BitVecVal(0, w), srt)
    fhi = z3.fpUnsignedToFP(z3.RTZ(), z3.BitVecVal(hi, w + 1), srt)
    r = z3.If(z3.fpIsNaN(x), z3.BitVecVal(0, w),
              z3.If(z3.fpLEQ(x, flo), z3.BitVecVal(lo, w),
                    z3.If(z3.fpGEQ(x, fhi), z3.BitVecVal(hi, w), conv)))
    return Int(r, signed)


def _unescape(s):
    try:
        return bytes(s, 'utf-8').decode('unicode_escape') if '\\' in s else s
    except Exception:
        return s


def _unescape_bytes(s):
    out = bytearray()
    i = 0
    while i < len(s):
        if s[i] == '\\':
            n = s[i + 1]
            if n == 'x':
                out.append(int(s[i + 2:i + 4], 16))
                i += 4
                continue
            out.append({'n': 10, 'r': 13, 't': 9, '0': 0, '\\': 92, '"': 34, "'": 39}.get(n, ord(n)))
            i += 2
            continue
        out.append(ord(s[i]))
        i += 1
    return bytes(out)
