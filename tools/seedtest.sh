#!/bin/bash
# usage: tools/seedtest.sh <patch.diff> <property-id> [tier]
# applies a seeded change to /repo, runs the check, reverts.  prints: RESULT <id> exit=<rc> detected=<yes|no>
patch="$1"; id="$2"; tier="${3:-quick}"
cd /verif
git -C /repo diff --quiet || { echo "/repo has uncommitted changes"; exit 3; }
git -C /repo apply "$patch" || { echo "patch does not apply"; exit 3; }
out=$(./check "$id" "$tier" 2>&1); rc=$?
git -C /repo checkout -- .
echo "$out" | grep -E "VIOLATION|KNOWN-FINDING|INCONCLUSIVE|^\[$id\]" | head -12
det=no; [ $rc -eq 1 ] && det=yes
echo "RESULT $id exit=$rc detected=$det"
# evidence files were rewritten by a run on a mutated tree: restore the committed ones
git checkout -- evidence 2>/dev/null
