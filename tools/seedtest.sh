#!/bin/bash
# usage: tools/seedtest.sh <patch.diff> <property-id> [tier]
# Applies a seeded change to a scratch worktree of /repo (never to /repo itself), points the check at it
# (VERIF_REPO / VERIF_BUILD / VERIF_EVIDENCE), and prints: RESULT <id> exit=<rc> detected=<yes|no>
# The scratch worktree and its build dir live under /tmp and are removed by tools/seedclean.sh.
patch="$(readlink -f "$1")"; id="$2"; tier="${3:-quick}"
WT=${SEED_WT:-/tmp/verif_seedrepo}; SB=${SEED_BUILD:-/tmp/verif_seedbuild}
cd "$(dirname "$0")/.." || exit 3
if [ ! -d "$WT" ]; then git -C /repo worktree add --detach "$WT" HEAD >/dev/null 2>&1 || { echo "cannot create worktree"; exit 3; }; fi
git -C "$WT" checkout -q --detach "$(git -C /repo rev-parse HEAD)" && git -C "$WT" checkout -- . && git -C "$WT" clean -fdq
git -C "$WT" apply "$patch" || { echo "patch does not apply"; exit 3; }
mkdir -p "$SB/evidence"
out=$(VERIF_REPO="$WT" VERIF_BUILD="$SB" VERIF_EVIDENCE="$SB/evidence" ./check "$id" "$tier" 2>&1); rc=$?
git -C "$WT" checkout -- .
echo "$out" | grep -E "VIOLATION|KNOWN-FINDING|INCONCLUSIVE|^\[$id\]" | head -12
det=no; [ $rc -eq 1 ] && det=yes
echo "RESULT $id exit=$rc detected=$det"
