#!/bin/bash
# re-test every archived seed (and any extra patch given as <patch>:<prop>) ; prints one RESULT line each
cd "$(dirname "$0")/.."
for d in seeded/*/; do
  n=$(basename $d); prop=$(python3 -c "import json;print(json.load(open('$d/meta.json'))['property'])")
  echo "=== $n ($prop)"; tools/seedtest.sh /verif/${d}patch.diff $prop 2>&1 | grep -E "^RESULT|VIOLATION" | head -3
done
for x in "$@"; do
  p=${x%%:*}; prop=${x##*:}
  echo "=== $p ($prop)"; tools/seedtest.sh $p $prop 2>&1 | grep -E "^RESULT|VIOLATION|INCONCLUSIVE" | head -4 | cut -c1-250
done
