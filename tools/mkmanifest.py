#!/usr/bin/env python3
"""regenerates MANIFEST.json from the table below (keeps it schema-valid)."""
import json, os, sys
V = os.path.dirname(os.path.dirname(os.path.abspath(__file__)))
props = [json.loads(l) for l in open(os.path.join(V, 'properties.jsonl'))]
TECH = "bounded symbolic execution of rustc MIR (mirsym) + SMT verdict per path obligation (z3), counterexamples replayed natively"
NOTE = ("trusted: rustc nightly MIR printer, the mirsym executor and its closed list of library models (printed in evidence), z3, "
        "the native replay driver; a pass means no counterexample within evidence.coverage.bounds, nothing outside them")
CLAIMS = {
 'C20': ("codec round trips (varint, delta, id lists, RLE) and decoder totality on arbitrary bytes, for every value within the stated lengths", "§4 C20"),
 'C01': ("per-handler inductive Raft obligations (terms monotone, one vote per term to an up-to-date candidate, persisted before reply; AppendEntries acknowledges/commits only the vouched prefix and matches the leader's entries; leader commit rule; stale responses ignored; election quorum; pre-vote read-only) for every pre-state and message of the bounded shape; the composition into cluster-level safety is the textbook argument, not machine-checked", "§4 C01"),
 'C02': ("durable store, log framing only: every acknowledged log record is read back in order after a crash at any byte of the last record (immediate sync) or at any length above the synced length (manual sync), and after a further append + restart; slab contents/checkpoints are not decided", "§4 C02"),
 'C10': ("RaftWal: crash at every byte of the last record, reopen, append, restart: no acknowledged term/vote/log record is lost; recovery classification returns the last persisted term and vote", "§4 C10"),
 'C13': ("TxWal: same crash obligations as C10; TxRecoveryState::from_entries never resurrects a completed transaction, returns prepared ones with their votes, forgets preparing ones and lists orphaned lock handles exactly", "§4 C13"),
 'C15': ("both real Pratt loops (ExprParser and Parser) executed on symbolic token streams: for every pair of infix operators a OP1 b OP2 c groups per the documented precedence levels and left associativity, prefix operators bind tighter than every infix operator, token->operator map is injective; lexer/totality/depth/text-vs-engine equivalence not decided", "§4 C15"),
 'C17': ("newer-wins kernel is a strict order; the real merge gives the same view for every order/batching/repetition of the same updates; clock and incarnations never regress under any single operation", "§4 C17"),
}
NA = {
 'C05': "graph state lives in TensorStore slabs behind GraphEngine; neither engine can execute it, and the concurrent half needs a scheduler (DESIGN §5)",
 'C08': "whole-database equality across blob store, snapshot bytes, slabs and router (DESIGN §5)",
 'C09': "every clause is about rows/indexes after commit/rollback over engine + slab state (DESIGN §5)",
 'C11': "pure concurrency property of sharded maps; the technique has no scheduler (DESIGN §5)",
 'C14': "BFS over GraphEngine plus AES-GCM/HMAC/Argon2; not an SMT question (DESIGN §5)",
 'C16': "SHA-256/Ed25519 over serialized blocks and store snapshots; atomic commit is store state plus concurrency (DESIGN §5)",
 'C19': "async BlobStore over TensorStore, SHA-256 chunk keys, concurrent GC (DESIGN §5)",
}
checks = []
for pid, (text, ref) in sorted(CLAIMS.items()):
    checks.append({
        "property_id": pid, "quick_cmd": f"./check {pid} quick", "thorough_cmd": f"./check {pid} thorough",
        "evidence_file": f"/verif/evidence/{pid}.json", "replay_cmd_template": "cat {path}",
        "engine": "mirsym", "technique": TECH,
        "level_claimed": {"category": "other", "text": "bounded solver verdict over the real code: " + text, "design_ref": "DESIGN.md " + ref},
        "level_note": NOTE})
na = []
for p in props:
    if p['id'] in CLAIMS:
        continue
    na.append({"property_id": p['id'], "reason": NA.get(p['id'], "check not built yet in this session (planned, see DESIGN.md §4)")})
man = {
 "version": 1, "setup_cmd": "./setup.sh",
 "hooks": {"guard": "neumann_verif", "enable": "cargo feature neumann_verif on tensor_chain (read-only accessors used only by the native replay driver /verif/replay; the MIR dump needs no hooks)",
           "baseline_off_cmd": "cd /repo && cargo nextest run --workspace --no-fail-fast --offline", "source_commits": ["80aaab17"], "add_only": True},
 "engines": [{"name": "mirsym", "path": "/verif/mirsym", "serves_properties": sorted(CLAIMS),
              "kind_free_text": "symbolic execution of the MIR rustc prints for the current tree; z3 decides every path obligation; native replay driver (/verif/replay) for translator validation and counterexample confirmation"}],
 "checks": checks, "not_applicable": na,
 "notes": "exit 0 held within bounds; 1 replayed violation; 2 inconclusive (unsupported construct, bound exhausted, solver unknown, replay mismatch)"}
json.dump(man, open(os.path.join(V, 'MANIFEST.json'), 'w'), indent=1)
try:
    import jsonschema
    jsonschema.validate(man, json.load(open('/root/.vp/MANIFEST.schema.json')))
    print('MANIFEST valid;', len(checks), 'claimed')
except ImportError:
    print('written (not validated)')
