#!/usr/bin/env python3
"""regenerates MANIFEST.json from the table below (keeps it schema-valid)."""
import json, os, sys
V = os.path.dirname(os.path.dirname(os.path.abspath(__file__)))
props = [json.loads(l) for l in open(os.path.join(V, 'properties.jsonl'))]
TECH = "bounded symbolic execution of rustc MIR (mirsym) + SMT verdict per path obligation (z3), counterexamples replayed natively"
TECH_C04 = TECH + "; SIMD i64 kernels: Kani/CBMC bounded model checking of the compiled code"
NOTE = ("trusted: rustc nightly MIR printer, the mirsym executor and its closed list of library models (printed in evidence), z3, "
        "the native replay driver; a pass means no counterexample within evidence.coverage.bounds, nothing outside them")
CLAIMS = {
 'C11': ("durability-order clause only ('the order in which concurrent writes become durable is the order in which they took effect in memory'): SlabRouter::put_durable / delete_durable, with the real TensorWal behind the log mutex, apply a durable write in memory exactly once, after its record is in the log and while the log lock taken for that append is still held - a sufficient condition that rules out any second durable write being logged and applied in between; linearizability of the sharded maps (reads never see unwritten, mixed or stale values), scans, non-durable writes racing durable ones and the engines layered on top are not decided", "§4 C11"),
 'C19': ("reference-count kernel only (the clauses 'deleting one artifact never damages another that shares content' and 'only unreferenced chunks are collectable' at the level of the stored counts): BlobWriter::store_chunk, gc::{increment_chunk_refs, decrement_chunk_refs} and integrity::delete_artifact over the key/value contract of the store keep 'every stored chunk's count equals the number of references to it (artifact chunk lists plus a writer's stored chunks)' after one operation from every bounded state, and after two operations where one runs entirely inside a count read-modify-write window of the other; the collector (async), byte-exact reads, streaming, checksums, verify/repair and real hashing are not decided", "§4 C19"),
 'C05': ("adjacency bookkeeping of create_edge / delete_edge / delete_node (with add_edge_to_list, remove_edge_from_list, extract_edge_ids, get_edge, get_node) executed over the key/value contract of the store: one operation from every consistent graph of 2 (3) nodes and 0..2 edges (directed/undirected, self-loops, parallel edges) keeps 'every edge is listed by both endpoints in the right lists, every listed id is an existing edge touching the node, endpoints exist', deleting a node removes its edges; and two threads where one create_edge runs entirely inside the k-th adjacency read-modify-write window of the other's create_edge/delete_edge (k = 0..3) still leave a consistent graph; node/edge updates, traversal and neighbor queries, batch operations, other interleavings and more than two threads are not decided", "§4 C05"),
 'C18': ("priority-queue order of the weighted search only: DijkstraEntry::cmp is a total order over every f64 bit pattern, cheapest first, ties by id, partial_cmp consistent; the searches themselves are not decided", "§4 C18"),
 'C20': ("codec round trips (varint incl. long lists with one arbitrary value, delta, id lists sorted and unsorted, RLE), decoder totality on arbitrary bytes, TCP frame v1/v2 encode/decode inverse with the size limit, for every value within the stated lengths", "§4 C20"),
 'C01': ("per-handler inductive Raft obligations (terms monotone, one vote per term to an up-to-date candidate, persisted before reply, vote never changed within a term by any handler; AppendEntries acknowledges/commits only the vouched prefix and matches the leader's entries; leader commit rule; stale responses ignored; election quorum; pre-vote read-only) for every pre-state and message of the bounded shape; the composition into cluster-level safety is the textbook argument, not machine-checked", "§4 C01"),
 'C02': ("durable store, log level: every acknowledged log record is read back in order after a crash at any byte of the last record (immediate sync) or at any length above the synced length (manual sync), after a further append + restart, and across truncate() (checkpoint step), batched sync, and automatic rotation (one known finding: records moved to a rotated file are not replayed); put_durable/delete_durable write and fsync the record before the in-memory apply and do not apply on a log error; slab contents, snapshots and recovery of the store image are not decided", "§4 C02"),
 'C03': ("coordinator decision rules, one call from an arbitrary pending table (Prepared only from Preparing with a Yes from every participant, Aborting only when all voted and a vote is not Yes or a cross-shard conflict was found, commit only from Prepared with TxComplete logged before any lock release, recorded votes never replaced, errors change nothing, timeouts abort once, Yes-vote lock handles released) and participant handlers over the store's key/value contract (prepare applies nothing, commit applies exactly the prepared writes, abort/stale cleanup leave every key as it was, locks released; one known finding: a second prepare is granted on a key of a still-prepared transaction after the lock TTL); message interleavings across shards are not decided", "§4 C03"),
 'C04': ("index key encodings vs the row-level predicate for every Int/Float/Bool/Null pair (hash-index and ordered-index lookups are complete), OrderedFloat total preorder, and the vectorised filters bit for bit against the scalar predicate (f64 kernels in the MIR executor, i64 kernels and bitmap ops under Kani); plan equivalence over engine state is not decided", "§4 C04"),
 'C06': ("stored-representation round trip only: to_dense(try_from_dense(v)) for every f32 bit pattern up to the stated dimension, representation invariants; scores/top-k/HNSW/cache not decided", "§4 C06"),
 'C07': ("snapshot header codec only: raw round trip, validate accepts exactly the v3 magic + current version, every single-bit flip in magic/version rejected; slab contents and rename atomicity not decided", "§4 C07"),
 'C09': ("row-lock kernel only (the clauses 'no other transaction can modify a locked row' and 'locks disappear when the owner ends or times out' at the lock table): RowLockManager try_lock refuses exactly live foreign locks and grants all-or-nothing, release/expiry remove exactly the owner's/expired entries, is_locked/lock_holder are truthful, the reverse-index invariant is preserved - from every table of the bounded shape; all-or-nothing commit/rollback over rows and indexes, TransactionManager and the engine's locking discipline are not decided", "§4 C09"),
 'C10': ("RaftWal: crash at every byte of the last record, reopen, append, restart: no acknowledged term/vote/log record is lost; recovery classification returns the last persisted term and vote; node level with the real WAL behind the real handlers: after handle_request_vote/start_election/handle_append_entries the term, vote and log rebuilt by the real from_wal equal the in-memory ones, and an entry accepted by propose / propose_codebook_replace on a leader is in the rebuilt log (crash is the only fault); one known finding: an installed snapshot is not in the log file", "§4 C10"),
 'C12': ("sequential lock-table and wait-graph bookkeeping from an arbitrary table satisfying the representation invariant: conflicts refused with nothing acquired, grants all-or-nothing under a fresh handle, release/expiry leave nothing behind, invariant preserved, forward/reverse wait edges stay mirror images, detect_cycles reports a cycle exactly when the recorded edges of a graph on up to 3 transactions contain one, would_create_cycle is exact, victim is a member of the cycle; thread interleavings and larger graphs are not decided", "§4 C12"),
 'C13': ("TxWal: same crash obligations as C10; TxRecoveryState::from_entries never resurrects a completed transaction, returns prepared ones with their votes, forgets preparing ones and lists orphaned lock handles exactly; coordinator commit()/abort() with the real TxWal: a crash at any byte of the call recovers either the logged decision or the still-prepared transaction, never the opposite outcome; recover_from_wal rebuilds exactly the pending table the log describes and a recovered prepared transaction can be committed", "§4 C13"),
 'C15': ("both real Pratt loops (ExprParser and Parser) executed on symbolic token streams: for every pair of infix operators a OP1 b OP2 c groups per the documented precedence levels and left associativity, prefix operators bind tighter than every infix operator, token->operator map is injective; lexer/totality/depth/text-vs-engine equivalence not decided", "§4 C15"),
 'C16': ("chain link/validation logic only, with hashes, Merkle roots and signature verdicts opaque per block: Chain::append accepts exactly blocks with height = tip+1, prev_hash = tip hash, matching transaction root and (above height 1) a signature that verifies when keys are registered, then advances height/tip and stores the block, and changes nothing when it refuses; Chain::verify_chain succeeds exactly when every block 1..height is present and passes all link checks; tamper-evidence then rests on the cryptographic assumptions (not checked); workspace commit atomicity, concurrent commits and replica determinism are not decided", "§4 C16"),
 'C17': ("newer-wins kernel is a strict order; the real merge gives the same view for every order/batching/repetition of the same updates; clock and incarnations never regress under any single operation", "§4 C17"),
}
NA = {
 'C08': "whole-database equality across blob store, snapshot bytes, slabs and router (DESIGN §5)",
 'C14': "BFS over GraphEngine plus AES-GCM/HMAC/Argon2; not an SMT question (DESIGN §5)",
}
checks = []
for pid, (text, ref) in sorted(CLAIMS.items()):
    checks.append({
        "property_id": pid, "quick_cmd": f"./check {pid} quick", "thorough_cmd": f"./check {pid} thorough",
        "evidence_file": f"/verif/evidence/{pid}.json", "replay_cmd_template": "cat {path}",
        "engine": "mirsym" if pid != "C04" else "mirsym+kani", "technique": TECH if pid != "C04" else TECH_C04,
        "level_claimed": {"category": "other", "text": "bounded solver verdict over the real code: " + text, "design_ref": "DESIGN.md " + ref},
        "level_note": NOTE})
na = []
for p in props:
    if p['id'] in CLAIMS:
        continue
    na.append({"property_id": p['id'], "reason": NA.get(p['id'], "check not built yet in this session (planned, see DESIGN.md §4)")})
man = {
 "version": 1, "setup_cmd": "./setup.sh",
 "hooks": {"guard": "neumann_verif", "enable": "cargo feature neumann_verif on tensor_chain, relational_engine, graph_engine, tensor_blob, tensor_store (read-only accessors / wrappers used by the native replay driver /verif/replay and the Kani crate /verif/kani; the MIR dump needs no hooks)",
           "baseline_off_cmd": "cd /repo && CARGO_NET_OFFLINE=true cargo nextest run --workspace --no-fail-fast --test-threads 8 --offline", "source_commits": ["80aaab17", "4d5c4419", "8f6898ea", "2dbd5f78", "a50099c1", "2ded86bb", "af699de5", "6914ab45", "96dddefb", "f52b3ed6"], "add_only": True},
 "engines": [{"name": "mirsym", "path": "/verif/mirsym", "serves_properties": sorted(CLAIMS),
              "kind_free_text": "symbolic execution of the MIR rustc prints for the current tree; z3 decides every path obligation; native replay driver (/verif/replay) for translator validation and counterexample confirmation"},
             {"name": "kani", "path": "/verif/kani", "serves_properties": ["C04"], "kind_free_text": "Kani 0.68 / CBMC harnesses over the compiled relational_engine SIMD kernels (feature neumann_verif), unwinding assertions and cover checks on"}],
 "checks": checks, "not_applicable": na,
 "notes": "exit 0 held within bounds; 1 replayed violation; 2 inconclusive (unsupported construct, bound exhausted, solver unknown, replay mismatch)"}
json.dump(man, open(os.path.join(V, 'MANIFEST.json'), 'w'), indent=1)
try:
    import jsonschema
    jsonschema.validate(man, json.load(open('/root/.vp/MANIFEST.schema.json')))
    print('MANIFEST valid;', len(checks), 'claimed')
except ImportError:
    print('written (not validated)')
