#!/bin/bash
# removes the scratch worktree and build dir used by tools/seedtest.sh
git -C /repo worktree remove --force ${SEED_WT:-/tmp/verif_seedrepo} 2>/dev/null; git -C /repo worktree prune
rm -rf ${SEED_BUILD:-/tmp/verif_seedbuild}
