#!/bin/bash
# usage: tools/seedverify.sh <worktree> <cargo test args...>
# confirms in the scratch worktree: demo FAILS with the patch, PASSES without it
wt="$1"; shift
cd "$wt" || exit 3
export CARGO_NET_OFFLINE=true
git apply _seed/patch.diff || { echo "patch does not apply"; exit 3; }
cargo test --offline "$@" > _seed/with.log 2>&1; rc_with=$?
git apply -R _seed/patch.diff
cargo test --offline "$@" > _seed/without.log 2>&1; rc_without=$?
echo "with-patch rc=$rc_with: $(grep -E '^test result' _seed/with.log | tail -1)"
echo "without-patch rc=$rc_without: $(grep -E '^test result' _seed/without.log | tail -1)"
[ $rc_with -ne 0 ] && [ $rc_without -eq 0 ] && echo "SEED-CONFIRMED" || echo "SEED-NOT-CONFIRMED"
