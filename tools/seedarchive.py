#!/usr/bin/env python3
"""usage: seedarchive.py <worktree> <name> <property> <detected_by> <exit> [note]"""
import json, os, shutil, sys
wt, name, prop, det, rc = sys.argv[1:6]
note = sys.argv[6] if len(sys.argv) > 6 else ''
dst = f'/verif/seeded/{name}'
os.makedirs(dst, exist_ok=True)
for f in os.listdir(f'{wt}/_seed'):
    if f.endswith('.log'):
        continue
    shutil.copy(f'{wt}/_seed/{f}', dst)
try:
    meta = json.load(open(f'{dst}/meta.json'))
except Exception:
    meta = {}
meta.update({'property': prop, 'confirmed_by_me': {'demo_fails_with_patch': True, 'demo_passes_without_patch': True,
             'how': 'tools/seedverify.sh in the scratch worktree (cargo test of the demo with and without patch.diff)'},
             'check_result': {'command': f'tools/seedtest.sh seeded/{name}/patch.diff {prop}', 'exit': int(rc), 'detected_by': det, 'note': note}})
json.dump(meta, open(f'{dst}/meta.json', 'w'), indent=1)
print('archived', dst)
