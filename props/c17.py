"""C17 — membership views converge and never move backwards.
supersedes / merge / local transitions executed from tensor_chain's MIR; z3 decides."""
import sys
import os
import itertools
sys.path.insert(0, os.path.dirname(os.path.dirname(os.path.abspath(__file__))))
from props.common import *

ck = Check('C17')
T = ck.tier
ex = ck.executor('tensor_chain', unroll=24, default_maxlen=1)
K_UPD = 2 if T == 'quick' else 3
ck.bounds = {'existing members in view': f'0..{ex.default_maxlen}', 'updates': K_UPD, 'schedules': 'see per_obligation',
             'fields': '64-bit, timestamps and clock < 2^62 (above: the +1 in sync_time/tick overflows – outside the quantifier\'s small ranges)'}
ck.assumptions = ['member ids are abstract identifiers with equality only', 'HashMap iteration order: insertion order (merge iterates the incoming slice, not a map)',
                  'outside: GossipManager wiring, signatures, transport, HLC wall clock (updated_at is not part of the compared view)']
F_ID, F_HEALTH, F_TS, F_UPD, F_INC = 0, 1, 2, 3, 4
LIM = z3.BitVecVal(1 << 62, 64)


def fresh_update(st, name):
    u = st.fresh('GossipNodeState', name)
    u.load(F_ID, 'std::string::String', st)
    u.load(F_HEALTH, 'NodeHealth', st)
    st.assume(z3.ULT(u.load(F_TS, 'u64', st).v, LIM))
    u.load(F_INC, 'u64', st)
    return u


def health_disc(s, st):
    h = s.load(F_HEALTH, 'NodeHealth', st)
    return h.disc if not isinstance(h.disc, int) else z3.BitVecVal(h.disc, 64)


def run_one(st, fname, args):
    st.frames = []
    ex.call(st, fname, args)
    return ex.run(st)


# ------------------------------------------------------------------ G1/G2: the newer-wins kernel
def sup(a, b, st0):
    """all paths of a.supersedes(b): list of (pc, bool term)"""
    st = st0.clone()
    # share objects: look them up in the clone's roots
    res = run_one(st, 'GossipNodeState::supersedes', [ref(st.roots[a]), ref(st.roots[b])])
    ck.note_path_problem(res, 'supersedes')
    out = []
    for r in res:
        if r.status == 'return':
            out.append((r.pc, r.retval))
        elif r.status == 'panic':
            out.append((r.pc, None))
    return out


def sup_term(a, b, st0):
    """single z3 Bool for supersedes(a,b) (the function is loop-free: fold paths into an ite)"""
    paths = sup(a, b, st0)
    t = z3.BoolVal(False)
    base = len(st0.pc)
    for pc, rv in paths:
        if rv is None:
            ck.inconclusive.append('supersedes can panic')
            continue
        t = z3.Or(t, z3.And(z3.And(pc[base:]) if pc[base:] else z3.BoolVal(True), rv))
    return z3.simplify(t)


st0 = ex.new_state()
for nm in ('a', 'b', 'c'):
    st0.roots[nm] = fresh_update(st0, nm)
A, B, C = (st0.roots[x] for x in 'abc')
sab, sba, sbc, sac, saa = (sup_term(x, y, st0) for x, y in (('a', 'b'), ('b', 'a'), ('b', 'c'), ('a', 'c'), ('a', 'a')))
ck.declare('G1_strict_order', 'all 64-bit field values', 'supersedes is irreflexive, asymmetric and transitive')
ck.declare('G2_incarnation', 'all 64-bit field values', 'supersedes(a,b) => a.incarnation >= b.incarnation')
inc = lambda s: s.load(F_INC, 'u64', st0).v
ts = lambda s: s.load(F_TS, 'u64', st0).v
wit3 = lambda m: {n: {'health': mval(m, health_disc(s, st0)), 'ts': mval(m, ts(s)), 'inc': mval(m, inc(s))} for n, s in (('a', A), ('b', B), ('c', C))}
ck.require(ex, 'G1_strict_order', st0.pc, None, z3.Not(saa), wit3, lambda m, w: 'irreflexive')
ck.require(ex, 'G1_strict_order', st0.pc, sab, z3.Not(sba), wit3, lambda m, w: 'asymmetric')
ck.require(ex, 'G1_strict_order', st0.pc, z3.And(sab, sbc), sac, wit3, lambda m, w: 'transitive')
ck.require(ex, 'G2_incarnation', st0.pc, sab, z3.UGE(inc(A), inc(B)), wit3, lambda m, w: 'inc')
ck.sample({'obligation': 'G1 transitive', 'supersedes(a,b)': str(sab)[:200]})

# ------------------------------------------------------------------ G3: order / batching / repetition independence of merge


def view_of(st):
    """[(id term, health disc, incarnation)] of the final membership map"""
    S = st.roots['S'].load(st)
    m = S.load(0, 'std::collections::HashMap<std::string::String, gossip::GossipNodeState>', st)
    m.force(st)
    out = []
    for i, k in enumerate(m.keys):
        v = m.load(i, None, st)
        out.append((k.id, health_disc(v, st), v.load(F_INC, 'u64', st).v, v.load(F_TS, 'u64', st).v))
    return out


def view_eq(va, vb):
    def covers(x, y):
        return z3.And([z3.Or([z3.And(a[0] == b[0], a[1] == b[1], a[2] == b[2]) for b in y]) if y else z3.BoolVal(False) for a in x]) if x else z3.BoolVal(True)
    return z3.And(covers(va, vb), covers(vb, va))


def make_initial():
    st = ex.new_state()
    st.roots['S'] = Ptr(Cell('LWWMembershipState', lazy='S'), 0)
    S = st.roots['S'].load(st)
    st.assume(z3.ULT(S.load(1, 'u64', st).v, LIM))
    ups = []
    for i in range(K_UPD):
        u = fresh_update(st, f'u{i}')
        st.roots[f'u{i}'] = u
        ups.append(u)
    return st


def run_schedule(st0, schedule):
    """deliver batches in order; returns list of final states (all paths)"""
    states = [st0.clone()]
    for batch in schedule:
        nxt = []
        for st in states:
            from mirsym.exec import copy_val
            seq = Seq('GossipNodeState', [st.roots[f'u{i}'] for i in batch])
            res = run_one(st, 'LWWMembershipState::merge', [st.roots['S'], ref(seq)])
            ck.note_path_problem(res, f'merge schedule {schedule}')
            for r in res:
                if r.status == 'return':
                    nxt.append(r.st)
                elif r.status == 'panic':
                    ck.inconclusive.append(f'merge panics within bounds: {r.msg}')
        states = nxt
    return states


init = make_initial()
idx = list(range(K_UPD))
schedules = [[list(p)] for p in itertools.permutations(idx)]
schedules += [[[i] for i in p] for p in itertools.permutations(idx)]
schedules += [[idx + [idx[0]]], [[idx[-1]]] + [idx]]
if T == 'thorough':
    # three updates: every batch order, every one-by-one order, repetition, three split deliveries; one worker process per
    # schedule (path pairs grow with the product of the two schedules' path counts; sequentially this ran past three hours)
    schedules += [[idx[:1], idx[1:]], [idx[:2], idx[2:]], [idx[2:], idx[:2]]]
ck.declare('G3_merge_order_independent', f'{K_UPD} updates, {len(schedules)} delivery schedules (orders, one-by-one, repetition), 0..{ex.default_maxlen} prior members',
           'every schedule of the same update set yields the same (health, incarnation) per member')
ck.declare('G3_no_tie', 'same, updates of one member never tie on (incarnation, timestamp) with different health', 'as G3')
ref_states = run_schedule(init, schedules[0])
ck.notes.append(f'reference schedule {schedules[0]}: {len(ref_states)} paths')
U = [init.roots[f'u{i}'] for i in range(K_UPD)]
S0 = init.roots['S'].load(init)


def tie_shape(st):
    """some pair of states of one member (updates, or update vs pre-existing entry) ties with different health"""
    cs = []
    objs = [st.roots[f'u{i}'] for i in range(K_UPD)]
    S = None
    for a, b in itertools.combinations(objs, 2):
        cs.append(z3.And(a.load(F_ID, None, st).id == b.load(F_ID, None, st).id, a.load(F_INC, None, st).v == b.load(F_INC, None, st).v,
                         a.load(F_TS, None, st).v == b.load(F_TS, None, st).v, health_disc(a, st) != health_disc(b, st)))
    pre = st.symbols
    n = 0
    while f'S.0.k{n}' in pre:
        kid = pre[f'S.0.k{n}'].id
        vh, vi, vt = pre.get(f'S.0.v{n}.1.disc'), pre.get(f'S.0.v{n}.4'), pre.get(f'S.0.v{n}.2')
        if vh is not None and vi is not None and vt is not None:
            for a in objs:
                cs.append(z3.And(a.load(F_ID, None, st).id == kid, a.load(F_INC, None, st).v == vi.v, a.load(F_TS, None, st).v == vt.v,
                                 health_disc(a, st) != vh.v))
        n += 1
    return z3.Or(cs) if cs else z3.BoolVal(False)


def literal_sets(st):
    pos, neg = set(), set()
    for c in st.pc:
        if z3.is_not(c):
            neg.add(c.arg(0).get_id())
        else:
            pos.add(c.get_id())
    return pos, neg


ref_lits = [literal_sets(fa) for fa in ref_states]
ref_views = [view_of(fa) for fa in ref_states]


def compare_schedule(sch):
    pairs = 0
    finals = run_schedule(init, sch)
    fin_lits = [literal_sets(fb) for fb in finals]
    for ia, fa in enumerate(ref_states):
        va = ref_views[ia]
        pa, na = ref_lits[ia]
        for ib, fb in enumerate(finals):
            # joint path condition: both runs start from the same symbolic pre-state
            if not same_shape(fa, fb):
                continue
            pb, nb = fin_lits[ib]
            if (pa & nb) or (na & pb):
                continue          # syntactically contradictory branch decisions: cannot be the same input
            pc = fa.pc + [c for c in fb.pc[len(init.pc):]]
            if ex.solver.check(pc) != z3.sat:
                continue
            pairs += 1
            vb = view_of(fb)
            eq = view_eq(va, vb)

            def wit(m, fa=fa, fb=fb, sch=sch):
                return {'schedule_a': schedules[0], 'schedule_b': sch,
                        'updates': [{'id': mval(m, u.load(F_ID, None, fa).id), 'health': mval(m, health_disc(u, fa)),
                                     'ts': mval(m, u.load(F_TS, None, fa).v), 'inc': mval(m, u.load(F_INC, None, fa).v)}
                                    for u in (fa.roots[f'u{i}'] for i in range(K_UPD))],
                        'pre': {k: mval(m, v.v if isinstance(v, Int) else (v.id if isinstance(v, Str) else v)) for k, v in fa.symbols.items() if k.startswith('S.')},
                        'view_a': [[mval(m, x) for x in e] for e in va], 'view_b': [[mval(m, x) for x in e] for e in vb]}
            tie = tie_shape(fa)
            ck.require(ex, 'G3_merge_order_independent', pc, None, eq, wit, lambda m, w: 'gossip-tie')
            ck.require(ex, 'G3_no_tie', pc, z3.Not(tie), eq, wit, lambda m, w: 'merge-order')
    return pairs


pairs = sum(p or 0 for p in ck.parallel(schedules[1:], compare_schedule, jobs=16 if T == 'thorough' else 4))
ck.notes.append(f'{pairs} jointly satisfiable path pairs compared')

# ------------------------------------------------------------------ G4/G5: monotonicity of clock and incarnations under every operation
ck.declare('G4_monotone', 'one operation from an arbitrary view (0..N members), clock and timestamps < 2^62',
           'lamport clock never decreases; no stored incarnation decreases; no panic')
ck.declare('G5_fail_suspect_keep_incarnation', 'same', 'suspect/fail/mark_healthy never change an incarnation; refute only raises it')
OPS = [('LWWMembershipState::merge', 'merge'), ('LWWMembershipState::suspect', 'suspect'), ('LWWMembershipState::fail', 'fail'),
       ('LWWMembershipState::refute', 'refute'), ('LWWMembershipState::mark_healthy', 'mark_healthy'),
       ('LWWMembershipState::tick', 'tick'), ('LWWMembershipState::sync_time', 'sync_time')]
for fname, op in OPS:
    st = make_initial()
    S = st.roots['S']
    if op == 'merge':
        args = [S, ref(Seq('GossipNodeState', [st.roots[f'u{i}'] for i in range(K_UPD)]))]
    elif op in ('suspect', 'refute'):
        nid = st.fresh('std::string::String', 'arg_id')
        args = [S, ref(nid), st.fresh('u64', 'arg_inc')]
    elif op in ('fail', 'mark_healthy'):
        args = [S, ref(st.fresh('std::string::String', 'arg_id'))]
    elif op == 'tick':
        args = [S]
    else:
        t = st.fresh('u64', 'arg_ts')
        st.assume(z3.ULT(t.v, LIM))
        args = [S, t]
    res = run_one(st, fname, args)
    ck.note_path_problem(res, op)
    for r in res:
        pre = r.st.symbols
        clock0 = pre['S.1'].v if 'S.1' in pre else None
        wit = lambda m, r=r, op=op: {'op': op, 'pre': {k: mval(m, v.v if isinstance(v, Int) else (v.id if isinstance(v, Str) else v)) for k, v in r.st.symbols.items()}}
        # pre-state timestamps below the limit (hypothesis)
        hyp = z3.And([z3.ULT(v.v, LIM) for k, v in pre.items() if k.startswith('S.0.v') and k.endswith('.2')] + [z3.BoolVal(True)])
        if r.status == 'panic':
            ck.require(ex, 'G4_monotone', r.pc, hyp, z3.BoolVal(False), wit, lambda m, w, op=op: op + '-panic')
            continue
        if r.status != 'return':
            continue
        Sf = r.st.roots['S'].load(r.st)
        clock1 = Sf.load(1, 'u64', r.st).v
        concl = [z3.UGE(clock1, clock0) if clock0 is not None else z3.BoolVal(True)]
        keep = []
        m = Sf.fields.get(0)
        if m is not None and m.keys is not None:
            n = 0
            while f'S.0.k{n}' in pre:
                kid = pre[f'S.0.k{n}'].id
                inc0 = pre.get(f'S.0.v{n}.4')
                if inc0 is not None:
                    # the member must still be present with incarnation >= before
                    alts = []
                    same = []
                    for i, k in enumerate(m.keys):
                        v = m.load(i, None, r.st)
                        alts.append(z3.And(k.id == kid, z3.UGE(v.load(F_INC, 'u64', r.st).v, inc0.v)))
                        same.append(z3.And(k.id == kid, v.load(F_INC, 'u64', r.st).v == inc0.v))
                    concl.append(z3.Or(alts) if alts else z3.BoolVal(False))
                    if op in ('suspect', 'fail', 'mark_healthy'):
                        keep.append(z3.Or(same) if same else z3.BoolVal(False))
                n += 1
        ck.require(ex, 'G4_monotone', r.pc, hyp, z3.And(concl), wit, lambda m, w, op=op: op + '-regress')
        if op in ('suspect', 'fail', 'mark_healthy'):
            ck.require(ex, 'G5_fail_suspect_keep_incarnation', r.pc, hyp, z3.And(keep) if keep else z3.BoolVal(True), wit, lambda m, w, op=op: op + '-inc')
ck.obl['G5_fail_suspect_keep_incarnation']['allow_vacuous'] = False

# ------------------------------------------------------------------ G6: a suspicion and the Alive that answers it commute
ck.declare('G6_suspect_and_answering_alive_commute', 'suspect(m, a) and refute(m, b) with b > a (the member answers a suspicion by announcing a higher incarnation), both delivery orders '
           'from the same arbitrary view',
           'both orders end with the same health and incarnation for every member (an Alive that overtakes the Suspect it answers is not lost)')
st = make_initial()
S = st.roots['S']
gid = st.fresh('std::string::String', 'arg_id')
ga, gb = st.fresh('u64', 'arg_inc'), st.fresh('u64', 'arg_inc2')
g6 = 0
def two_ops(first, second):
    outs = []
    c = st.clone()
    for x in run_one(c, 'LWWMembershipState::' + first[0], [c.roots['S'], ref(gid), first[1]]):
        if x.status != 'return':
            ck.note_path_problem([x], f'G6 {first[0]} first')
            continue
        for y in run_one(x.st, 'LWWMembershipState::' + second[0], [x.st.roots['S'], ref(gid), second[1]]):
            if y.status != 'return':
                ck.note_path_problem([y], f'G6 {first[0]},{second[0]}')
                continue
            outs.append(y.st)
    return outs


SF, AF = two_ops(('suspect', ga), ('refute', gb)), two_ops(('refute', gb), ('suspect', ga))
for fa in SF:
    for fb in AF:
        if not same_shape(fa, fb):
            continue
        g6 += 1
        pc = list(fa.pc) + list(fb.pc)
        va, vb = view_of(fa), view_of(fb)
        hyp = z3.And([z3.UGT(gb.v, ga.v)] + [z3.ULT(v.v, LIM) for k, v in fa.symbols.items() if k.startswith('S.0.v') and k.endswith('.2')])
        wit = lambda m, fa=fa, fb=fb, va=va, vb=vb: {'op': 'suspect_alive', 'pre': {k: mval(m, v.v if isinstance(v, Int) else (v.id if isinstance(v, Str) else v)) for k, v in list(fb.symbols.items()) + list(fa.symbols.items())},
                                                     'view_suspect_first': [[mval(m, x) for x in e[:3]] for e in va], 'view_alive_first': [[mval(m, x) for x in e[:3]] for e in vb]}
        ck.require(ex, 'G6_suspect_and_answering_alive_commute', pc, hyp, view_eq(va, vb), wit, lambda m, w: 'suspect-alive-order')
if g6 == 0:
    ck.inconclusive.append('G6: no jointly explorable path pair')

# ------------------------------------------------------------------ native replay of counterexamples
for v in ck.violations:
    w = v['witness']
    if v['obligation'] in ('G1_strict_order', 'G2_incarnation'):
        rep = Replay.call({'op': 'gossip_supersedes', 'states': w})
        k = v['key']
        if k == 'irreflexive':
            v['replayed'] = rep.get('aa') is True
        elif k == 'asymmetric':
            v['replayed'] = rep.get('ab') is True and rep.get('ba') is True
        elif k == 'transitive':
            v['replayed'] = rep.get('ab') is True and rep.get('bc') is True and rep.get('ac') is False
        else:
            v['replayed'] = rep.get('ab') is True and w['a']['inc'] < w['b']['inc']
        v['native'] = rep
    elif v['obligation'].startswith('G3'):
        rep = Replay.call({'op': 'gossip_merge_schedules', 'pre': w['pre'], 'updates': w['updates'], 'a': w['schedule_a'], 'b': w['schedule_b']})
        v['replayed'] = rep.get('equal') is False
        v['native'] = rep
    elif v['obligation'].startswith('G6'):
        rep = Replay.call({'op': 'gossip_suspect_alive', 'pre': w['pre']})
        v['native'] = rep
        v['replayed'] = rep.get('differ')
    elif v['obligation'].startswith(('G4', 'G5')):
        rep = Replay.call({'op': 'gossip_local_op', 'gop': w['op'], 'pre': w['pre']})
        v['native'] = rep
        v['replayed'] = rep.get('regress') if v['obligation'].startswith('G4') else rep.get('incarnation_changed')

ck.functions += ['GossipNodeState::supersedes', 'LWWMembershipState::merge', 'LWWMembershipState::sync_time', 'LWWMembershipState::tick',
                 'LWWMembershipState::suspect', 'LWWMembershipState::fail', 'LWWMembershipState::refute', 'LWWMembershipState::mark_healthy']
if __name__ == '__main__':
    ck.finish()
