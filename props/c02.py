"""C02 — durable store: acknowledged writes survive any crash, in order (log framing part).
TensorWal open/append/sync/replay executed from tensor_store's MIR on the byte-list file model."""
import sys
import os
import itertools
sys.path.insert(0, os.path.dirname(os.path.dirname(os.path.abspath(__file__))))
from props.common import *
from props.walcommon import *

ck = Check('C02')
T = ck.tier
ex = ck.executor('tensor_store', unroll=40, default_maxlen=2, max_paths=100000)
P = ex.prog
K = 2 if T == 'quick' else 3
LENS = (2,) if T == 'quick' else (1, 2, 3)
ck.bounds = {'records before the crash': f'1..{K}', 'payload bytes per record (codec image length)': list(LENS),
             'crash offsets': 'every byte from "last record absent" to "last record complete" (immediate sync); every length >= synced length (manual sync)',
             'records appended after recovery': 1}
ck.assumptions = [
    'torn-write model: after a crash the file holds a prefix of the bytes written since the last completed fsync; bytes still in the BufWriter are lost',
    'crc32fast::hash uninterpreted per length; bitcode as image table (see C10)',
    'rotation not triggered (default 512 MiB limit)',
    'T1: File::create on the live path truncates the same inode (older handles still write to it), the truncation itself is taken as durable; BufWriter::drop flushes its buffer through its own handle',
    'L1: SlabRouter::put/delete (the in-memory apply), EntityIndex and classify_key are stubs; only the order log -> fsync -> apply and the error path are decided',
    'NOT covered: that the recovered *store* equals a prefix of the writes (SlabRouter::{recover, apply_wal_entry, checkpoint}, snapshots): slab state is outside the executor; '
    'this check decides "every acknowledged log record is read back, in order, after any crash sequence" only',
]


def default_config(st):
    sub = st.clone()
    sub.frames = []
    ex.call(sub, '<WalConfig as Default>::default', [])
    res = ex.run(sub)
    if len(res) != 1 or res[0].status != 'return':
        raise RuntimeError('WalConfig::default: ' + str(res))
    return res[0].retval


sc = WalScenario(ck, ex, 'TensorWal::open', 'TensorWal::append', 'TensorWal::replay', 'WalEntry',
                 open_args=lambda st: [default_config(st)])
run_wal_obligations(ck, ex, sc, K, LENS, 'tensor')

# ------------------------------------------------------------------ manual sync: acknowledged = covered by a later sync()
ck.declare('S1_synced_records_survive', 'manual sync mode: append r1, append r2, sync(), append r3 (unsynced); crash at every length >= the synced length',
           'replay is Ok, starts with r1 r2 (acknowledged by the sync) and contains nothing but a prefix of r1 r2 r3')
ck.declare('S2_batched_sync', 'batched sync mode (batch of 2 and 3): appends filling a batch, explicit sync of a partial batch, one unsynced record; crash at every length >= the synced length',
           'replay is Ok, starts with every record covered by a full batch or an explicit sync, and contains nothing but a prefix of the appended records')
ck.declare('S3_rotation_keeps_acknowledged', 'manual and batched mode with a size limit that the second append exceeds (auto-rotate on): r1, r2, sync(); crash at every length >= the synced length of the current file',
           'replay after reopening returns r1 and r2: rotation does not remove acknowledged records from what recovery sees')
ck.declare('T1_truncate_then_continue', 'manual sync mode: append r1, r2 (still buffered), truncate() [the checkpoint step], append r3, sync(), append r4 (unsynced); crash at every length >= the synced length; '
           'and the same with one buffered record',
           'replay is Ok, starts with the record synced after the truncation and contains nothing but a prefix of the records written after it: nothing written before the truncation comes back, nothing acknowledged after it is lost')
SM = P.variant_index('SyncMode', 'Manual')


def manual_scenario(obl, steps, acked, allnames, L, batched=None, max_size=None):
    st = ex.new_state()
    st.env['codec_len'] = L
    for i in (1, 2, 3, 4):
        st.roots[f'r{i}'] = st.fresh('WalEntry', f'r{i}')
    cfg = default_config(st)
    if batched is None:
        cfg.fields[P.field('WalConfig', 'sync_mode')] = Enum('SyncMode', SM, {}, variant='Manual')
    else:
        cfg.fields[P.field('WalConfig', 'sync_mode')] = Enum('SyncMode', P.variant_index('SyncMode', 'Batched'), {('Batched', 0): Int(z3.BitVecVal(batched, 64), False)}, variant='Batched')
    if max_size is not None:
        cfg.fields[P.field('WalConfig', 'max_size_bytes')] = Int(z3.BitVecVal(max_size, 64), False)
        cfg.fields[P.field('WalConfig', 'auto_rotate')] = z3.BoolVal(True)
    res = sc.run(st, 'TensorWal::open', [ref(Str(text='wal')), cfg])
    good = [r for r in res if r.status == 'return' and r.retval.variant == 'Ok']
    if len(good) != 1:
        ck.inconclusive.append('manual-mode open failed')
        return
    cur = good[0].st
    cur.roots['wal'] = ref(good[0].retval.fields[('Ok', 0)])
    for step in steps:
        if step in ('sync', 'truncate', 'rotate'):
            rs = sc.run(cur, 'TensorWal::' + step, [cur.roots['wal']])
        else:
            rs = sc.run(cur, 'TensorWal::append', [cur.roots['wal'], ref(cur.roots[step])])
        ck.note_path_problem(rs, f'{obl} {step}')
        g = [r for r in rs if r.status == 'return' and r.retval.variant == 'Ok']
        if len(g) != 1:
            ck.inconclusive.append(f'{obl} {step}: {len(rs)} outcomes')
            return
        cur = g[0].st
    f = sc.file(cur)
    ck.notes.append(f'{obl}: file length {len(f.data)}, synced {f.synced}')
    # bytes of r3 still sit in the BufWriter: also explore "flushed by the OS but not synced" by flushing first
    fl_st = cur.clone()
    rs = sc.run(fl_st, 'TensorWal::flush', [fl_st.roots['wal']])
    g = [r for r in rs if r.status == 'return']
    variants = [cur] + ([g[0].st] if g else [])
    for vi, base in enumerate(variants):
        fl = sc.file(base)
        for cut in range(fl.synced, len(fl.data) + 1):
            crashed = sc.crash(base, cut)
            for (s1, wp, e1) in sc.open(crashed, f'{obl} reopen cut={cut}'):
                wit0 = {'wal': 'tensor-manual', 'batched': batched, 'max_size': max_size, 'steps': list(steps), 'cut': cut, 'synced': fl.synced, 'len': len(fl.data), 'flushed': vi == 1,
                        'acked': acked, 'allnames': allnames}
                if wp is None:
                    ck.require(ex, obl, s1.pc, None, z3.BoolVal(False), lambda m, w=dict(wit0, outcome=e1): w, lambda m, w: 'manual-sync')
                    continue
                for (r, got, e2) in sc.replay(s1, f'{obl} replay'):
                    names = [getattr(g_, 'lazy', None) for g_ in (got or [])]
                    good_ = e2 is None and names[:len(acked)] == acked and names == allnames[:len(names)]
                    ck.require(ex, obl, r.pc, None, z3.BoolVal(good_), lambda m, w=dict(wit0, outcome=e2 or names): w, lambda m, w: 'rotated-records-not-replayed' if w.get('max_size') is not None and w.get('outcome') == ['r2'] else 'manual-sync')


for L in LENS[:1]:
    manual_scenario('S1_synced_records_survive', ('r1', 'r2', 'sync', 'r3'), ['r1', 'r2'], ['r1', 'r2', 'r3'], L)
    # batched mode: the record that fills the batch makes the whole batch durable; an explicit sync covers a partial batch
    manual_scenario('S2_batched_sync', ('r1', 'r2', 'r3'), ['r1', 'r2'], ['r1', 'r2', 'r3'], L, batched=2)
    manual_scenario('S2_batched_sync', ('r1', 'sync', 'r2', 'r3', 'r4'), ['r1', 'r2', 'r3'], ['r1', 'r2', 'r3', 'r4'], L, batched=2)
    manual_scenario('S2_batched_sync', ('r1', 'r2', 'r3', 'sync', 'r4'), ['r1', 'r2', 'r3'], ['r1', 'r2', 'r3', 'r4'], L, batched=3)
    # automatic rotation (size limit 15 bytes, records of 10: the second append rolls the log over): every record covered by
    # the explicit sync - the one that moved to the rotated file and the one in the fresh file - is there after recovery
    manual_scenario('S3_rotation_keeps_acknowledged', ('r1', 'r2', 'sync'), ['r1', 'r2'], ['r1', 'r2'], L, max_size=15)
    manual_scenario('S3_rotation_keeps_acknowledged', ('r1', 'r2', 'sync'), ['r1', 'r2'], ['r1', 'r2'], L, batched=3, max_size=15)
    manual_scenario('T1_truncate_then_continue', ('r1', 'truncate', 'r2', 'sync', 'r3'), ['r2'], ['r2', 'r3'], L)
    manual_scenario('T1_truncate_then_continue', ('r1', 'r2', 'truncate', 'r3', 'sync', 'r4'), ['r3'], ['r3', 'r4'], L)
    # the handle installed by rotate() is not in append mode: truncation must still leave the next record at offset 0
    manual_scenario('T1_truncate_then_continue', ('r1', 'rotate', 'r2', 'truncate', 'r3', 'sync', 'r4'), ['r3'], ['r3', 'r4'], L)

# ------------------------------------------------------------------ L: log-before-apply in SlabRouter::{put_durable, delete_durable}
# The real TensorWal (file model) sits behind `self.wal`; the slabs are opaque (put/delete record that they were called).
# Decided: for a non-cache key the record of the write is wholly on disk and fsynced before the in-memory apply, a WAL
# failure (size limit, rotation off) prevents the apply, and cache keys are never logged.  Slab contents are not modelled.
from mirsym.models import some as _some, none as _none, deref
ck.declare('L1_log_before_apply', 'put_durable / delete_durable, one call, arbitrary key class, WAL size limit symbolic',
           'Ok on a durable key => the MetadataSet/MetadataDelete record for that key is complete and fsynced in the log before the slab is touched, and it is the last record replay returns; '
           'WAL error => slab untouched; cache keys => nothing logged')
exl = ck.executor('tensor_store', unroll=40, default_maxlen=1, max_paths=50000)
Pl = exl.prog
KC = {n: Pl.variant_index('KeyClass', n) for n in Pl.variants('KeyClass')}


def ov_classify(c):
    d = z3.BitVec(c.st.fresh_name('keyclass'), 64)
    c.st.assume(z3.Or([d == v for v in KC.values()]))
    c.st.env['keyclass'] = d
    return Enum('KeyClass', d, {})


def ov_apply(kind):
    def f(c):
        c.st.notes.append(('apply', kind, len(fs(c.st).get('wal', FileObj()).data), fs(c.st).get('wal', FileObj()).synced))
        return ok(UNIT, 'Result<(), SlabRouterError>')
    return f


exl.extra_models.update({'SlabRouter::classify_key': ov_classify, 'SlabRouter::put': ov_apply('put'), 'SlabRouter::delete': ov_apply('delete'),
                         'EntityIndex::get_or_create': lambda c: c.st.fresh('EntityId', c.st.fresh_name('eid')),
                         'EntityIndex::get': lambda c: c.st.fresh('std::option::Option<EntityId>', c.st.fresh_name('idxget')),
                         '<TensorData as Clone>::clone': lambda c: c.args[0].load(c.st)})
scl = WalScenario(ck, exl, 'TensorWal::open', 'TensorWal::append', 'TensorWal::replay', 'WalEntry', open_args=lambda st: [cfg_for(st)])
_cfg_cache = {}


def cfg_for(st):
    sub = st.clone()
    sub.frames = []
    exl.call(sub, '<WalConfig as Default>::default', [])
    res = exl.run(sub)
    cfg = res[0].retval
    cfg.fields[Pl.field('WalConfig', 'auto_rotate')] = z3.BoolVal(False)
    cfg.fields[Pl.field('WalConfig', 'max_size_bytes')] = Int(z3.BitVec('max_size', 64), False)
    return cfg


applied = refused = 0
for op in ('put_durable', 'delete_durable'):
    st = exl.new_state()
    st.env['codec_len'] = 2
    st.assume(z3.ULT(z3.BitVec('max_size', 64), z3.BitVecVal(1 << 40, 64)))
    opened = scl.open(st, 'router wal')
    good = [o for o in opened if o[1] is not None]
    if len(good) != 1:
        ck.inconclusive.append('log-before-apply: wal open failed')
        continue
    st = good[0][0]
    walobj = st.roots['wal'].load(st)
    router = Struct('SlabRouter', {Pl.field('SlabRouter', 'wal'): _some(Struct('Mutex', {'data': Cell(val=walobj)}), 'Option<Mutex<TensorWal>>')}, lazy='R')
    st.roots['router'] = router
    key = Str(z3.BitVec('key', 64))
    args = [ref(router), ref(key)] + ([st.fresh('TensorData', 'value')] if op == 'put_durable' else [])
    res = scl.run(st, 'SlabRouter::' + op, args)
    ck.note_path_problem(res, op)
    for r in res:
        wit = lambda m, op=op, r=r: {'router_op': op, 'key_class': mval(m, r.st.env['keyclass']) if 'keyclass' in r.st.env else None, 'max_size': mval(m, z3.BitVec('max_size', 64))}
        if r.status == 'panic':
            ck.require(exl, 'L1_log_before_apply', r.pc, None, z3.BoolVal(False), wit, lambda m, w: 'router-panic')
            continue
        if r.status != 'return':
            continue
        f = r.st
        apps = [x for x in f.notes if x[0] == 'apply']
        fl = scl.file(f)
        kc = f.env.get('keyclass')
        is_cache = kc == KC['Cache']
        if r.retval.variant == 'Ok':
            applied += 1
            # durable keys: something was logged and synced before the apply
            cs = [z3.BoolVal(len(apps) == 1)]
            if apps:
                logged = apps[0][2] > 0 and apps[0][3] == apps[0][2]
                cs.append(z3.If(is_cache, z3.BoolVal(apps[0][2] == 0), z3.BoolVal(logged)))
            ck.require(exl, 'L1_log_before_apply', r.pc, None, z3.And(cs), wit, lambda m, w: 'apply-before-log')
            if len(fl.data) > 0:
                # restart and replay: the last record is this write, for this key
                s3 = scl.crash(f, len(fl.data))
                for (s4, wp4, e4) in scl.open(s3, 'router reopen'):
                    if wp4 is None:
                        ck.require(exl, 'L1_log_before_apply', s4.pc, None, z3.BoolVal(False), wit, lambda m, w: 'router-reopen')
                        continue
                    for (r5, got, e5) in scl.replay(s4, 'router replay'):
                        want = 'MetadataSet' if op == 'put_durable' else 'MetadataDelete'
                        okk = e5 is None and got and isinstance(got[-1], Enum) and got[-1].variant == want
                        concl = z3.BoolVal(bool(okk))
                        if okk:
                            concl = got[-1].fields[(want, 0)].id == key.id
                        ck.require(exl, 'L1_log_before_apply', r5.pc, None, concl, wit, lambda m, w: 'write-not-in-log')
        else:
            refused += 1
            ck.require(exl, 'L1_log_before_apply', r.pc, None, z3.BoolVal(len(apps) == 0), wit, lambda m, w: 'applied-despite-wal-error')
if applied == 0 or refused == 0:
    ck.inconclusive.append(f'vacuous: durable op applied on {applied} paths, refused on {refused}')
ck.notes.append(f'put/delete_durable: applied on {applied} paths, refused (WAL error) on {refused}')
ck.functions += ['SlabRouter::put_durable', 'SlabRouter::delete_durable']

# ------------------------------------------------------------------ P1: a checkpoint empties the log only after saving the state the log describes
# SlabRouter::checkpoint on the real TensorWal (file model); save_to_file is a stub that records when it ran and succeeds or
# fails symbolically.  Pre-states: the log holds 0..2 acknowledged records, written in this session or found on disk by a
# freshly opened WAL (the situation right after recover()); a snapshot file may or may not exist already.
ck.declare('P1_checkpoint_saves_before_truncating', 'checkpoint(path), log holding 0..2 acknowledged records appended in this session or inherited from before a restart; snapshot file present or absent; save succeeds or fails',
           'Ok and the log was not empty => the state was saved (save_to_file ran and succeeded) while the log still held every record, and only then was the log emptied; save error => the log file is untouched')


def ov_save(c):
    f = fs(c.st).get('wal', FileObj())
    if c.st.branch(z3.Bool('save_ok'), 'save_to_file'):       # stable name: a fresh one would re-fork on every re-execution
        c.st.notes.append(('save', len(f.data), True))
        return ok(UNIT, 'Result<(), SnapshotFormatError>')
    c.st.notes.append(('save', len(f.data), False))
    return err(Opaque('SnapshotFormatError'), 'Result<(), SnapshotFormatError>')


exl.extra_models.update({'SlabRouter::save_to_file': ov_save})
_saved_exists = exl.extra_models.get('Path::exists')
def ov_exists(c):
    from mirsym.models_fs import path_key, m_path_exists
    if path_key(c.st, c.args[0]) == 'snap':
        return z3.Bool('snapshot_exists')
    return m_path_exists(c)


exl.extra_models['Path::exists'] = ov_exists
cp_ok = cp_err = 0
for nrec in (0, 1, 2):
    for inherited in (False, True):
        st = exl.new_state()
        st.env['codec_len'] = 2
        st.assume(z3.ULT(z3.BitVec('max_size', 64), z3.BitVecVal(1 << 40, 64)))
        st.assume(z3.UGT(z3.BitVec('max_size', 64), z3.BitVecVal(1 << 20, 64)))
        states = [o[0] for o in scl.open(st, 'checkpoint wal') if o[1] is not None]
        for i in range(nrec):
            nxt = []
            for s_ in states:
                e = s_.fresh('WalEntry', f'pre{i}')
                nxt += [a[0] for a in scl.append(s_, e, 'checkpoint pre-record') if a[1] is None]
            states = nxt
        if inherited:
            nxt = []
            for s_ in states:
                s3 = scl.crash(s_, len(scl.file(s_).data))
                nxt += [o[0] for o in scl.open(s3, 'checkpoint reopen') if o[1] is not None]
            states = nxt
        if not states:
            ck.inconclusive.append(f'checkpoint: no pre-state for nrec={nrec} inherited={inherited}')
        for s_ in states:
            pre_len = len(scl.file(s_).data)
            if nrec and scl.file(s_).synced != pre_len:
                continue        # default config syncs every append; unsynced pre-states are not acknowledged
            walobj = s_.roots['wal'].load(s_)
            router = Struct('SlabRouter', {Pl.field('SlabRouter', 'wal'): _some(Struct('Mutex', {'data': Cell(val=walobj)}), 'Option<Mutex<TensorWal>>')}, lazy='R')
            s_.roots['router'] = router
            res = scl.run(s_, 'SlabRouter::checkpoint', [ref(router), ref(Str(text='snap'))])
            ck.note_path_problem(res, f'checkpoint nrec={nrec} inherited={inherited}')
            for r in res:
                wit = lambda m, nrec=nrec, inherited=inherited, r=r: {'router_op': 'checkpoint', 'records': nrec, 'inherited': inherited,
                                                                     'snapshot_exists': bool(mval(m, z3.Bool('snapshot_exists')))}
                if r.status == 'panic':
                    ck.require(exl, 'P1_checkpoint_saves_before_truncating', r.pc, None, z3.BoolVal(False), wit, lambda m, w: 'checkpoint-panic')
                    continue
                if r.status != 'return':
                    continue
                saves = [x for x in r.st.notes if x[0] == 'save']
                fl = scl.file(r.st)
                if r.retval.variant == 'Ok':
                    cp_ok += 1
                    # an empty log describes nothing: skipping the save is then harmless
                    good = (len(saves) == 1 and saves[0][2] and saves[0][1] == pre_len) or (pre_len == 0 and not saves)
                    ck.require(exl, 'P1_checkpoint_saves_before_truncating', r.pc, None, z3.BoolVal(bool(good)), wit, lambda m, w: 'log-emptied-without-saving')
                else:
                    cp_err += 1
                    if saves and not saves[0][2]:
                        ck.require(exl, 'P1_checkpoint_saves_before_truncating', r.pc, None, z3.BoolVal(len(fl.data) == pre_len), wit, lambda m, w: 'log-touched-after-failed-save')
if cp_ok == 0 or cp_err == 0:
    ck.inconclusive.append(f'vacuous: checkpoint succeeded on {cp_ok} paths, failed on {cp_err}')
if _saved_exists is None:
    del exl.extra_models['Path::exists']
else:
    exl.extra_models['Path::exists'] = _saved_exists
ck.functions += ['SlabRouter::checkpoint', 'TensorWal::truncate']

# ------------------------------------------------------------------ R1: what recovery replays
# WalRecovery::{from_entries, all_operations} on every sequence of up to RN records drawn from the kinds production code
# writes (put_durable -> MetadataSet, delete_durable -> MetadataDelete/EmbeddingDelete/EntityRemove, checkpoint ->
# Checkpoint): the operations handed to apply_wal_entry are exactly the records after the last checkpoint marker, in log order.
RN = 3 if T == 'quick' else 5
ck.declare('R1_recovery_replays_suffix_in_order', f'every sequence of 0..{RN} records of kinds MetadataSet / MetadataDelete / EntityRemove / Checkpoint (contents symbolic)',
           'all_operations() = the records after the last Checkpoint, in log order, nothing else; last_checkpoint is that marker\'s id')
ck.assumptions.append('R1: transaction markers (TxBegin/TxCommit/TxAbort) are not part of the sequences: nothing outside tests writes them to the store log')
ex.extra_models['<WalEntry as Clone>::clone'] = lambda c: c.args[0].load(c.st)     # the copy is only read; identity = the record's name
KINDS = ('MetadataSet', 'MetadataDelete', 'EntityRemove', 'Checkpoint')
WV = {k: P.variant_index('WalEntry', k) for k in KINDS}
r1_n = 0
for n in range(0, RN + 1):
    for kinds in itertools.product(KINDS, repeat=n):
        st = ex.new_state()
        ents = []
        for i, k in enumerate(kinds):
            e = Enum('WalEntry', WV[k], {}, variant=k, lazy=f'e{i}')
            ents.append(e)
        res = sc.run(st, 'WalRecovery::from_entries', [ref(Seq('WalEntry', ents))])
        ck.note_path_problem(res, f'from_entries {kinds}')
        for r in res:
            wit = lambda m, kinds=kinds: {'recovery': list(kinds)}
            if r.status == 'panic':
                ck.require(ex, 'R1_recovery_replays_suffix_in_order', r.pc, None, z3.BoolVal(False), wit, lambda m, w: 'recovery-panic')
                continue
            if r.status != 'return':
                continue
            rec = r.retval
            st2 = r.st
            st2.roots['rec'] = rec
            res2 = sc.run(st2, 'WalRecovery::all_operations', [ref(rec)])
            ck.note_path_problem(res2, f'all_operations {kinds}')
            for r2 in res2:
                if r2.status != 'return':
                    continue
                got = [getattr(deref(r2.st, x), 'lazy', None) for x in r2.retval.items(r2.st)]
                last = max([i for i, k in enumerate(kinds) if k == 'Checkpoint'], default=-1)
                want = [f'e{i}' for i in range(last + 1, n)]
                ck.require(ex, 'R1_recovery_replays_suffix_in_order', r2.pc, None, z3.BoolVal(got == want), lambda m, kinds=kinds, got=got: {'recovery': list(kinds), 'replayed': got},
                           lambda m, w: 'recovery-order')
                r1_n += 1
ck.notes.append(f'R1: {r1_n} record sequences')
ck.functions += ['WalRecovery::from_entries', 'WalRecovery::all_operations']

# ------------------------------------------------------------------ native replay
for v in ck.violations:
    w = v['witness']
    if str(w.get('wal', '')).endswith('-double'):
        v['native'], v['replayed'] = double_crash_replay(w)
        continue
    if w.get('wal') == 'tensor':
        rep = Replay.call({'op': 'wal_torn', 'wal': 'tensor', 'k': w['k'], 'cut_offset': w['cut_offset'], 'frame_len': w['frame_len']})
        v['native'] = rep
        if v['obligation'] in ('W1_clean_replay', 'W2_torn_record_dropped'):
            v['replayed'] = rep.get('replay1_ok') is False or rep.get('replay1_matches') is False
        else:
            v['replayed'] = rep.get('replay2_ok') is False or rep.get('new_record_recovered') is False or rep.get('replay2_prefix_matches') is False
    elif w.get('router_op') == 'checkpoint':
        rep = Replay.call({'op': 'durable_checkpoint', 'records': max(1, w['records']), 'inherited': w['inherited'], 'snapshot_exists': w['snapshot_exists'],
                           'save_fails': v['key'] == 'log-touched-after-failed-save'})
        v['native'] = rep
        v['replayed'] = rep.get('violates')
    elif w.get('router_op'):
        kc = {v_: k_ for k_, v_ in KC.items()}.get(w.get('key_class'), 'Metadata')
        rep = Replay.call({'op': 'durable_op', 'router_op': w['router_op'], 'key_class': kc})
        v['native'] = rep
        recs = rep.get('records', [])
        mine = recs[rep.get('records_after_put', 0):] if w['router_op'] == 'delete_durable' else recs
        want = ('MetadataDelete:' if w['router_op'] == 'delete_durable' else 'MetadataSet:') + str(rep.get('key'))
        if kc == 'Cache':
            v['replayed'] = bool(recs)
        else:
            # the record that makes the write visible on recovery is the last one the call writes
            v['replayed'] = (not mine) or mine[-1] != want
    elif w.get('wal') == 'tensor-manual':
        rep = Replay.call({'op': 'wal_manual', 'steps': w['steps'], 'cut': w['cut'], 'len': w['len'], 'flushed': w['flushed'], 'batched': w.get('batched'), 'rotate_at_second': w.get('max_size') is not None})
        v['native'] = rep
        rp = rep.get('replay', {})
        names = rp.get('names') or []
        v['replayed'] = (not rp.get('ok')) or names[:len(w['acked'])] != w['acked'] or names != w['allnames'][:len(names)]

ck.functions += ['TensorWal::open', 'TensorWal::append', 'TensorWal::write_entry_no_sync', 'TensorWal::maybe_sync', 'TensorWal::sync',
                 'TensorWal::replay_with_validation']
if __name__ == '__main__':
    ck.finish()
