"""C02 — durable store: acknowledged writes survive any crash, in order (log framing part).
TensorWal open/append/sync/replay executed from tensor_store's MIR on the byte-list file model."""
import sys
import os
sys.path.insert(0, os.path.dirname(os.path.dirname(os.path.abspath(__file__))))
from props.common import *
from props.walcommon import *

ck = Check('C02')
T = ck.tier
ex = ck.executor('tensor_store', unroll=40, default_maxlen=2, max_paths=100000)
P = ex.prog
K = 2 if T == 'quick' else 3
LENS = (2,) if T == 'quick' else (1, 2, 3)
ck.bounds = {'records before the crash': f'1..{K}', 'payload bytes per record (codec image length)': list(LENS),
             'crash offsets': 'every byte from "last record absent" to "last record complete" (immediate sync); every length >= synced length (manual sync)',
             'records appended after recovery': 1}
ck.assumptions = [
    'torn-write model: after a crash the file holds a prefix of the bytes written since the last completed fsync; bytes still in the BufWriter are lost',
    'crc32fast::hash uninterpreted per length; bitcode as image table (see C10)',
    'rotation not triggered (default 512 MiB limit)',
    'NOT covered: that the recovered *store* equals a prefix of the writes (SlabRouter::{put_durable, recover, apply_wal_entry, checkpoint}, snapshots): slab state is outside the executor; '
    'this check decides "every acknowledged log record is read back, in order, after any crash sequence" only',
]


def default_config(st):
    sub = st.clone()
    sub.frames = []
    ex.call(sub, '<WalConfig as Default>::default', [])
    res = ex.run(sub)
    if len(res) != 1 or res[0].status != 'return':
        raise RuntimeError('WalConfig::default: ' + str(res))
    return res[0].retval


sc = WalScenario(ck, ex, 'TensorWal::open', 'TensorWal::append', 'TensorWal::replay', 'WalEntry',
                 open_args=lambda st: [default_config(st)])
run_wal_obligations(ck, ex, sc, K, LENS, 'tensor')

# ------------------------------------------------------------------ manual sync: acknowledged = covered by a later sync()
ck.declare('S1_synced_records_survive', 'manual sync mode: append r1, append r2, sync(), append r3 (unsynced); crash at every length >= the synced length',
           'replay is Ok, starts with r1 r2 (acknowledged by the sync) and contains nothing but a prefix of r1 r2 r3')
SM = P.variant_index('SyncMode', 'Manual')
for L in LENS[:1]:
    st = ex.new_state()
    st.env['codec_len'] = L
    for i in (1, 2, 3):
        st.roots[f'r{i}'] = st.fresh('WalEntry', f'r{i}')
    cfg = default_config(st)
    cfg.fields[P.field('WalConfig', 'sync_mode')] = Enum('SyncMode', SM, {}, variant='Manual')
    res = sc.run(st, 'TensorWal::open', [ref(Str(text='wal')), cfg])
    good = [r for r in res if r.status == 'return' and r.retval.variant == 'Ok']
    if len(good) != 1:
        ck.inconclusive.append('manual-mode open failed')
    else:
        cur = good[0].st
        cur.roots['wal'] = ref(good[0].retval.fields[('Ok', 0)])
        okflag = True
        for step in ('r1', 'r2', 'sync', 'r3'):
            if step == 'sync':
                rs = sc.run(cur, 'TensorWal::sync', [cur.roots['wal']])
            else:
                rs = sc.run(cur, 'TensorWal::append', [cur.roots['wal'], ref(cur.roots[step])])
            ck.note_path_problem(rs, 'manual ' + step)
            g = [r for r in rs if r.status == 'return' and r.retval.variant == 'Ok']
            if len(g) != 1:
                ck.inconclusive.append(f'manual-mode {step}: {len(rs)} outcomes')
                okflag = False
                break
            cur = g[0].st
        if okflag:
            f = sc.file(cur)
            synced = f.synced
            ck.notes.append(f'manual mode: file length {len(f.data)}, synced {synced}')
            # bytes of r3 still sit in the BufWriter: also explore "flushed by the OS but not synced" by flushing first
            rs = sc.run(cur, 'TensorWal::flush', [cur.roots['wal']])
            g = [r for r in rs if r.status == 'return']
            variants = [cur] + ([g[0].st] if g else [])
            for base in variants:
                fl = sc.file(base)
                for cut in range(fl.synced, len(fl.data) + 1):
                    crashed = sc.crash(base, cut)
                    for (s1, wp, e1) in sc.open(crashed, f'manual reopen cut={cut}'):
                        wit0 = {'wal': 'tensor-manual', 'cut': cut, 'synced': fl.synced, 'len': len(fl.data)}
                        if wp is None:
                            ck.require(ex, 'S1_synced_records_survive', s1.pc, None, z3.BoolVal(False), lambda m, w=dict(wit0, outcome=e1): w, lambda m, w: 'manual-sync')
                            continue
                        for (r, got, e2) in sc.replay(s1, 'manual replay'):
                            names = [getattr(g_, 'lazy', None) for g_ in (got or [])]
                            good_ = e2 is None and names[:2] == ['r1', 'r2'] and names == ['r1', 'r2', 'r3'][:len(names)]
                            ck.require(ex, 'S1_synced_records_survive', r.pc, None, z3.BoolVal(good_), lambda m, w=dict(wit0, outcome=e2 or names): w, lambda m, w: 'manual-sync')

# ------------------------------------------------------------------ native replay
for v in ck.violations:
    w = v['witness']
    if w.get('wal') == 'tensor':
        rep = Replay.call({'op': 'wal_torn', 'wal': 'tensor', 'k': w['k'], 'cut_offset': w['cut_offset'], 'frame_len': w['frame_len']})
        v['native'] = rep
        if v['obligation'] in ('W1_clean_replay', 'W2_torn_record_dropped'):
            v['replayed'] = rep.get('replay1_ok') is False or rep.get('replay1_matches') is False
        else:
            v['replayed'] = rep.get('replay2_ok') is False or rep.get('new_record_recovered') is False or rep.get('replay2_prefix_matches') is False

ck.functions += ['TensorWal::open', 'TensorWal::append', 'TensorWal::write_entry_no_sync', 'TensorWal::maybe_sync', 'TensorWal::sync',
                 'TensorWal::replay_with_validation']
if __name__ == '__main__':
    ck.finish()
