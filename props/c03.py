"""C03 — two-phase commit: the coordinator's decision rules (sequential, one call from an arbitrary pending table).
DistributedTxCoordinator::{record_vote, commit, abort, cleanup_timeouts} executed from tensor_chain's MIR."""
import sys
import os
import itertools
sys.path.insert(0, os.path.dirname(os.path.dirname(os.path.abspath(__file__))))
from props.common import *
from mirsym.models import some, none, ok, err
from mirsym.models_std import now_ms

ck = Check('C03')
T = ck.tier
ex = ck.executor('tensor_chain', unroll=16, default_maxlen=2, max_paths=200000)
P = ex.prog
F = P.field
NP = (1, 2) if T == 'quick' else (1, 2, 3)
ck.bounds = {'pending transactions': '1 (the addressed one) + 0..1 other', 'participants': list(NP), 'votes already recorded': '0..participants', 'ids, handles, clocks': '64-bit symbolic'}
ck.assumptions = [
    'one coordinator call from an arbitrary pending table; message interleavings, participants (TxParticipant over TensorStore) and cluster.rs are NOT decided',
    'log_wal_entry returns Ok or Err nondeterministically and records what it was given (order of records is checked)',
    'DistributedTransaction::merged_delta / DeltaVector::cosine_similarity arbitrary (embedding arithmetic outside the claim); affected-key overlap is explored symbolically',
    'lock manager calls are recorded, not executed (C12 covers them)',
    'when a second pending transaction is present it is a bystander: the call addresses the first transaction or an id not in the table',
    '<DistributedTransaction as Clone>::clone is a shallow snapshot (the clone is only read)',
    'HashMap iteration: insertion order (quick) / all orders (thorough)',
]
if T == 'thorough':
    ex.all_orders = True
U64 = lambda v: z3.BitVecVal(v, 64)
PH = {n: P.variant_index('TxPhase', n) for n in ('Preparing', 'Prepared', 'Committing', 'Committed', 'Aborting', 'Aborted')}
PV = {n: P.variant_index('PrepareVote', n) for n in ('Yes', 'No', 'Conflict')}


def ov_log(c):
    e = c.args[1].load(c.st) if isinstance(c.args[1], Ptr) else c.args[1]
    if c.st.choose(2, 'wal ok/err') == 0:
        c.st.notes.append(('wal', e))
        return ok(UNIT, 'Result<(), ChainError>')
    c.st.notes.append(('wal_failed', e))
    return err(Opaque('ChainError'), 'Result<(), ChainError>')


def ov_release(c):
    c.st.notes.append(('release_handle', c.args[1]))
    return UNIT


def ov_merged(c):
    d = z3.BitVec(c.st.fresh_name('merged'), 64)
    c.st.assume(z3.Or(d == 0, d == 1))
    return Enum('Option<DeltaVector>', d, {('Some', 0): Opaque('DeltaVector')})


ex.extra_models.update({
    'DistributedTxCoordinator::log_wal_entry': ov_log,
    'LockManager::release_by_handle_with_wait_cleanup': ov_release,
    'LockManager::cleanup_expired_with_wait_cleanup': lambda c: Int(z3.BitVec(c.st.fresh_name('expired'), 64), False),
    'DistributedTransaction::merged_delta': ov_merged,
    'DeltaVector::cosine_similarity': lambda c: Flt(z3.FP(c.st.fresh_name('cos'), z3.Float32())),
    '<DeltaVector as Clone>::clone': lambda c: c.args[0].load(c.st),
    '<PrepareVote as Clone>::clone': lambda c: c.args[0].load(c.st),
    '<DistributedTransaction as Clone>::clone': lambda c: (lambda t: Struct(t.ty, dict(t.fields), t.lazy))(c.args[0].load(c.st)),
})
T_PENDING = 'RwLock<HashMap<u64, DistributedTransaction>>'


class Coord:
    def __init__(self, st, np_, nv, other=False):
        self.st = st
        self.txid = z3.BitVec('txid', 64)
        self.parts = [z3.BitVec(f'part{i}', 64) for i in range(np_)]
        for a, b in itertools.combinations(self.parts, 2):
            st.assume(a != b)
        self.phase = z3.BitVec('phase', 64)
        st.assume(z3.And(self.phase >= 0, self.phase <= 5))
        # votes already recorded: shards among the participants (first nv of them), arbitrary kinds
        self.vkind = [z3.BitVec(f'vk{i}', 64) for i in range(nv)]
        self.vhandle = [z3.BitVec(f'vh{i}', 64) for i in range(nv)]
        votes = []
        for i in range(nv):
            st.assume(z3.Or([self.vkind[i] == d for d in PV.values()]))
            votes.append(Enum('PrepareVote', self.vkind[i], {('Yes', 0): Int(self.vhandle[i], False), ('Yes', 1): Struct('DeltaVector', {}, lazy=f'vd{i}'),
                                                             ('No', 0): Str(z3.BitVec(f'vr{i}', 64)), ('Conflict', 0): Flt(z3.FP(f'vs{i}', z3.Float32())),
                                                             ('Conflict', 1): Int(z3.BitVec(f'vc{i}', 64), False)}))
        self.started = z3.BitVec('started', 64)
        self.timeout = z3.BitVec('timeout', 64)
        st.assume(z3.ULT(self.started, U64(1 << 62)))
        tx = Struct('DistributedTransaction', {
            F('DistributedTransaction', 'tx_id'): Int(self.txid, False),
            F('DistributedTransaction', 'participants'): Seq('usize', [Int(p, False) for p in self.parts]),
            F('DistributedTransaction', 'phase'): Enum('TxPhase', self.phase, {}),
            F('DistributedTransaction', 'deltas'): Map('usize', 'DeltaVector', None, None, lazy='deltas', maxlen=2),
            F('DistributedTransaction', 'votes'): Map('usize', 'PrepareVote', [Int(p, False) for p in self.parts[:nv]], votes),
            F('DistributedTransaction', 'started_at'): Int(self.started, False),
            F('DistributedTransaction', 'timeout_ms'): Int(self.timeout, False),
        }, lazy='TX')
        keys, vals = [Int(self.txid, False)], [tx]
        self.other = None
        if other:
            self.other = z3.BitVec('other_tx', 64)
            st.assume(self.other != self.txid)
            keys.append(Int(self.other, False))
            vals.append(Struct('DistributedTransaction', {F('DistributedTransaction', 'tx_id'): Int(self.other, False)}, lazy='OTX'))
        self.pending = Map('u64', 'DistributedTransaction', keys, vals)
        co = Struct('DistributedTxCoordinator', {F('DistributedTxCoordinator', 'pending'): Struct('RwLock', {'data': Cell(val=self.pending)}),
                                                 F('DistributedTxCoordinator', 'pending_aborts'): Struct('RwLock', {'data': Cell(val=Seq('(u64, String, Vec<usize>)', []))})}, lazy='CO')
        st.roots['co'] = co
        self.np, self.nv = np_, nv

    def dump(self, m):
        return {'tx': mval(m, self.txid), 'participants': [mval(m, p) for p in self.parts], 'phase': mval(m, self.phase),
                'votes': [{'shard': mval(m, self.parts[i]), 'kind': mval(m, self.vkind[i]), 'handle': mval(m, self.vhandle[i])} for i in range(self.nv)],
                'started_at': mval(m, self.started), 'timeout_ms': mval(m, self.timeout), 'other': mval(m, self.other) if self.other is not None else None}


def post(st):
    co = st.roots['co']
    pend = co.fields[F('DistributedTxCoordinator', 'pending')].fields['data'].val
    aborts = co.fields[F('DistributedTxCoordinator', 'pending_aborts')].fields['data'].val
    return pend, aborts


def find_tx(pend, txid, st):
    """(present, phase term, votes list [(shard, kind)]) of the addressed tx in the post table (keys concrete-shaped)"""
    for i, k in enumerate(pend.keys):
        if z3.is_true(z3.simplify(k.v == txid)):
            tx = pend.load(i, None, st)
            ph = tx.load(F('DistributedTransaction', 'phase'), None, st)
            phd = ph.disc if not isinstance(ph.disc, int) else z3.BitVecVal(ph.disc, 64)
            vm = tx.load(F('DistributedTransaction', 'votes'), None, st)
            votes = []
            for j, s in enumerate(vm.keys):
                v = vm.load(j, None, st)
                votes.append((s.v, v.disc if not isinstance(v.disc, int) else z3.BitVecVal(v.disc, 64)))
            return True, phd, votes
    return False, None, []


def run(st, fname, args):
    st.frames = []
    ex.call(st, fname, args)
    return ex.run(st)


def wal_records(st):
    return [(x[0], x[1]) for x in st.notes if x[0] in ('wal', 'wal_failed', 'release_handle')]


ck.declare('D1_vote_rules', 'record_vote', 'Prepared only from Preparing with a Yes from every participant; Aborting only when all voted and some vote is not Yes or a cross-shard conflict was found; '
           'errors (unknown tx, wrong phase, duplicate shard) and WAL failure change nothing; the phase never moves except Preparing -> Prepared/Aborting; an abort is queued exactly once')
ck.declare('D2_commit_only_from_prepared', 'commit / abort', 'commit succeeds only from Prepared, logs PhaseChange then TxComplete(Committed) before any lock release, and removes the transaction; '
           'failure from another phase changes nothing; abort logs TxComplete(Aborted) before releasing and removes the transaction')
ck.declare('D3_locks_released', 'commit / abort / cleanup_timeouts', 'every lock handle of a Yes vote of the finished transaction is handed to the lock manager for release')
ck.declare('D4_timeout_once', 'cleanup_timeouts', 'a timed-out transaction is removed and queued for abort exactly once; one that has not timed out is untouched')
prepared_seen = aborting_seen = 0


def _coord_case(case):
    global prepared_seen, aborting_seen
    np_, nv, other = case
    prepared_seen = aborting_seen = 0
    for _a in (0,):
        for _b in (0,):
            # ---------------- record_vote
            st = ex.new_state()
            co = Coord(st, np_, nv, other)
            q_tx = Int(z3.BitVec('q_tx', 64), False)
            if other:
                st.assume(q_tx.v != co.other)     # the second transaction is a bystander: calls address the first one or an unknown id
            q_shard = Int(z3.BitVec('q_shard', 64), False)
            vote = st.fresh('PrepareVote', 'vote')
            res = run(st, 'DistributedTxCoordinator::record_vote', [ref(st.roots['co']), q_tx, q_shard, vote])
            ck.note_path_problem(res, f'record_vote participants={np_} votes={nv} other={other}')
            for r in res:
                wit = lambda m, co=co, r=r: {'call': 'record_vote', 'tx_arg': mval(m, q_tx.v), 'shard': mval(m, q_shard.v), 'vote_kind': mval(m, vote.disc), 'table': co.dump(m)}
                if r.status == 'panic':
                    ck.require(ex, 'D1_vote_rules', r.pc, None, z3.BoolVal(False), wit, lambda m, w: 'vote-panic')
                    continue
                if r.status != 'return':
                    continue
                pend, aborts = post(r.st)
                present, ph1, votes1 = find_tx(pend, co.txid, r.st)
                n_aborts = len(aborts.items(r.st))
                addressed = q_tx.v == co.txid
                wal_failed = any(x[0] == 'wal_failed' for x in r.st.notes)
                votes_same = [z3.Or([z3.And(s_ == co.parts[i], k_ == co.vkind[i]) for s_, k_ in votes1]) if votes1 else z3.BoolVal(False) for i in range(nv)]
                unchanged = z3.And([z3.BoolVal(present and len(votes1) == nv and n_aborts == 0)] + ([ph1 == co.phase] if present else []) + votes_same)
                # votes after = votes before + (q_shard, vote) when recorded
                all_parts_yes = z3.And([z3.Or([z3.And(s == p, k == PV['Yes']) for s, k in votes1]) if votes1 else z3.BoolVal(False) for p in co.parts])
                all_parts_voted = z3.And([z3.Or([s == p for s, k in votes1]) if votes1 else z3.BoolVal(False) for p in co.parts])
                some_not_yes = z3.Or([k != PV['Yes'] for s, k in votes1]) if votes1 else z3.BoolVal(False)
                rv = r.retval
                cs = [z3.BoolVal(present)] + votes_same        # a recorded vote is never replaced or dropped
                if present:
                    cs.append(z3.Or(ph1 == co.phase, z3.And(co.phase == PH['Preparing'], z3.Or(ph1 == PH['Prepared'], ph1 == PH['Aborting']))))
                if rv.variant == 'Err':
                    e = rv.fields[('Err', 0)]
                    cs.append(unchanged)
                    if e.variant == 'TxNotFound':
                        cs.append(z3.And(q_tx.v != co.txid, (q_tx.v != co.other) if other else z3.BoolVal(True)))
                    elif e.variant == 'WrongPhase':
                        cs.append(z3.Implies(addressed, co.phase != PH['Preparing']))
                    elif e.variant == 'DuplicateVote':
                        cs.append(z3.Implies(addressed, z3.Or([q_shard.v == p for p in co.parts[:nv]]) if nv else z3.BoolVal(False)))
                    ck.require(ex, 'D1_vote_rules', r.pc, None, z3.And(cs), wit, lambda m, w: 'vote-error-path')
                    continue
                inner = rv.fields[('Ok', 0)]
                if isinstance(inner.disc, int) and inner.disc == 1:
                    newph = inner.fields[('Some', 0)]
                    npd = newph.disc if not isinstance(newph.disc, int) else z3.BitVecVal(newph.disc, 64)
                    if z3.is_true(z3.simplify(npd == PH['Prepared'])):
                        prepared_seen += 1
                        cs += [addressed, co.phase == PH['Preparing'], ph1 == PH['Prepared'], all_parts_yes, z3.BoolVal(n_aborts == 0),
                               z3.BoolVal(any(x[0] == 'wal' and isinstance(x[1], Enum) and x[1].variant == 'PhaseChange' for x in r.st.notes))]
                    elif z3.is_true(z3.simplify(npd == PH['Aborting'])):
                        aborting_seen += 1
                        conflict_path = any(x[0] == 'shape' for x in []) or False
                        cs += [addressed, co.phase == PH['Preparing'], ph1 == PH['Aborting'], all_parts_voted, z3.BoolVal(n_aborts == 1)]
                        # either some vote is not Yes, or the cross-shard conflict branch was taken (all Yes)
                        cs.append(z3.Or(some_not_yes, all_parts_yes))
                    else:
                        cs.append(z3.BoolVal(False))
                else:
                    # Ok(None): WAL failure (nothing changed) or vote recorded and still waiting
                    if wal_failed and not any(x[0] == 'wal' and isinstance(x[1], Enum) and x[1].variant == 'PrepareVote' for x in r.st.notes):
                        cs.append(unchanged)
                    else:
                        cs.append(z3.Or(z3.Not(addressed), z3.And(ph1 == co.phase, z3.BoolVal(n_aborts == 0)))) if present else None
                ck.require(ex, 'D1_vote_rules', r.pc, None, z3.And([c for c in cs if c is not None]), wit, lambda m, w: 'vote-decision')
            # ---------------- commit / abort
            for call in ('commit', 'abort'):
                st = ex.new_state()
                co = Coord(st, np_, nv, other)
                q_tx = Int(z3.BitVec('q_tx', 64), False)
                if other:
                    st.assume(q_tx.v != co.other)
                args = [ref(st.roots['co']), q_tx] + ([ref(Str(text='reason'))] if call == 'abort' else [])
                res = run(st, 'DistributedTxCoordinator::' + call, args)
                ck.note_path_problem(res, f'{call} participants={np_} votes={nv} other={other}')
                for r in res:
                    wit = lambda m, co=co, call=call: {'call': call, 'tx_arg': mval(m, q_tx.v), 'table': co.dump(m)}
                    if r.status == 'panic':
                        ck.require(ex, 'D2_commit_only_from_prepared', r.pc, None, z3.BoolVal(False), wit, lambda m, w: call + '-panic')
                        continue
                    if r.status != 'return':
                        continue
                    pend, aborts = post(r.st)
                    present, ph1, votes1 = find_tx(pend, co.txid, r.st)
                    addressed = q_tx.v == co.txid
                    recs = wal_records(r.st)
                    okret = r.retval.variant == 'Ok'
                    if okret:
                        kinds = [(k, (e.variant if isinstance(e, Enum) else None)) for k, e in recs]
                        # TxComplete logged, and before the first release
                        comp = [i for i, (k, e) in enumerate(recs) if k == 'wal' and isinstance(e, Enum) and e.variant == 'TxComplete']
                        rel = [i for i, (k, e) in enumerate(recs) if k == 'release_handle']
                        order_ok = bool(comp) and (not rel or comp[0] < rel[0])
                        outcome_ok = z3.BoolVal(False)
                        if comp:
                            oc = recs[comp[0]][1].fields[('TxComplete', 1)]
                            ocd = oc.disc if not isinstance(oc.disc, int) else z3.BitVecVal(oc.disc, 64)
                            outcome_ok = ocd == P.variant_index('TxOutcome', 'Committed' if call == 'commit' else 'Aborted')
                        cs = [z3.Implies(addressed, z3.BoolVal(not present)), z3.BoolVal(order_ok), outcome_ok]
                        if call == 'commit':
                            cs.append(z3.Implies(addressed, co.phase == PH['Prepared']))
                        ck.require(ex, 'D2_commit_only_from_prepared', r.pc, None, z3.And(cs), wit, lambda m, w, call=call: call + '-decision')
                        # D3: every Yes handle released
                        released = [x[1] for x in r.st.notes if x[0] == 'release_handle']
                        need = [z3.Implies(z3.And(addressed, co.vkind[i] == PV['Yes']), z3.Or([rr.v == co.vhandle[i] for rr in released]) if released else z3.BoolVal(False)) for i in range(nv)]
                        ck.require(ex, 'D3_locks_released', r.pc, addressed, z3.And(need) if need else z3.BoolVal(True), wit, lambda m, w, call=call: call + '-locks')
                    else:
                        wal_failed = any(x[0] == 'wal_failed' for x in r.st.notes)
                        if not wal_failed:
                            unchanged = z3.And([z3.BoolVal(present and len(votes1) == nv)] + ([ph1 == co.phase] if present else []))
                            reason = z3.Or(z3.And(q_tx.v != co.txid, (q_tx.v != co.other) if other else z3.BoolVal(True)),
                                           z3.And(addressed, co.phase != PH['Prepared']) if call == 'commit' else z3.BoolVal(False),
                                           z3.Not(addressed))
                            ck.require(ex, 'D2_commit_only_from_prepared', r.pc, None, z3.And(unchanged, reason), wit, lambda m, w, call=call: call + '-refusal')
            # ---------------- cleanup_timeouts
            if not other:
                st = ex.new_state()
                co = Coord(st, np_, nv, False)
                res = run(st, 'DistributedTxCoordinator::cleanup_timeouts', [ref(st.roots['co'])])
                ck.note_path_problem(res, f'cleanup_timeouts participants={np_} votes={nv}')
                for r in res:
                    wit = lambda m, co=co, r=r: {'call': 'cleanup_timeouts', 'table': co.dump(m), 'clock': [mval(m, c) for c in r.st.env.get('clock_readings', [])]}
                    if r.status == 'panic':
                        # `now - started_at` underflows when the clock reads earlier than started_at: outside (clock monotone, started_at from the same clock)
                        rs = r.st.env.get('clock_readings', [])
                        hyp = z3.And([z3.UGE(c, co.started) for c in rs]) if rs else z3.BoolVal(True)
                        ck.require(ex, 'D4_timeout_once', r.pc, hyp, z3.BoolVal(False), wit, lambda m, w: 'timeout-panic')
                        continue
                    if r.status != 'return':
                        continue
                    pend, aborts = post(r.st)
                    present, ph1, votes1 = find_tx(pend, co.txid, r.st)
                    rs = r.st.env.get('clock_readings', [])
                    timed = z3.Or([z3.UGE(c - co.started, co.timeout) for c in rs]) if rs else z3.BoolVal(False)      # at age == timeout either answer is fine
                    nott = z3.Or([z3.ULE(c - co.started, co.timeout) for c in rs]) if rs else z3.BoolVal(True)
                    ab = aborts.items(r.st)
                    ids = [a.fields[0].v for a in ab]
                    if present:
                        ck.require(ex, 'D4_timeout_once', r.pc, None, z3.And(nott, z3.BoolVal(len(ab) == 0), ph1 == co.phase), wit, lambda m, w: 'timeout-kept')
                    else:
                        ck.require(ex, 'D4_timeout_once', r.pc, None, z3.And([timed, z3.BoolVal(len(ab) == 1)] + [i == co.txid for i in ids]), wit, lambda m, w: 'timeout-removed')
                        released = [x[1] for x in r.st.notes if x[0] == 'release_handle']
                        need = [z3.Implies(co.vkind[i] == PV['Yes'], z3.Or([rr.v == co.vhandle[i] for rr in released]) if released else z3.BoolVal(False)) for i in range(nv)]
                        ck.require(ex, 'D3_locks_released', r.pc, None, z3.And(need) if need else z3.BoolVal(True), wit, lambda m, w: 'timeout-locks')
    return prepared_seen, aborting_seen


_cases = [(np_, nv, other) for np_ in NP for nv in range(0, np_ + 1) for other in (False, True)]
_seen = [r for r in ck.parallel(_cases, _coord_case, jobs=12 if T == 'thorough' else 4) if r]
prepared_seen, aborting_seen = sum(a for a, _ in _seen), sum(b for _, b in _seen)
if prepared_seen == 0 or aborting_seen == 0:
    ck.inconclusive.append(f'vacuous: Prepared reached on {prepared_seen} paths, Aborting on {aborting_seen}')
ck.notes.append(f'record_vote: Prepared on {prepared_seen} paths, Aborting on {aborting_seen} paths')

def _concrete(w, rep):
    """re-evaluate the decision rules on the real coordinator's before/after tables"""
    if 'after' not in rep:
        return bool(rep.get('panic'))
    t = w['table']
    before = {x['tx']: x for x in rep['before']}
    after = {x['tx']: x for x in rep['after']}
    tx = t['tx']
    res = rep['result']
    call = w['call']
    addressed = w.get('tx_arg') == tx
    pre = before.get(tx)
    post_ = after.get(tx)
    bad = False
    if call == 'record_vote':
        if 'err' in res:
            bad = rep['after'] != rep['before'] or bool(rep['aborts_queued'])
        elif res.get('ok') == 1:
            yes = {s for s, k in (post_ or {}).get('votes', []) if k == 0}
            bad = not addressed or pre['phase'] != 0 or post_ is None or post_['phase'] != 1 or not set(pre['participants']) <= yes
        elif res.get('ok') == 4:
            voted = {s for s, k in (post_ or {}).get('votes', [])}
            bad = not addressed or pre['phase'] != 0 or post_ is None or post_['phase'] != 4 or not set(pre['participants']) <= voted or rep['aborts_queued'] != [tx]
        else:
            bad = post_ is None or (post_['phase'] != pre['phase'])
    elif call in ('commit', 'abort'):
        if res.get('ok'):
            bad = (addressed and (tx in after or (call == 'commit' and pre['phase'] != 1)))
        else:
            bad = rep['after'] != rep['before']
    else:
        removed = tx not in after
        bad = removed != bool(w.get('timed_out')) or (removed and rep['aborts_queued'] != [tx]) or (not removed and bool(rep['aborts_queued']))
    return bad


# ------------------------------------------------------------------ participant half
exec(open(os.path.join(os.path.dirname(os.path.abspath(__file__)), 'c03_participant.py')).read())

for v in ck.violations:
    w = v['witness']
    if w.get('participant'):
        v['native'], v['replayed'] = participant_replay(w)
        continue
    if w.get('call') == 'cleanup_timeouts':
        clock = w.get('clock') or [0]
        w['timed_out'] = any(((c - w['table']['started_at']) % (1 << 64)) > w['table']['timeout_ms'] for c in clock)
    rep = Replay.call({'op': 'coordinator_step', **w})
    v['native'] = rep
    v['replayed'] = _concrete(w, rep)
ck.functions += ['DistributedTxCoordinator::record_vote', 'DistributedTxCoordinator::commit', 'DistributedTxCoordinator::abort', 'DistributedTxCoordinator::cleanup_timeouts',
                 'DistributedTransaction::all_voted', 'DistributedTransaction::all_yes', 'DistributedTransaction::is_timed_out']
if __name__ == '__main__':
    ck.finish()
