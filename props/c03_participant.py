# C03, participant half: TxParticipant::{prepare, commit, abort, cleanup_stale} + UndoEntry::{capture, apply} executed from
# tensor_chain's MIR.  exec()'d from c03.py.
#
# The store behind the participant is the key/value contract of TensorStore (a finite map String -> TensorData;
# get/put/delete only - nothing of its sharding, slabs or indexes), TensorData is its field map.  The lock manager is the
# real one (C12 decides its rules; here it runs from MIR inside the participant).
#
# One participant call from a pre-state holding one prepared transaction T1 (one operation on key k1, its undo entry
# captured by the real UndoEntry::capture from the current store = "nothing applied before the decision") and T1's lock
# entry, whose timestamps are arbitrary (it may have outlived its TTL):
#   Q1 prepare   - never touches the store; a Yes vote stores the request with a fresh handle and an undo log captured now;
#                  a refusal changes nothing;
#   Q2 prepare   - is never granted for a key a still-prepared transaction covers (else two undecided transactions hold
#                  the same key and the later decision of one overwrites or rolls back the applied writes of the other);
#   Q3 commit    - of a prepared transaction applies exactly its writes, forgets it and releases its locks; of an unknown
#                  transaction changes nothing and reports failure;
#   Q4 abort / cleanup_stale - forget the transaction, release its locks and leave every key of the store as it was.
from mirsym.models_iter import map_find, map_insert
from mirsym.models import ok as _ok, err as _err, deref

exq = ck.executor('tensor_chain', unroll=16, default_maxlen=1, max_paths=100000)
Pq = exq.prog
Fq = Pq.field
TXV = {n: Pq.variant_index('Transaction', n) for n in ('Put', 'Delete')}
ck.bounds['participant'] = 'store 0..2 keys, one prepared transaction (one Put or Delete) with its lock entry, one call; request: one Put/Delete on a symbolic key'
ck.assumptions += [
    'participant: TensorStore is its key/value contract (finite map; get/put/delete; put never fails); TensorData is its field map; bitcode as image table; '
    'UndoEntry::checksum and DeltaVector::from_sparse are opaque',
    'participant: the prepared transaction\'s undo log is what the real UndoEntry::capture returns on the pre-state store (no writes are applied before the decision)',
    'participant: clock readings fresh and non-decreasing; the prepared transaction\'s lock entry has arbitrary timestamps (it may be past its TTL)',
]


def q_now(c):
    return Int(now_ms(c.st), False)


def q_next_handle(c):
    h = Int(z3.BitVec(c.st.fresh_name('new_handle'), 64), False)
    for ex_h in c.st.env.get('known_handles', []):
        c.st.assume(h.v != ex_h)
    c.st.env['new_handle'] = h.v
    return h


def kv_of(st):
    return st.roots['store'].fields['kv']


def q_store_get(c):
    m = kv_of(c.st)
    i = map_find(c.st, m, c.args[1], 'store.get')
    if i is None:
        return _err(Opaque('TensorStoreError::NotFound'), 'Result<TensorData, TensorStoreError>')
    return _ok(m.vals[i], 'Result<TensorData, TensorStoreError>')


def q_store_put(c):
    m = kv_of(c.st)
    key = deref(c.st, c.args[1])
    i = map_find(c.st, m, key, 'store.put')
    if i is None:
        m.keys.append(key)
        m.vals.append(c.args[2])
    else:
        m.vals[i] = c.args[2]
    c.st.notes.append(('store_put', key))
    return _ok(UNIT, 'Result<(), TensorStoreError>')


def q_store_delete(c):
    m = kv_of(c.st)
    i = map_find(c.st, m, c.args[1], 'store.delete')
    if i is None:
        return _err(Opaque('TensorStoreError::NotFound'), 'Result<(), TensorStoreError>')
    del m.keys[i]
    del m.vals[i]
    c.st.notes.append(('store_delete', deref(c.st, c.args[1])))
    return _ok(UNIT, 'Result<(), TensorStoreError>')


def q_td_new(c):
    return Struct('TensorData', {'f': Map('std::string::String', 'TensorValue', [], [])})


def q_td_set(c):
    td = deref(c.st, c.args[0])
    map_insert(c.st, td.fields['f'], deref(c.st, c.args[1]), c.args[2])
    return UNIT


def q_td_get(c):
    td = deref(c.st, c.args[0])
    if 'f' not in td.fields:
        # a stored value of unknown content
        td.fields['f'] = Map('std::string::String', 'TensorValue', None, None, lazy=(td.lazy or 'td') + '.f', maxlen=1)
    m = td.fields['f']
    i = map_find(c.st, m, c.args[1], 'tensor.get')
    if i is None:
        return none('Option<&TensorValue>')
    from mirsym.exec import TypedPtr
    return some(TypedPtr(m, i, 'TensorValue'), 'Option<&TensorValue>')


exq.extra_models.update({
    'now_epoch_millis': q_now, 'distributed_tx::now_epoch_millis': q_now,
    'next_lock_handle': q_next_handle, 'distributed_tx::next_lock_handle': q_next_handle,
    'TensorStore::get': q_store_get, 'TensorStore::put': q_store_put, 'TensorStore::delete': q_store_delete,
    'TensorData::new': q_td_new, 'TensorData::set': q_td_set, 'TensorData::get': q_td_get,
    'UndoEntry::checksum': lambda c: Int(z3.BitVec(c.st.fresh_name('undo_crc'), 32), False),
    'DeltaVector::from_sparse': lambda c: Struct('DeltaVector', {}, lazy=c.st.fresh_name('delta')),
    'consensus::DeltaVector::from_sparse': lambda c: Struct('DeltaVector', {}, lazy=c.st.fresh_name('delta')),
    '<DeltaVector as Clone>::clone': lambda c: c.args[0].load(c.st),
    '<consensus::DeltaVector as Clone>::clone': lambda c: c.args[0].load(c.st),
})


def mk_op(kind, key, data):
    if kind == 'Put':
        return Enum('Transaction', TXV['Put'], {('Put', 0): key, ('Put', 1): data}, variant='Put')
    return Enum('Transaction', TXV['Delete'], {('Delete', 0): key}, variant='Delete')


class Part:
    """participant with a store of `nstore` keys and one prepared transaction T1 (operation `kind1` on k1)"""

    def __init__(self, st, nstore, kind1, lock_present=True):
        self.st = st
        self.skeys = [Str(z3.BitVec(f'sk{i}', 64)) for i in range(nstore)]
        for a, b in itertools.combinations(self.skeys, 2):
            st.assume(a.id != b.id)
        self.svals = [Struct('TensorData', {}, lazy=f'sv{i}') for i in range(nstore)]
        st.roots['store'] = Struct('TensorStore', {'kv': Map('std::string::String', 'TensorData', list(self.skeys), list(self.svals))})
        self.t1 = z3.BitVec('t1', 64)
        self.h1 = z3.BitVec('h1', 64)
        self.k1 = Str(z3.BitVec('k1', 64))
        self.d1 = Seq('u8', [Int(z3.BitVec('d1_0', 8), False)])
        self.acq = z3.BitVec('acq1', 64)
        self.tmo = z3.BitVec('tmo1', 64)
        st.assume(z3.ULT(self.acq, U64(1 << 62)))
        st.assume(z3.ULT(self.tmo, U64(1 << 40)))
        self.kind1 = kind1
        st.env['known_handles'] = [self.h1]
        if lock_present:
            lk = Struct('KeyLock', {Fq('KeyLock', 'key'): self.k1, Fq('KeyLock', 'tx_id'): Int(self.t1, False), Fq('KeyLock', 'lock_handle'): Int(self.h1, False),
                                    Fq('KeyLock', 'acquired_at_ms'): Int(self.acq, False), Fq('KeyLock', 'timeout_ms'): Int(self.tmo, False)})
            locks = Map('std::string::String', 'KeyLock', [self.k1], [lk])
            txl = Map('u64', 'std::vec::Vec<std::string::String>', [Int(self.t1, False)], [Seq('std::string::String', [self.k1])])
        else:
            locks = Map('std::string::String', 'KeyLock', [], [])
            txl = Map('u64', 'std::vec::Vec<std::string::String>', [], [])
        self.lm = Struct('LockManager', {Fq('LockManager', 'locks'): Struct('RwLock', {'data': Cell(val=locks)}),
                                         Fq('LockManager', 'tx_locks'): Struct('RwLock', {'data': Cell(val=txl)})}, lazy='LM')
        self.prepared = Map('u64', 'PreparedTx', [], [])
        self.part = Struct('TxParticipant', {Fq('TxParticipant', 'prepared'): Struct('RwLock', {'data': Cell(val=self.prepared)}),
                                             Fq('TxParticipant', 'locks'): self.lm, Fq('TxParticipant', 'store'): st.roots['store']})
        st.roots['part'] = self.part

    def with_prepared(self, st_after_capture, undo):
        """complete the pre-state once the real capture has produced T1's undo entry"""
        st = st_after_capture
        part = st.roots['part']
        prepared = part.fields[Fq('TxParticipant', 'prepared')].fields['data'].val
        ptx = Struct('PreparedTx', {Fq('PreparedTx', 'tx_id'): Int(self.t1, False), Fq('PreparedTx', 'lock_handle'): Int(self.h1, False),
                                    Fq('PreparedTx', 'operations'): Seq('Transaction', [mk_op(self.kind1, self.k1, self.d1)]),
                                    Fq('PreparedTx', 'undo_log'): Seq('UndoEntry', [undo]),
                                    Fq('PreparedTx', 'undo_checksums'): Seq('u32', [Int(z3.BitVec('uc1', 32), False)]),
                                    Fq('PreparedTx', 'prepared_at_ms'): Int(z3.BitVec('prep_at', 64), False)}, lazy='PTX1')
        prepared.keys.append(Int(self.t1, False))
        prepared.vals.append(ptx)
        return st


def runq(st, fname, args):
    st.frames = []
    exq.call(st, fname, args)
    return exq.run(st)


def pre_states(nstore, kind1, lock_present=True):
    """-> list of (state, Part, snapshot of the store as [(key id, value object)])"""
    st = exq.new_state()
    pt = Part(st, nstore, kind1, lock_present)
    res = runq(st, 'UndoEntry::capture', [ref(pt.k1), ref(st.roots['store'])])
    ck.note_path_problem(res, 'UndoEntry::capture (pre-state)')
    out = []
    for r in res:
        if r.status != 'return':
            continue
        s2 = pt.with_prepared(r.st, r.retval)
        kv = kv_of(s2)
        out.append((s2, pt, [(k.id, v) for k, v in zip(kv.keys, kv.vals)]))
    return out


def same_obj(a, b):
    """rustc moves values through `copy` operands, so identity is the lazily created value's path name"""
    return a is b or (getattr(a, 'lazy', None) is not None and getattr(a, 'lazy', None) == getattr(b, 'lazy', None))


def store_same(st, snap):
    """the store maps exactly the snapshot's keys to the snapshot's value objects (object identity)"""
    kv = kv_of(st)
    if len(kv.keys) != len(snap):
        return z3.BoolVal(False)
    cs = []
    for (kid, v) in snap:
        alts = [k.id == kid for k, w in zip(kv.keys, kv.vals) if same_obj(w, v)]
        cs.append(z3.Or(alts) if alts else z3.BoolVal(False))
    return z3.And(cs) if cs else z3.BoolVal(True)


def prepared_ids(st):
    m = st.roots['part'].fields[Fq('TxParticipant', 'prepared')].fields['data'].val
    return m


def lock_list(st):
    lm = st.roots['part'].fields[Fq('TxParticipant', 'locks')]
    locks = lm.fields[Fq('LockManager', 'locks')].fields['data'].val
    out = []
    for i, k in enumerate(locks.keys):
        v = locks.load(i, None, st)
        out.append((k.id, v.load(Fq('KeyLock', 'tx_id'), 'u64', st).v, v.load(Fq('KeyLock', 'lock_handle'), 'u64', st).v))
    return out


def pdump(m, pt, snap):
    return {'store': [mval(m, kid) for kid, _ in snap], 't1': mval(m, pt.t1), 'h1': mval(m, pt.h1), 'k1': mval(m, pt.k1.id), 'kind1': pt.kind1,
            'lock_acquired_at': mval(m, pt.acq), 'lock_timeout_ms': mval(m, pt.tmo)}


def lock_outlived(w):
    """did the prepared transaction's lock entry look expired at the first clock reading of the call"""
    c0 = (w.get('clock') or [0])[0]
    age = c0 - w['lock_acquired_at'] if c0 >= w['lock_acquired_at'] else 0
    return age > w['lock_timeout_ms']


def q2_key(m, w):
    return 'second-prepare-after-lock-ttl' if lock_outlived(w) else 'second-prepare-while-locked'


def participant_replay(w):
    """drive the real TxParticipant through the witness history with the public API"""
    key = lambda i: f'key{i}'
    steps = []
    for kid in w['store']:
        steps.append({'do': 'seed', 'key': key(kid), 'val': [7]})
    op1 = [[key(w['k1']), [1]]]
    steps.append({'do': 'prepare', 'tx': 1, 'puts': op1} if w['kind1'] == 'Put' else {'do': 'prepare', 'tx': 1, 'dels': [key(w['k1'])]})
    base = len(steps)
    call = w['participant']
    if call == 'prepare':
        if lock_outlived(w):
            steps.append({'do': 'sleep', 'ms': 40})
        steps.append({'do': 'prepare', 'tx': 2, 'puts': [[key(w['k2']), [2]]]} if w['kind2'] == 'Put' else {'do': 'prepare', 'tx': 2, 'dels': [key(w['k2'])]})
        # consequence of two undecided transactions on one key: the later abort of the first discards the applied write of the second
        steps += [{'do': 'commit', 'tx': 2}, {'do': 'abort', 'tx': 1}]
        rep = Replay.call({'op': 'participant_steps', 'lock_timeout_ms': 10 if lock_outlived(w) else 60000, 'watch': [key(w['k2'])], 'steps': steps})
        tr = rep.get('trace', [])
        second = next((t for t in tr if t['step'].get('do') == 'prepare' and t['step'].get('tx') == 2), None)
        granted = bool(second) and isinstance(second['outcome'], dict) and second['outcome'].get('vote') == 'yes'
        same_key = w['k2'] == w['k1']
        # Q2 itself: both transactions are prepared on the one key at the same time (the data loss that follows when the
        # first one is aborted late is in the trace for the record; it is not visible when both operations delete)
        both = bool(second) and second.get('prepared') == 2
        return rep, bool(granted and same_key and both)
    t_hit = w.get('t') == w['t1']
    steps.append({'do': call if call != 'cleanup_stale' else 'abort', 'tx': 1 if t_hit else 99})
    watch = sorted({key(k) for k in w['store']} | {key(w['k1'])})
    rep = Replay.call({'op': 'participant_steps', 'lock_timeout_ms': 60000, 'watch': watch, 'steps': steps})
    tr = rep.get('trace', [])
    before, after = tr[base - 1]['store'], tr[-1]['store']
    if call == 'commit':
        if t_hit:
            want = list(before)
            want[watch.index(key(w['k1']))] = [1] if w['kind1'] == 'Put' else None
            bad = after != want or tr[-1]['prepared'] != 0 or tr[-1]['locks'] != 0 or tr[-1]['outcome'] is not True
        else:
            bad = after != before or tr[-1]['outcome'] is not False
    else:
        bad = after != before or (t_hit and (tr[-1]['prepared'] != 0 or tr[-1]['locks'] != 0))
    return rep, bool(bad)


# ------------------------------------------------------------------ Q1/Q2 prepare
ck.declare('Q1_prepare_applies_nothing', 'prepare of one Put/Delete on a symbolic key next to a prepared transaction',
           'the store is untouched; Yes => the request is stored under its id (replacing an earlier prepare of the same id) with the fresh handle, which holds the key in the lock table, its operation, and an undo entry for its key captured from the present store; '
           'Conflict => the prepared set is unchanged')
ck.declare('Q2_prepared_keys_exclusive', 'same', 'a Yes vote is never given for a key that a still-prepared transaction covers, whatever the age of that transaction\'s lock')
q_yes = q_conf = 0
for nstore in (0, 1, 2):
    for kind1 in ('Put', 'Delete'):
        for kind2 in ('Put', 'Delete'):
            for (st, pt, snap) in pre_states(nstore, kind1):
                t2 = z3.BitVec('t2', 64)
                k2 = Str(z3.BitVec('k2', 64))
                d2 = Seq('u8', [Int(z3.BitVec('d2_0', 8), False)])
                req = Struct('PrepareRequest', {Fq('PrepareRequest', 'tx_id'): Int(t2, False), Fq('PrepareRequest', 'operations'): Seq('Transaction', [mk_op(kind2, k2, d2)])}, lazy='REQ')
                res = runq(st, 'TxParticipant::prepare', [ref(st.roots['part']), req])
                ck.note_path_problem(res, f'prepare store={nstore} {kind1}/{kind2}')
                for r in res:
                    wit = lambda m, r=r, pt=pt, snap=snap, kind2=kind2: dict(pdump(m, pt, snap), participant='prepare', t2=mval(m, t2), k2=mval(m, k2.id), kind2=kind2,
                                                                             clock=[mval(m, x) for x in r.st.env.get('clock_readings', [])])
                    if r.status == 'panic':
                        ck.require(exq, 'Q1_prepare_applies_nothing', r.pc, None, z3.BoolVal(False), wit, lambda m, w: 'participant-panic')
                        continue
                    if r.status != 'return':
                        continue
                    f = r.st
                    vote = r.retval
                    pm = prepared_ids(f)
                    cs = [store_same(f, snap)]
                    if vote.variant == 'Yes':
                        q_yes += 1
                        ids = [k.v for k in pm.keys]
                        dup = len(ids) == 1
                        cs.append(z3.BoolVal(len(ids) == 2) if not dup else t2 == pt.t1)
                        if len(ids) in (1, 2):
                            new = pm.vals[-1]
                            ops = new.load(Fq('PreparedTx', 'operations'), None, f).items(f)
                            undo = new.load(Fq('PreparedTx', 'undo_log'), None, f).items(f)
                            cs.append(ids[-1] == t2)
                            cs.append(new.load(Fq('PreparedTx', 'lock_handle'), 'u64', f).v == vote.fields[('Yes', 0)].v)
                            cs.append(z3.BoolVal(len(ops) == 1 and len(undo) == 1))
                            if len(undo) == 1:
                                u = undo[0]
                                present = z3.Or([kid == k2.id for kid, _ in snap]) if snap else z3.BoolVal(False)
                                cs.append(u.fields[(u.variant, 0)].id == k2.id)
                                cs.append(z3.BoolVal(u.variant == 'Restore') == present)
                        # the vote's handle really holds the key afterwards (also after a duplicate prepare of the same transaction)
                        L = lock_list(f)
                        cs.append(z3.Or([z3.And(kid == k2.id, tx == t2, h == vote.fields[('Yes', 0)].v) for (kid, tx, h) in L] + [z3.BoolVal(False)]))
                        ck.require(exq, 'Q1_prepare_applies_nothing', r.pc, None, z3.And(cs), wit, lambda m, w: 'prepare-' + w['kind2'])
                        ck.require(exq, 'Q2_prepared_keys_exclusive', r.pc, t2 != pt.t1, k2.id != pt.k1.id, wit, q2_key)
                    else:
                        q_conf += 1
                        cs.append(z3.BoolVal(len(pm.keys) == 1))
                        ck.require(exq, 'Q1_prepare_applies_nothing', r.pc, None, z3.And(cs), wit, lambda m, w: 'prepare-' + w['kind2'])
if q_yes == 0 or q_conf == 0:
    ck.inconclusive.append(f'vacuous: participant prepare voted Yes on {q_yes} paths, refused on {q_conf}')

# ------------------------------------------------------------------ Q3 commit, Q4 abort / cleanup_stale
ck.declare('Q3_commit_applies_exactly_its_writes', 'commit(t) for a symbolic t, one prepared transaction (Put or Delete on k1), store 0..2 keys',
           't prepared: afterwards k1 holds a value whose "data" field is the operation\'s bytes (Put) or is absent (Delete), every other key is untouched, the transaction is forgotten and no lock '
           'carries its handle; t unknown: nothing changes and success = false')
ck.declare('Q4_abort_leaves_data_as_it_was', 'abort(t) / cleanup_stale(timeout) under the same pre-states',
           'every key of the store maps to the value it had (none added, none removed); an aborted or stale transaction is forgotten and no lock carries its handle; abort of an unknown transaction changes nothing')
for nstore in (0, 1, 2):
    for kind1 in ('Put', 'Delete'):
        for call in ('commit', 'abort', 'cleanup_stale'):
            for (st, pt, snap) in pre_states(nstore, kind1):
                t = z3.BitVec('t_arg', 64)
                if call == 'cleanup_stale':
                    tmo = st.fresh('std::time::Duration', 'stale_timeout')
                    args = [ref(st.roots['part']), tmo]
                else:
                    args = [ref(st.roots['part']), Int(t, False)]
                res = runq(st, 'TxParticipant::' + call, args)
                ck.note_path_problem(res, f'{call} store={nstore} {kind1}')
                for r in res:
                    wit = lambda m, r=r, pt=pt, snap=snap, call=call: dict(pdump(m, pt, snap), participant=call, t=mval(m, t))
                    ob = 'Q3_commit_applies_exactly_its_writes' if call == 'commit' else 'Q4_abort_leaves_data_as_it_was'
                    if r.status == 'panic':
                        ck.require(exq, ob, r.pc, None, z3.BoolVal(False), wit, lambda m, w: 'participant-panic')
                        continue
                    if r.status != 'return':
                        continue
                    f = r.st
                    pm = prepared_ids(f)
                    gone = len(pm.keys) == 0
                    L = lock_list(f)
                    no_h1 = z3.And([h != pt.h1 for (_, _, h) in L] + [z3.BoolVal(True)])
                    if call == 'commit':
                        hit = t == pt.t1
                        succ = r.retval.load(Pq.field('TxResponse', 'success'), 'bool', f)
                        kv = kv_of(f)
                        # value at k1 afterwards
                        at_k1 = [(k, v) for k, v in zip(kv.keys, kv.vals)]
                        others_same = []
                        for (kid, v) in snap:
                            alts = [k.id == kid for k, w in at_k1 if same_obj(w, v)]
                            others_same.append(z3.Implies(kid != pt.k1.id, z3.Or(alts) if alts else z3.BoolVal(False)))
                        no_new = [z3.Or([k.id == kid for kid, _ in snap] + [k.id == pt.k1.id]) for k, _ in at_k1]
                        if gone:
                            if kind1 == 'Put':
                                good = []
                                for k, v in at_k1:
                                    fm = v.fields.get('f') if isinstance(v, Struct) else None
                                    is_new = fm is not None and fm.keys is not None and len(fm.keys) == 1 and getattr(fm.keys[0], 'text', None) == 'data'
                                    if is_new:
                                        tv = fm.vals[0]
                                        try:
                                            by = tv.fields[('Scalar', 0)].fields[('Bytes', 0)]
                                            same_bytes = z3.And([a.v == b.v for a, b in zip(by.items(f), pt.d1.items(f))] + [z3.BoolVal(len(by.items(f)) == 1)])
                                        except Exception:
                                            same_bytes = z3.BoolVal(False)
                                        good.append(z3.And(k.id == pt.k1.id, same_bytes))
                                applied = z3.Or(good) if good else z3.BoolVal(False)
                            else:
                                applied = z3.And([k.id != pt.k1.id for k, _ in at_k1] + [z3.BoolVal(True)])
                            concl = z3.And([hit, succ, applied, no_h1] + others_same + no_new)
                        else:
                            concl = z3.And(z3.Not(hit), z3.Not(succ), store_same(f, snap))
                        ck.require(exq, ob, r.pc, None, concl, wit, lambda m, w: 'participant-commit')
                    elif call == 'abort':
                        hit = t == pt.t1
                        concl = z3.And(store_same(f, snap), z3.BoolVal(gone) == hit, z3.Implies(hit, no_h1))
                        ck.require(exq, ob, r.pc, None, concl, wit, lambda m, w: 'participant-abort')
                    else:
                        concl = z3.And(store_same(f, snap), z3.Implies(z3.BoolVal(gone), no_h1))
                        ck.require(exq, ob, r.pc, None, concl, wit, lambda m, w: 'participant-stale')
ck.functions += ['TxParticipant::prepare', 'TxParticipant::commit', 'TxParticipant::abort', 'TxParticipant::cleanup_stale', 'TxParticipant::apply_operations',
                 'UndoEntry::capture', 'UndoEntry::apply', 'Transaction::affected_key', 'Transaction::storage_key']
