"""C06 — similarity search: the stored-representation round trip only.
SparseVector::try_from_dense -> to_dense from tensor_store's MIR, every f32 bit pattern."""
import sys
import os
sys.path.insert(0, os.path.dirname(os.path.dirname(os.path.abspath(__file__))))
from props.common import *

ck = Check('C06')
T = ck.tier
ex = ck.executor('tensor_store', unroll=48, max_paths=100000)
P = ex.prog
DIM = 4 if T == 'quick' else 6
ck.bounds = {'dimension': f'0..{DIM}', 'elements': 'every f32 bit pattern (NaN payloads, +-0, +-inf, subnormals)'}
ck.assumptions = ['equality of a read-back element: bit-identical, or both are zeros (the sparse form drops -0.0 together with +0.0 because it tests val != 0.0; -0.0 reads back as +0.0)',
                  'NOT decided: scores, top-k order, HNSW results, cache invalidation, metadata filters (state lives in TensorStore / HNSW heap structures)']
F = lambda n: P.field('SparseVector', n)


def run(st, fname, args):
    st.frames = []
    ex.call(st, fname, args)
    return ex.run(st)


ck.declare('S1_dense_roundtrip', f'dimension 0..{DIM}', 'to_dense(try_from_dense(v)) has the same length and every element reads back (bit-identical, zeros as zero)')
ck.declare('S2_representation', f'dimension 0..{DIM}', 'positions strictly increasing and < dimension, one value per position, no stored zero')
stored_some = 0
for n in range(DIM + 1):
    st = ex.new_state()
    bits = [z3.BitVec(f'x{i}', 32) for i in range(n)]
    vals = []
    for b in bits:
        x = z3.fpBVToFP(b, z3.Float32())
        st.env.setdefault('fbits', {})[('fbits', x.get_id())] = b
        vals.append(Flt(x))
    res = run(st, 'SparseVector::try_from_dense', [ref(Seq('f32', list(vals)))])
    ck.note_path_problem(res, f'try_from_dense n={n}')
    for r in res:
        wit = lambda m: {'dense_bits': [hex(mval(m, b)) for b in bits]}
        if r.status == 'panic' or (r.status == 'return' and r.retval.variant != 'Ok'):
            ck.require(ex, 'S1_dense_roundtrip', r.pc, None, z3.BoolVal(False), wit, lambda m, w: 'from-dense-failed')
            continue
        if r.status != 'return':
            continue
        sv = r.retval.fields[('Ok', 0)]
        pos = sv.load(F('positions'), None, r.st).items(r.st)
        vs = sv.load(F('values'), None, r.st).items(r.st)
        dim = sv.load(F('dimension'), None, r.st).v
        rep = z3.And([dim == n, z3.BoolVal(len(pos) == len(vs))] + [z3.ULT(p.v, n) for p in pos] +
                     [z3.ULT(a.v, b.v) for a, b in zip(pos, pos[1:])] + [z3.Not(z3.fpIsZero(v.v)) for v in vs])
        ck.require(ex, 'S2_representation', r.pc, None, rep, wit, lambda m, w: 'representation')
        if pos:
            stored_some += 1
        for r2 in run(r.st, 'SparseVector::to_dense', [ref(sv)]):
            if r2.status == 'panic':
                ck.require(ex, 'S1_dense_roundtrip', r2.pc, None, z3.BoolVal(False), wit, lambda m, w: 'to-dense-panic')
                continue
            if r2.status != 'return':
                ck.note_path_problem([r2], 'to_dense')
                continue
            out = r2.retval.items(r2.st)
            if len(out) != n:
                ck.require(ex, 'S1_dense_roundtrip', r2.pc, None, z3.BoolVal(False), wit, lambda m, w: 'length')
                continue
            cs = []
            for o, v in zip(out, vals):
                cs.append(z3.Or(z3.fpToIEEEBV(o.v) == z3.fpToIEEEBV(v.v) if False else o.v == v.v, z3.And(z3.fpIsZero(o.v), z3.fpIsZero(v.v))))
            ck.require(ex, 'S1_dense_roundtrip', r2.pc, None, z3.And(cs) if cs else z3.BoolVal(True), wit, lambda m, w: 'element')
if stored_some == 0:
    ck.inconclusive.append('vacuous: no path stores a non-zero element')
ck.sample({'obligation': 'S1', 'dimension_max': DIM, 'paths_with_stored_elements': stored_some})

# ------------------------------------------------------------------ Q1: the exhaustive search of a named collection - structure only
# VectorEngine::search_in_collection from vector_engine's MIR.  The store yields 2 keys whose vectors have concrete lengths (the
# query's or another) and symbolic contents; compute_score is a stub returning an arbitrary non-NaN score per vector (the arithmetic of
# the metrics is NOT decided); the collection's configured dimension is absent or symbolic; top_k symbolic; no cached index.
from mirsym.models import some, none, ok as _ok, err as _err, deref
exv = ck.executor('vector_engine', unroll=24, default_maxlen=1, max_paths=20000)
PV = exv.prog
QN = 2
LENS = [(2, 3), (3, 2), (2, 2), (3, 3)] + ([(2, 2, 2), (2, 3, 2), (3, 2, 2)] if T != 'quick' else [])
ck.bounds['collection search'] = f'query of {QN} elements, stored vectors of lengths {LENS} (contents and scores symbolic), configured dimension None or symbolic, top_k symbolic u64, no cached index'
ck.assumptions += ['Q1: compute_score is an arbitrary non-NaN f32 per stored vector (metric arithmetic not decided); the search deadline never expires; slice::sort_by is a stable insertion sort calling the closure',
                   'Q1: NOT decided: scores themselves, the cached-index path, metadata filters, the default collection']
ck.declare('Q1_collection_search_filters_orders_and_bounds', f'search_in_collection on {len(LENS)} stored-length patterns x configured dimension None / symbolic, top_k symbolic',
           'Ok => every hit is a stored vector of the query\'s dimension with the score computed for it, no key twice, hits ordered best first, exactly min(top_k, matching vectors) hits and none of the '
           'dropped ones beats a kept one; Err only for top_k = 0 or a configured dimension different from the query\'s')


def _fl(name):
    return Flt(z3.FP(name, z3.Float32()))


def _ov_scan(c):
    return Seq('std::string::String', [Str(text=f'coll:c:emb:k{i}') for i in range(len(c.st.env['lens']))])


def _ov_get(c):
    i = int(deref(c.st, c.args[1]).text[-1])
    vec = Enum('TensorValue', PV.variant_index('TensorValue', 'Vector'), {('Vector', 0): Seq('f32', [_fl(f'v{i}[{j}]') for j in range(c.st.env['lens'][i])])}, variant='Vector')
    return _ok(Struct('TensorData', {'f': Map('std::string::String', 'TensorValue', [Str(text='vector')], [vec])}), 'Result<TensorData, TensorStoreError>')


def _ov_td_get(c):
    from mirsym.exec import TypedPtr
    from mirsym.models_iter import map_find
    m = deref(c.st, c.args[0]).fields['f']
    i = map_find(c.st, m, c.args[1], 'tensor.get')
    return none('Option<&TensorValue>') if i is None else some(TypedPtr(m, i, 'TensorValue'), 'Option<&TensorValue>')


def _ov_score(c):
    v = deref(c.st, c.args[1])
    first = str(v.items(c.st)[0].v).strip('|')            # v<i>[0]
    i = int(first[1:first.index('[')])
    sc = z3.FP(f'score{i}', z3.Float32())
    c.st.assume(z3.Not(z3.fpIsNaN(sc)))
    c.st.notes.append(('scored', i, v.length(c.st)))
    return Flt(sc)


exv.extra_models.update({
    'Deadline::from_duration': lambda c: Opaque('Deadline'), 'Deadline::is_expired': lambda c: z3.BoolVal(False),
    'VectorEngine::collection_embedding_prefix': lambda c: Str(text='coll:c:emb:'), 'VectorEngine::magnitude': lambda c: _fl('qmag'),
    'TensorStore::scan': _ov_scan, 'TensorStore::get': _ov_get, 'TensorData::get': _ov_td_get, 'VectorEngine::compute_score': _ov_score,
})
q1_ok = 0
for lens, dimkind in [(l, d) for l in LENS for d in ('none', 'some')]:
    st = exv.new_state()
    st.env['lens'] = lens
    cfgdim, top_k = z3.BitVec('cfgdim', 64), z3.BitVec('top_k', 64)
    cfg = Struct('VectorCollectionConfig', {PV.field('VectorCollectionConfig', 'dimension'): none('Option<usize>') if dimkind == 'none' else some(Int(cfgdim, False), 'Option<usize>'),
                                            PV.field('VectorCollectionConfig', 'distance_metric'): Enum('DistanceMetric', PV.variant_index('DistanceMetric', 'DotProduct'), {}, variant='DotProduct'),
                                            PV.field('VectorCollectionConfig', 'auto_index'): z3.BoolVal(False), PV.field('VectorCollectionConfig', 'auto_index_threshold'): Int(z3.BitVecVal(0, 64), False)})
    lock = lambda m_: Ptr(Cell(val=Struct('RwLock', {'data': Cell(val=m_)})), 0)
    eng = Struct('VectorEngine', {PV.field('VectorEngine', 'collections'): lock(Map('std::string::String', 'VectorCollectionConfig', [Str(text='c')], [cfg])),
                                  PV.field('VectorEngine', 'hnsw_cache'): lock(Map('std::string::String', 'HnswCacheEntry', [], []))}, lazy='VE')
    st.frames = []
    exv.call(st, 'VectorEngine::search_in_collection', [ref(eng), Str(text='c'), ref(Seq('f32', [_fl(f'q[{i}]') for i in range(QN)])), Int(top_k, False)])
    res = exv.run(st)
    ck.note_path_problem(res, f'search_in_collection lens={lens} dim={dimkind}')
    same = [i for i, n in enumerate(lens) if n == QN]
    for r in res:
        wit = lambda m, lens=lens, dimkind=dimkind: {'op': 'collection_search', 'lens': list(lens), 'query_len': QN, 'cfg_dim': None if dimkind == 'none' else mval(m, cfgdim), 'top_k': mval(m, top_k)}
        if r.status == 'panic':
            ck.require(exv, 'Q1_collection_search_filters_orders_and_bounds', r.pc, None, z3.BoolVal(False), wit, lambda m, w: 'collection-search-panic')
            continue
        if r.status != 'return':
            continue
        if r.retval.variant != 'Ok':
            ok_err = z3.Or(top_k == 0, z3.BoolVal(dimkind == 'some') if dimkind == 'none' else cfgdim != QN)
            ck.require(exv, 'Q1_collection_search_filters_orders_and_bounds', r.pc, None, ok_err, wit, lambda m, w: 'collection-search-refused')
            continue
        q1_ok += 1
        hits = r.retval.fields[('Ok', 0)].items(r.st)
        keys = [h.load(PV.field('SearchResult', 'key'), None, r.st) for h in hits]
        scores = [h.load(PV.field('SearchResult', 'score'), None, r.st).v for h in hits]
        idx = [int(k.text[-1]) if getattr(k, 'text', None) and k.text[-1].isdigit() else None for k in keys]
        cs = [z3.BoolVal(all(i is not None and lens[i] == QN for i in idx) and len(set(idx)) == len(idx))]
        cs += [sc == z3.FP(f'score{i}', z3.Float32()) for sc, i in zip(scores, idx) if i is not None]
        cs += [z3.Not(z3.fpLT(a, b)) for a, b in zip(scores, scores[1:])]
        cnt = z3.BitVecVal(len(same), 64)
        cs.append(z3.BitVecVal(len(hits), 64) == z3.If(z3.ULT(top_k, cnt), top_k, cnt))
        for i in same:
            if i not in idx:
                cs += [z3.Not(z3.fpGT(z3.FP(f'score{i}', z3.Float32()), sc)) for sc in scores]
        ck.require(exv, 'Q1_collection_search_filters_orders_and_bounds', r.pc, None, z3.And(cs), wit, lambda m, w: 'collection-search-wrong-hits')
if q1_ok == 0:
    ck.inconclusive.append('Q1 vacuous: search_in_collection never returned hits')
ck.functions += ['VectorEngine::search_in_collection', 'VectorEngine::extract_vector']

# ------------------------------------------------------------------ Q2: every mutator drops the cached index of the collection it changed
# "the index is never consulted after the data it was built from changed": search_similar / search_in_collection consult hnsw_cache
# whenever it has an entry for the collection.  Each function of VectorEngine that writes or deletes an embedding record is executed
# from MIR with the store a recording stub (put / delete succeed or fail) and a cache holding entries for the default collection and
# for collection "c": when an embedding record was written or deleted, the entry of that collection must be gone at return.
MUTATORS = {
    'store_embedding': ('_default', lambda: [Str(text='k'), _vec2()]), 'delete_embedding': ('_default', lambda: [Str(text='k')]),
    'store_embedding_with_metadata': ('_default', lambda: [Str(text='k'), _vec2(), Map('std::string::String', 'TensorValue', [], [])]),
    'store_in_collection_with_metadata': ('c', lambda: [Str(text='c'), Str(text='k'), _vec2(), Map('std::string::String', 'TensorValue', [], [])]),
    'delete_from_collection': ('c', lambda: [Str(text='c'), Str(text='k')]),
    'batch_delete_embeddings': ('_default', lambda: [Seq('std::string::String', [Str(text='k')])]),
    'clear': ('_default', lambda: []), 'delete_collection': ('c', lambda: [Str(text='c')]),
}
_vec2 = lambda: Seq('f32', [_fl('x0'), _fl('x1')])
ck.declare('Q2_mutators_drop_the_cached_index', f'{sorted(MUTATORS)} with a cached index present for the default collection and for one named collection; store writes succeed or fail',
           'a successful write or delete of an embedding record => no cache entry for that collection at return; other collections\' entries untouched')
# a function that writes embedding records and is not in the list would escape the obligation: look for such functions in the source
import re as _re
_vsrc = open(os.path.join(REPO, 'vector_engine', 'src', 'lib.rs')).read()
_vsrc = _vsrc[:_vsrc.index('#[cfg(test)]')] if '#[cfg(test)]' in _vsrc else _vsrc
_unlisted = []
for m_ in _re.finditer(r'\n    pub fn (\w+)\s*\(\s*&self[^{]*\{(.*?)\n    \}\n', _vsrc, _re.S):
    name_, body_ = m_.group(1), m_.group(2)
    if _re.search(r'self\.store\.(put|delete)\(', body_) and _re.search(r'embedding_key|embedding_prefix', body_) and name_ not in MUTATORS:
        _unlisted.append(name_)
if _unlisted:
    ck.inconclusive.append(f'Q2: functions that write embedding records and are not covered: {_unlisted}')


def _rec(kind):
    def f(c):
        k = deref(c.st, c.args[1])
        good = c.st.choose(2, kind + ' ok/err') == 0
        c.st.notes.append((kind, getattr(k, 'text', None), good))
        return _ok(UNIT, 'Result<(), TensorStoreError>') if good else _err(Opaque('TensorStoreError'), 'Result<(), TensorStoreError>')
    return f


q2_saved = dict(exv.extra_models)
exv.extra_models.update({
    'VectorEngine::should_use_sparse': lambda c: z3.BoolVal(False),
    'VectorEngine::embedding_key': lambda c: Str(text='emb:k'), 'VectorEngine::collection_embedding_key': lambda c: Str(text='coll:c:emb:k'),
    'VectorEngine::embedding_prefix': lambda c: Str(text='emb:'), 'VectorEngine::collection_embedding_prefix': lambda c: Str(text='coll:c:emb:'),
    'VectorEngine::metadata_field_key': lambda c: Str(text='meta:f'), 'TensorData::new': lambda c: Struct('TensorData', {}), 'TensorData::set': lambda c: UNIT,
    'TensorStore::put': _rec('put'), 'TensorStore::delete': _rec('delete'), 'TensorStore::exists': lambda c: z3.Bool('record_exists'),
    'TensorStore::scan': lambda c: Seq('std::string::String', [Str(text='emb:k')]),
})
q2_written = 0
for fn_, (coll_, mk_) in MUTATORS.items():
    st = exv.new_state()
    cfg = Struct('VectorCollectionConfig', {PV.field('VectorCollectionConfig', 'dimension'): none('Option<usize>'),
                                            PV.field('VectorCollectionConfig', 'distance_metric'): Enum('DistanceMetric', PV.variant_index('DistanceMetric', 'Cosine'), {}, variant='Cosine'),
                                            PV.field('VectorCollectionConfig', 'auto_index'): z3.BoolVal(False), PV.field('VectorCollectionConfig', 'auto_index_threshold'): Int(z3.BitVecVal(0, 64), False)})
    cache = Map('std::string::String', 'HnswCacheEntry', [Str(text='_default'), Str(text='c')], [Opaque('HnswCacheEntry'), Opaque('HnswCacheEntry')])
    lock = lambda m_: Ptr(Cell(val=Struct('RwLock', {'data': Cell(val=m_)})), 0)
    ecfg = Struct('VectorEngineConfig', {PV.field('VectorEngineConfig', 'max_dimension'): none('Option<usize>'), PV.field('VectorEngineConfig', 'max_keys_per_scan'): none('Option<usize>')}, lazy='VECFG')
    eng = Struct('VectorEngine', {PV.field('VectorEngine', 'collections'): lock(Map('std::string::String', 'VectorCollectionConfig', [Str(text='c')], [cfg])),
                                  PV.field('VectorEngine', 'hnsw_cache'): lock(cache), PV.field('VectorEngine', 'config'): ecfg,
                                  PV.field('VectorEngine', 'delete_lock'): Struct('RwLock', {'data': Cell(val=UNIT)})}, lazy='VE')
    st.roots['cache'] = cache
    st.frames = []
    exv.call(st, 'VectorEngine::' + fn_, [ref(eng)] + mk_())
    res = exv.run(st)
    ck.note_path_problem(res, f'VectorEngine::{fn_}')
    other = 'c' if coll_ == '_default' else '_default'
    for r in res:
        wit = lambda m, fn_=fn_: {'op': 'stale_index', 'mutator': fn_}
        if r.status == 'panic':
            ck.require(exv, 'Q2_mutators_drop_the_cached_index', r.pc, None, z3.BoolVal(False), wit, lambda m, w: 'mutator-panic')
            continue
        if r.status != 'return':
            continue
        wrote = any(x[0] in ('put', 'delete') and x[2] for x in r.st.notes)
        left = [k.text for k in r.st.roots['cache'].keys]
        if wrote:
            q2_written += 1
        ck.require(exv, 'Q2_mutators_drop_the_cached_index', r.pc, None, z3.BoolVal((not wrote or coll_ not in left) and other in left), wit, lambda m, w: 'cached-index-survives:' + w['mutator'])
exv.extra_models.clear()
exv.extra_models.update(q2_saved)
if q2_written == 0:
    ck.inconclusive.append('Q2 vacuous: no mutator wrote an embedding record')
ck.functions += ['VectorEngine::' + f_ for f_ in MUTATORS]

for v in [v for v in ck.violations if v['witness'].get('op') == 'stale_index']:
    rep = Replay.call({**v['witness'], 'op': 'vector_stale_index'})
    v['native'] = rep
    v['replayed'] = rep.get('violates')
for v in [v for v in ck.violations if v['witness'].get('op') == 'collection_search']:
    rep = Replay.call({**v['witness'], 'op': 'vector_collection_search'})
    v['native'] = rep
    v['replayed'] = rep.get('violates')
for v in [v for v in ck.violations if 'dense_bits' in v['witness']]:
    rep = Replay.call({'op': 'sparse_roundtrip', 'bits': [int(x, 16) for x in v['witness'].get('dense_bits', [])]})
    v['native'] = rep
    v['replayed'] = rep.get('violates')
ck.functions += ['SparseVector::try_from_dense', 'SparseVector::to_dense']
if __name__ == '__main__':
    ck.finish()
