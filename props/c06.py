"""C06 — similarity search: the stored-representation round trip only.
SparseVector::try_from_dense -> to_dense from tensor_store's MIR, every f32 bit pattern."""
import sys
import os
sys.path.insert(0, os.path.dirname(os.path.dirname(os.path.abspath(__file__))))
from props.common import *

ck = Check('C06')
T = ck.tier
ex = ck.executor('tensor_store', unroll=48, max_paths=100000)
P = ex.prog
DIM = 4 if T == 'quick' else 6
ck.bounds = {'dimension': f'0..{DIM}', 'elements': 'every f32 bit pattern (NaN payloads, +-0, +-inf, subnormals)'}
ck.assumptions = ['equality of a read-back element: bit-identical, or both are zeros (the sparse form drops -0.0 together with +0.0 because it tests val != 0.0; -0.0 reads back as +0.0)',
                  'NOT decided: scores, top-k order, HNSW results, cache invalidation, metadata filters (state lives in TensorStore / HNSW heap structures)']
F = lambda n: P.field('SparseVector', n)


def run(st, fname, args):
    st.frames = []
    ex.call(st, fname, args)
    return ex.run(st)


ck.declare('S1_dense_roundtrip', f'dimension 0..{DIM}', 'to_dense(try_from_dense(v)) has the same length and every element reads back (bit-identical, zeros as zero)')
ck.declare('S2_representation', f'dimension 0..{DIM}', 'positions strictly increasing and < dimension, one value per position, no stored zero')
stored_some = 0
for n in range(DIM + 1):
    st = ex.new_state()
    bits = [z3.BitVec(f'x{i}', 32) for i in range(n)]
    vals = []
    for b in bits:
        x = z3.fpBVToFP(b, z3.Float32())
        st.env.setdefault('fbits', {})[('fbits', x.get_id())] = b
        vals.append(Flt(x))
    res = run(st, 'SparseVector::try_from_dense', [ref(Seq('f32', list(vals)))])
    ck.note_path_problem(res, f'try_from_dense n={n}')
    for r in res:
        wit = lambda m: {'dense_bits': [hex(mval(m, b)) for b in bits]}
        if r.status == 'panic' or (r.status == 'return' and r.retval.variant != 'Ok'):
            ck.require(ex, 'S1_dense_roundtrip', r.pc, None, z3.BoolVal(False), wit, lambda m, w: 'from-dense-failed')
            continue
        if r.status != 'return':
            continue
        sv = r.retval.fields[('Ok', 0)]
        pos = sv.load(F('positions'), None, r.st).items(r.st)
        vs = sv.load(F('values'), None, r.st).items(r.st)
        dim = sv.load(F('dimension'), None, r.st).v
        rep = z3.And([dim == n, z3.BoolVal(len(pos) == len(vs))] + [z3.ULT(p.v, n) for p in pos] +
                     [z3.ULT(a.v, b.v) for a, b in zip(pos, pos[1:])] + [z3.Not(z3.fpIsZero(v.v)) for v in vs])
        ck.require(ex, 'S2_representation', r.pc, None, rep, wit, lambda m, w: 'representation')
        if pos:
            stored_some += 1
        for r2 in run(r.st, 'SparseVector::to_dense', [ref(sv)]):
            if r2.status == 'panic':
                ck.require(ex, 'S1_dense_roundtrip', r2.pc, None, z3.BoolVal(False), wit, lambda m, w: 'to-dense-panic')
                continue
            if r2.status != 'return':
                ck.note_path_problem([r2], 'to_dense')
                continue
            out = r2.retval.items(r2.st)
            if len(out) != n:
                ck.require(ex, 'S1_dense_roundtrip', r2.pc, None, z3.BoolVal(False), wit, lambda m, w: 'length')
                continue
            cs = []
            for o, v in zip(out, vals):
                cs.append(z3.Or(z3.fpToIEEEBV(o.v) == z3.fpToIEEEBV(v.v) if False else o.v == v.v, z3.And(z3.fpIsZero(o.v), z3.fpIsZero(v.v))))
            ck.require(ex, 'S1_dense_roundtrip', r2.pc, None, z3.And(cs) if cs else z3.BoolVal(True), wit, lambda m, w: 'element')
if stored_some == 0:
    ck.inconclusive.append('vacuous: no path stores a non-zero element')
ck.sample({'obligation': 'S1', 'dimension_max': DIM, 'paths_with_stored_elements': stored_some})

for v in ck.violations:
    rep = Replay.call({'op': 'sparse_roundtrip', 'bits': [int(x, 16) for x in v['witness'].get('dense_bits', [])]})
    v['native'] = rep
    v['replayed'] = rep.get('violates')
ck.functions += ['SparseVector::try_from_dense', 'SparseVector::to_dense']
if __name__ == '__main__':
    ck.finish()
