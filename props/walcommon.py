"""Shared crash/recover scenario driver for the three write-ahead logs (C02, C10, C13).

The WAL implementation is executed from its MIR on the byte-list file model of
mirsym/models_fs.py.  A crash = truncate the file to any length between the synced
length before the last append and its full length; the process state is dropped."""
from props.common import *
from mirsym.models import ok, err, none, some
from mirsym.models_fs import FileObj, fs


class WalScenario:
    def __init__(self, ck, ex, open_fn, append_fn, replay_fn, entry_ty, path='wal', open_args=None, replay_args=None):
        self.ck, self.ex = ck, ex
        self.open_fn, self.append_fn, self.replay_fn = open_fn, append_fn, replay_fn
        self.entry_ty = entry_ty
        self.path = path
        self.open_args = open_args or (lambda st: [])
        self.replay_args = replay_args or (lambda st: [])

    def run(self, st, fname, args):
        st.frames = []
        self.ex.call(st, fname, args)
        return self.ex.run(st)

    def open(self, st, what):
        """-> list of (state, wal_ptr) for successful opens; failures are recorded"""
        res = self.run(st, self.open_fn, [ref(Str(text=self.path))] + self.open_args(st))
        self.ck.note_path_problem(res, f'{self.open_fn} ({what})')
        out = []
        for r in res:
            if r.status == 'panic':
                out.append((r.st, None, 'panic: ' + str(r.msg)))
                continue
            if r.status != 'return':
                continue
            rv = r.retval
            if rv.variant == 'Ok':
                wal = rv.fields[('Ok', 0)]
                p = ref(wal)
                r.st.roots['wal'] = p
                out.append((r.st, p, None))
            else:
                out.append((r.st, None, 'open returned Err'))
        return out

    def append(self, st, entry, what):
        res = self.run(st, self.append_fn, [st.roots['wal'], ref(entry)])
        self.ck.note_path_problem(res, f'{self.append_fn} ({what})')
        out = []
        for r in res:
            if r.status == 'panic':
                out.append((r.st, 'panic: ' + str(r.msg)))
            elif r.status == 'return':
                out.append((r.st, None if r.retval.variant == 'Ok' else 'append returned Err'))
        return out

    def replay(self, st, what):
        res = self.run(st, self.replay_fn, [st.roots['wal']] + self.replay_args(st))
        self.ck.note_path_problem(res, f'{self.replay_fn} ({what})')
        out = []
        for r in res:
            if r.status == 'panic':
                out.append((r, None, 'panic: ' + str(r.msg)))
            elif r.status == 'return':
                if r.retval.variant == 'Ok':
                    out.append((r, r.retval.fields[('Ok', 0)].items(r.st), None))
                else:
                    out.append((r, None, 'replay returned Err'))
        return out

    def file(self, st):
        return fs(st)[self.path]

    def crash(self, st, cut):
        """process dies; the file keeps its first `cut` bytes"""
        s2 = st.clone()
        f = fs(s2)[self.path]
        del f.data[cut:]
        f.synced = len(f.data)
        s2.roots.pop('wal', None)
        s2.frames = []
        return s2


def entries_are(st, got, names):
    """python bool: the replayed entries are exactly the recorded objects `names` (by identity)"""
    if len(got) != len(names):
        return False
    # rustc passes last uses as `copy`, so identity is the lazily-created value's path name, not the Python object
    return all(getattr(g, 'lazy', None) == n for g, n in zip(got, names))


def run_wal_obligations(ck, ex, sc, K, LENS, walname, setup=None):
    """W1 clean replay, W2 crash at every byte of the last record, W3 append after recovery"""
    torn_reached = 0

    def expect(names, full, k):
        return names[:k] if full else names[:k - 1]
    ck.declare('W1_clean_replay', f'{K} records', 'reopen after a clean shutdown: replay returns exactly the appended records in order')
    ck.declare('W2_torn_record_dropped', f'crash at every byte of record k, k<={K}', 'reopen + replay is Ok and returns the records wholly written before the cut')
    ck.declare('W3_append_after_recovery', 'same, then one append (fsync returned), clean restart',
               'replay returns the surviving records followed by the newly acknowledged record')
    for L in LENS:
        for k in range(1, K + 1):
            st = ex.new_state()
            st.env['codec_len'] = L
            names = []
            for i in range(1, K + 2):
                st.roots[f'r{i}'] = st.fresh(sc.entry_ty, f'r{i}')
            opened = sc.open(st, 'initial')
            if len(opened) != 1 or opened[0][1] is None:
                ck.inconclusive.append(f'initial open: {len(opened)} outcomes {[o[2] for o in opened]}')
                continue
            cur = opened[0][0]
            lens = [len(sc.file(cur).data)]
            okflag = True
            for i in range(1, k + 1):
                outs = sc.append(cur, cur.roots[f'r{i}'], f'append r{i}')
                good = [o for o in outs if o[1] is None]
                if len(outs) != 1 or not good:
                    ck.inconclusive.append(f'append r{i}: outcomes {[o[1] for o in outs]}')
                    okflag = False
                    break
                cur = good[0][0]
                names.append(f'r{i}')
                lens.append(len(sc.file(cur).data))
            if not okflag:
                continue
            frame = lens[k] - lens[k - 1]
            ck.sample({'scenario': f'{k} records of {L} payload bytes', 'frame_bytes': frame, 'file_lengths': lens})
            for cut in range(lens[k - 1], lens[k] + 1):
                full = cut == lens[k]
                torn = lens[k - 1] < cut < lens[k]
                if torn:
                    torn_reached += 1
                off = cut - lens[k - 1]
                wit0 = {'wal': walname, 'k': k, 'payload_len': L, 'cut_offset': off, 'frame_len': frame}
                key = 'torn-tail' if torn else 'clean-cut'
                crashed = sc.crash(cur, cut)
                for (s1, wp, e1) in sc.open(crashed, f'reopen cut={off}'):
                    if wp is None:
                        ck.require(ex, 'W2_torn_record_dropped', s1.pc, None, z3.BoolVal(False), lambda m, w=dict(wit0, stage='reopen', outcome=e1): w, lambda m, w: key)
                        continue
                    want = expect(names, full, k)
                    for (r, got, e2) in sc.replay(s1, f'replay cut={off}'):
                        good = e2 is None and entries_are(r.st, got, want)
                        ob = 'W1_clean_replay' if full else 'W2_torn_record_dropped'
                        ck.require(ex, ob, r.pc, None, z3.BoolVal(good),
                                   lambda m, w=dict(wit0, stage='replay', outcome=e2 or f'{len(got)} entries, expected {len(want)}'): w, lambda m, w: key)
                    # W3: append after recovery, restart cleanly, replay
                    newname = f'r{K + 1}'
                    for (s2, e3) in sc.append(s1.clone() if False else s1, s1.roots[newname], f'append after recovery cut={off}'):
                        if e3 is not None:
                            ck.require(ex, 'W3_append_after_recovery', s2.pc, None, z3.BoolVal(False), lambda m, w=dict(wit0, stage='append', outcome=e3): w, lambda m, w: key)
                            continue
                        s3 = sc.crash(s2, len(sc.file(s2).data))
                        for (s4, wp4, e4) in sc.open(s3, 'second reopen'):
                            if wp4 is None:
                                ck.require(ex, 'W3_append_after_recovery', s4.pc, None, z3.BoolVal(False), lambda m, w=dict(wit0, stage='reopen2', outcome=e4): w, lambda m, w: key)
                                continue
                            want3 = want + [newname]
                            for (r5, got5, e5) in sc.replay(s4, 'second replay'):
                                good = e5 is None and entries_are(r5.st, got5, want3)
                                newrec = 'present' if e5 is None and any(getattr(g, 'lazy', None) == newname for g in got5) else 'LOST'
                                ck.require(ex, 'W3_append_after_recovery', r5.pc, None, z3.BoolVal(good),
                                           lambda m, w=dict(wit0, stage='replay2', outcome=e5 or f'{len(got5)} entries, expected {len(want3)}; new record {newrec}'): w,
                                           lambda m, w: key)
    if torn_reached == 0:
        ck.inconclusive.append('vacuous: no crash offset strictly inside a record was explored')
    ck.notes.append(f'{torn_reached} crash offsets strictly inside a record')

