"""Shared crash/recover scenario driver for the three write-ahead logs (C02, C10, C13).

The WAL implementation is executed from its MIR on the byte-list file model of
mirsym/models_fs.py.  A crash = truncate the file to any length between the synced
length before the last append and its full length; the process state is dropped."""
from props.common import *
from mirsym.models import ok, err, none, some
from mirsym.models_fs import FileObj, fs


class WalScenario:
    def __init__(self, ck, ex, open_fn, append_fn, replay_fn, entry_ty, path='wal', open_args=None, replay_args=None):
        self.ck, self.ex = ck, ex
        self.open_fn, self.append_fn, self.replay_fn = open_fn, append_fn, replay_fn
        self.entry_ty = entry_ty
        self.path = path
        self.open_args = open_args or (lambda st: [])
        self.replay_args = replay_args or (lambda st: [])

    def run(self, st, fname, args):
        st.frames = []
        self.ex.call(st, fname, args)
        return self.ex.run(st)

    def open(self, st, what):
        """-> list of (state, wal_ptr) for successful opens; failures are recorded"""
        res = self.run(st, self.open_fn, [ref(Str(text=self.path))] + self.open_args(st))
        self.ck.note_path_problem(res, f'{self.open_fn} ({what})')
        out = []
        for r in res:
            if r.status == 'panic':
                out.append((r.st, None, 'panic: ' + str(r.msg)))
                continue
            if r.status != 'return':
                continue
            rv = r.retval
            if rv.variant == 'Ok':
                wal = rv.fields[('Ok', 0)]
                p = ref(wal)
                r.st.roots['wal'] = p
                out.append((r.st, p, None))
            else:
                out.append((r.st, None, 'open returned Err'))
        return out

    def append(self, st, entry, what):
        res = self.run(st, self.append_fn, [st.roots['wal'], ref(entry)])
        self.ck.note_path_problem(res, f'{self.append_fn} ({what})')
        out = []
        for r in res:
            if r.status == 'panic':
                out.append((r.st, 'panic: ' + str(r.msg)))
            elif r.status == 'return':
                out.append((r.st, None if r.retval.variant == 'Ok' else 'append returned Err'))
        return out

    def replay(self, st, what):
        res = self.run(st, self.replay_fn, [st.roots['wal']] + self.replay_args(st))
        self.ck.note_path_problem(res, f'{self.replay_fn} ({what})')
        out = []
        for r in res:
            if r.status == 'panic':
                out.append((r, None, 'panic: ' + str(r.msg)))
            elif r.status == 'return':
                if r.retval.variant == 'Ok':
                    out.append((r, r.retval.fields[('Ok', 0)].items(r.st), None))
                else:
                    out.append((r, None, 'replay returned Err'))
        return out

    def file(self, st):
        return fs(st)[self.path]

    def crash(self, st, cut):
        """process dies; the file keeps its first `cut` bytes"""
        s2 = st.clone()
        f = fs(s2)[self.path]
        del f.data[cut:]
        f.synced = len(f.data)
        s2.roots.pop('wal', None)
        s2.frames = []
        return s2


def entries_are(st, got, names):
    """python bool: the replayed entries are exactly the recorded objects `names` (by identity)"""
    if len(got) != len(names):
        return False
    # rustc passes last uses as `copy`, so identity is the lazily-created value's path name, not the Python object
    return all(getattr(g, 'lazy', None) == n for g, n in zip(got, names))


def run_wal_obligations(ck, ex, sc, K, LENS, walname, setup=None):
    """W1 clean replay, W2 crash at every byte of the last record, W3 append after recovery"""
    torn_reached = 0

    def expect(names, full, k):
        return names[:k] if full else names[:k - 1]
    ck.declare('W1_clean_replay', f'{K} records', 'reopen after a clean shutdown: replay returns exactly the appended records in order')
    ck.declare('W2_torn_record_dropped', f'crash at every byte of record k, k<={K}', 'reopen + replay is Ok and returns the records wholly written before the cut')
    ck.declare('W3_append_after_recovery', 'same, then one append (fsync returned), clean restart',
               'replay returns the surviving records followed by the newly acknowledged record')
    for L in LENS:
        for k in range(1, K + 1):
            st = ex.new_state()
            st.env['codec_len'] = L
            names = []
            for i in range(1, K + 2):
                st.roots[f'r{i}'] = st.fresh(sc.entry_ty, f'r{i}')
            opened = sc.open(st, 'initial')
            if len(opened) != 1 or opened[0][1] is None:
                ck.inconclusive.append(f'initial open: {len(opened)} outcomes {[o[2] for o in opened]}')
                continue
            cur = opened[0][0]
            lens = [len(sc.file(cur).data)]
            okflag = True
            for i in range(1, k + 1):
                outs = sc.append(cur, cur.roots[f'r{i}'], f'append r{i}')
                good = [o for o in outs if o[1] is None]
                if len(outs) != 1 or not good:
                    ck.inconclusive.append(f'append r{i}: outcomes {[o[1] for o in outs]}')
                    okflag = False
                    break
                cur = good[0][0]
                names.append(f'r{i}')
                lens.append(len(sc.file(cur).data))
            if not okflag:
                continue
            frame = lens[k] - lens[k - 1]
            ck.sample({'scenario': f'{k} records of {L} payload bytes', 'frame_bytes': frame, 'file_lengths': lens})
            for cut in range(lens[k - 1], lens[k] + 1):
                full = cut == lens[k]
                torn = lens[k - 1] < cut < lens[k]
                if torn:
                    torn_reached += 1
                off = cut - lens[k - 1]
                wit0 = {'wal': walname, 'k': k, 'payload_len': L, 'cut_offset': off, 'frame_len': frame}
                key = 'torn-tail' if torn else 'clean-cut'
                crashed = sc.crash(cur, cut)
                for (s1, wp, e1) in sc.open(crashed, f'reopen cut={off}'):
                    if wp is None:
                        ck.require(ex, 'W2_torn_record_dropped', s1.pc, None, z3.BoolVal(False), lambda m, w=dict(wit0, stage='reopen', outcome=e1): w, lambda m, w: key)
                        continue
                    want = expect(names, full, k)
                    for (r, got, e2) in sc.replay(s1, f'replay cut={off}'):
                        good = e2 is None and entries_are(r.st, got, want)
                        ob = 'W1_clean_replay' if full else 'W2_torn_record_dropped'
                        ck.require(ex, ob, r.pc, None, z3.BoolVal(good),
                                   lambda m, w=dict(wit0, stage='replay', outcome=e2 or f'{len(got)} entries, expected {len(want)}'): w, lambda m, w: key)
                    # W3: append after recovery, restart cleanly, replay
                    newname = f'r{K + 1}'
                    for (s2, e3) in sc.append(s1.clone() if False else s1, s1.roots[newname], f'append after recovery cut={off}'):
                        if e3 is not None:
                            ck.require(ex, 'W3_append_after_recovery', s2.pc, None, z3.BoolVal(False), lambda m, w=dict(wit0, stage='append', outcome=e3): w, lambda m, w: key)
                            continue
                        s3 = sc.crash(s2, len(sc.file(s2).data))
                        for (s4, wp4, e4) in sc.open(s3, 'second reopen'):
                            if wp4 is None:
                                ck.require(ex, 'W3_append_after_recovery', s4.pc, None, z3.BoolVal(False), lambda m, w=dict(wit0, stage='reopen2', outcome=e4): w, lambda m, w: key)
                                continue
                            want3 = want + [newname]
                            for (r5, got5, e5) in sc.replay(s4, 'second replay'):
                                good = e5 is None and entries_are(r5.st, got5, want3)
                                newrec = 'present' if e5 is None and any(getattr(g, 'lazy', None) == newname for g in got5) else 'LOST'
                                ck.require(ex, 'W3_append_after_recovery', r5.pc, None, z3.BoolVal(good),
                                           lambda m, w=dict(wit0, stage='replay2', outcome=e5 or f'{len(got5)} entries, expected {len(want3)}; new record {newrec}'): w,
                                           lambda m, w: key)
    if torn_reached == 0:
        ck.inconclusive.append('vacuous: no crash offset strictly inside a record was explored')
    run_double_crash(ck, ex, sc, LENS[:1] if ck.tier == 'quick' else LENS, walname)
    ck.notes.append(f'{torn_reached} crash offsets strictly inside a record')



def run_double_crash(ck, ex, sc, LENS, walname):
    """W5: two successive crashes with a write in between - record 1, crash at every byte of it, recover,
    append record 2, crash at every byte of *that* record, recover again, append record 3 (acknowledged), clean restart:
    replay = the survivors of both crashes followed by record 3."""
    ck.declare('W5_two_crashes', 'record r1, crash at every byte of it; recover; append r2, crash at every byte of it; recover; append r3; restart',
               'the final replay is Ok and is exactly [r1 if whole] ++ [r2 if whole] ++ [r3]')
    n5 = 0
    for L in LENS:
        st = ex.new_state()
        st.env['codec_len'] = L
        for i in (1, 2, 3):
            st.roots[f'r{i}'] = st.fresh(sc.entry_ty, f'r{i}')
        opened = sc.open(st, 'W5 initial')
        if len(opened) != 1 or opened[0][1] is None:
            ck.inconclusive.append('W5: initial open failed')
            continue
        cur = opened[0][0]
        len0 = len(sc.file(cur).data)
        outs = [o for o in sc.append(cur, cur.roots['r1'], 'W5 r1') if o[1] is None]
        if len(outs) != 1:
            ck.inconclusive.append('W5: append r1 failed')
            continue
        cur = outs[0][0]
        len1 = len(sc.file(cur).data)
        for cut1 in range(len0, len1 + 1):
            keep1 = cut1 == len1
            for (s1, wp1, e1) in sc.open(sc.crash(cur, cut1), f'W5 reopen1 cut={cut1 - len0}'):
                wit0 = {'wal': walname + '-double', 'payload_len': L, 'cut1': cut1 - len0, 'frame_len': len1 - len0}
                if wp1 is None:
                    ck.require(ex, 'W5_two_crashes', s1.pc, None, z3.BoolVal(False), lambda m, w=dict(wit0, stage='reopen1'): w, lambda m, w: 'double-crash')
                    continue
                base = len(sc.file(s1).data)
                for (s2, e2) in sc.append(s1, s1.roots['r2'], 'W5 r2'):
                    if e2 is not None:
                        ck.require(ex, 'W5_two_crashes', s2.pc, None, z3.BoolVal(False), lambda m, w=dict(wit0, stage='append2', outcome=e2): w, lambda m, w: 'double-crash')
                        continue
                    len2 = len(sc.file(s2).data)
                    for cut2 in range(base, len2 + 1):
                        keep2 = cut2 == len2
                        for (s3, wp3, e3) in sc.open(sc.crash(s2, cut2), 'W5 reopen2'):
                            wit = dict(wit0, cut2=cut2 - base)
                            if wp3 is None:
                                ck.require(ex, 'W5_two_crashes', s3.pc, None, z3.BoolVal(False), lambda m, w=dict(wit, stage='reopen2'): w, lambda m, w: 'double-crash')
                                continue
                            for (s4, e4) in sc.append(s3, s3.roots['r3'], 'W5 r3'):
                                if e4 is not None:
                                    ck.require(ex, 'W5_two_crashes', s4.pc, None, z3.BoolVal(False), lambda m, w=dict(wit, stage='append3', outcome=e4): w, lambda m, w: 'double-crash')
                                    continue
                                for (s5, wp5, e5) in sc.open(sc.crash(s4, len(sc.file(s4).data)), 'W5 reopen3'):
                                    if wp5 is None:
                                        ck.require(ex, 'W5_two_crashes', s5.pc, None, z3.BoolVal(False), lambda m, w=dict(wit, stage='reopen3'): w, lambda m, w: 'double-crash')
                                        continue
                                    want = (['r1'] if keep1 else []) + (['r2'] if keep2 else []) + ['r3']
                                    for (r6, got, e6) in sc.replay(s5, 'W5 replay'):
                                        good = e6 is None and entries_are(r6.st, got, want)
                                        ck.require(ex, 'W5_two_crashes', r6.pc, None, z3.BoolVal(good),
                                                   lambda m, w=dict(wit, stage='replay', outcome=e6 or [getattr(g, 'lazy', None) for g in got], want=want): w, lambda m, w: 'double-crash')
                                        n5 += 1
    if n5 == 0:
        ck.inconclusive.append('vacuous: W5 never instantiated')
    ck.notes.append(f'W5: {n5} double-crash scenarios')


def double_crash_replay(w):
    """native confirmation of a W5 witness: which of r1 r2 r3 the real log returns after the two cuts"""
    rep = Replay.call({'op': 'wal_double', 'wal': w['wal'], 'cut1': w.get('cut1', 0), 'cut2': w.get('cut2', 0), 'frame_len': w.get('frame_len', 10)})
    want = []
    if w.get('cut1', 0) >= w.get('frame_len', 10):
        want.append(1)
    if w.get('cut2', 0) >= w.get('frame_len', 10):
        want.append(2)
    want.append(3)
    return rep, bool(rep.get('errors')) or rep.get('present') != want
