"""C09 — relational transactions: the row-lock kernel only ("writers exclude each other", "locks disappear when the
transaction ends or times out").  RowLockManager::{try_lock, release, is_locked, lock_holder, cleanup_expired} and
RowLock::is_expired executed from relational_engine's MIR.  All-or-nothing commit/rollback over tables and indexes is NOT
decided (engine and slab state are outside the executor)."""
import sys
import os
import itertools
sys.path.insert(0, os.path.dirname(os.path.dirname(os.path.abspath(__file__))))
from props.common import *
from mirsym.models import some, none
from mirsym.models_std import now_ms

ck = Check('C09')
T = ck.tier
ex = ck.executor('relational_engine', unroll=16, default_maxlen=2, max_paths=200000)
P = ex.prog
F = P.field
NL = 2
NR = 2 if T == 'quick' else 3
ck.bounds = {'lock table': f'0..{NL} row locks (table name, row id, owner, acquisition time, timeout all symbolic)', 'reverse index': '0..2 transactions listing the locks they own',
             'requested rows': f'0..{NR} (table, row) pairs, possibly repeated', 'clock': 'fresh non-decreasing readings < 2^62'}
ck.assumptions = [
    'one RowLockManager call from an arbitrary table satisfying the representation invariant I: every lock entry is listed under its owner in the reverse index',
    'now_epoch_millis: fresh non-decreasing readings (every is_expired call may see a later clock)',
    'HashMap iteration: insertion order (quick) / all orders (thorough)',
    'NOT decided: rollback/commit effects on rows and indexes, TransactionManager (DashMap), the engine taking locks before it modifies rows, thread interleavings',
]
if T == 'thorough':
    ex.all_orders = True
U64 = lambda v: z3.BitVecVal(v, 64)
KEY_TY = '(std::string::String, u64)'


def ov_now(c):
    return Int(now_ms(c.st), False)


ex.extra_models.update({'now_epoch_millis': ov_now, 'transaction::now_epoch_millis': ov_now})


def mk_key(tname, row):
    return Struct(KEY_TY, {0: tname, 1: Int(row, False)})


class Table:
    def __init__(self, st, nl, tvecs):
        self.st = st
        self.tn = [Str(z3.BitVec(f'tn{i}', 64)) for i in range(nl)]
        self.row = [z3.BitVec(f'row{i}', 64) for i in range(nl)]
        self.tx = [z3.BitVec(f'ltx{i}', 64) for i in range(nl)]
        self.acq = [z3.BitVec(f'lacq{i}', 64) for i in range(nl)]
        self.tmo = [z3.BitVec(f'ltmo{i}', 64) for i in range(nl)]
        for i in range(nl):
            st.assume(z3.ULT(self.acq[i], U64(1 << 62)))
            for j in range(i + 1, nl):
                st.assume(z3.Not(z3.And(self.tn[i].id == self.tn[j].id, self.row[i] == self.row[j])))
        vals = [Struct('RowLock', {F('RowLock', 'table'): self.tn[i], F('RowLock', 'row_id'): Int(self.row[i], False), F('RowLock', 'tx_id'): Int(self.tx[i], False),
                                   F('RowLock', 'acquired_at_ms'): Int(self.acq[i], False), F('RowLock', 'timeout_ms'): Int(self.tmo[i], False)}) for i in range(nl)]
        self.locks = Map(KEY_TY, 'RowLock', [mk_key(self.tn[i], self.row[i]) for i in range(nl)], vals)
        self.ttx = [z3.BitVec(f'ttx{j}', 64) for j in range(len(tvecs))]
        for a, b in itertools.combinations(self.ttx, 2):
            st.assume(a != b)
        self.tvec = [[(Str(z3.BitVec(f'tk{j}_{m}', 64)), z3.BitVec(f'tr{j}_{m}', 64)) for m in range(n)] for j, n in enumerate(tvecs)]
        self.txlocks = Map('u64', f'std::vec::Vec<{KEY_TY}>', [Int(t, False) for t in self.ttx],
                           [Seq(KEY_TY, [mk_key(a, b) for a, b in v]) for v in self.tvec])
        lm = Struct('RowLockManager', {F('RowLockManager', 'locks'): Struct('RwLock', {'data': Cell(val=self.locks)}),
                                       F('RowLockManager', 'tx_locks'): Struct('RwLock', {'data': Cell(val=self.txlocks)})}, lazy='LM')
        st.roots['lm'] = lm
        # representation invariant I
        for i in range(nl):
            alts = [z3.And(self.ttx[j] == self.tx[i], a.id == self.tn[i].id, b == self.row[i]) for j in range(len(tvecs)) for (a, b) in self.tvec[j]]
            st.assume(z3.Or(alts) if alts else z3.BoolVal(False))

    def dump(self, m):
        return {'locks': [{'table': mval(m, self.tn[i].id), 'row': mval(m, self.row[i]), 'tx': mval(m, self.tx[i]), 'acquired': mval(m, self.acq[i]), 'timeout': mval(m, self.tmo[i])}
                          for i in range(len(self.tn))],
                'tx_locks': [{'tx': mval(m, t), 'rows': [[mval(m, a.id), mval(m, b)] for a, b in v]} for t, v in zip(self.ttx, self.tvec)]}

    def pre(self):
        return [(self.tn[i].id, self.row[i], self.tx[i], self.acq[i], self.tmo[i]) for i in range(len(self.tn))]


def post_tables(st):
    lm = st.roots['lm']
    locks = lm.fields[F('RowLockManager', 'locks')].fields['data'].val
    txl = lm.fields[F('RowLockManager', 'tx_locks')].fields['data'].val
    L = []
    for i, k in enumerate(locks.keys):
        v = locks.load(i, None, st)
        L.append((k.load(0, None, st).id, k.load(1, None, st).v, v.load(F('RowLock', 'tx_id'), 'u64', st).v,
                  v.load(F('RowLock', 'acquired_at_ms'), 'u64', st).v, v.load(F('RowLock', 'timeout_ms'), 'u64', st).v))
    Tm = []
    for j, k in enumerate(txl.keys):
        Tm.append((k.v, [(s.load(0, None, st).id, s.load(1, None, st).v) for s in txl.load(j, None, st).items(st)]))
    return L, Tm


def invariant(L, Tm):
    cs = []
    for (tn, row, t, a, o) in L:
        alts = [z3.And(tt == t, x == tn, y == row) for tt, ks in Tm for (x, y) in ks]
        cs.append(z3.Or(alts) if alts else z3.BoolVal(False))
    return z3.And(cs) if cs else z3.BoolVal(True)


def lookup(L, tn, row):
    present, tx, acq, tmo = z3.BoolVal(False), U64(0), U64(0), U64(0)
    for (a, b, t, aq, to) in L:
        hit = z3.And(a == tn, b == row)
        present = z3.Or(present, hit)
        tx, acq, tmo = z3.If(hit, t, tx), z3.If(hit, aq, acq), z3.If(hit, to, tmo)
    return present, tx, acq, tmo


def age_gt(r, acq, tmo):
    return z3.UGT(z3.If(z3.UGE(r, acq), r - acq, U64(0)), tmo)


def age_ge(r, acq, tmo):
    return z3.UGE(z3.If(z3.UGE(r, acq), r - acq, U64(0)), tmo)


def expired_at_some(st, acq, tmo):
    # the instant age == timeout may count either way (the property does not fix the boundary)
    rs = st.env.get('clock_readings', [])
    return z3.Or([age_ge(r, acq, tmo) for r in rs]) if rs else z3.BoolVal(False)


def live_at_some(st, acq, tmo):
    rs = st.env.get('clock_readings', [])
    return z3.Or([z3.Not(age_gt(r, acq, tmo)) for r in rs]) if rs else z3.BoolVal(False)


def run(st, fname, args):
    st.frames = []
    ex.call(st, fname, args)
    return ex.run(st)


SHAPES = [(0, []), (1, [1]), (1, [2]), (1, [1, 1]), (2, [2]), (2, [1, 1]), (2, [2, 1])]
if T == 'thorough':
    SHAPES += [(2, [1, 2]), (2, [2, 2])]

# ------------------------------------------------------------------ try_lock
ck.declare('R1_conflict_refused', f'try_lock(tx, rows) with 0..{NR} requested rows over every table shape',
           'Err => some requested row is held by another transaction whose lock was unexpired at a clock reading of the call, the error names that holder, and the table is unchanged')
ck.declare('R2_grant_all_or_nothing', 'same',
           'Ok => every requested row is now locked by tx; every other entry is untouched; an entry that changed owner was expired at a clock reading of the call (or was tx\'s own); invariant I holds')
granted = refused = 0
for (nl, tv) in SHAPES:
    for nr in range(0, NR + 1):
        st = ex.new_state()
        tb = Table(st, nl, tv)
        tx = z3.BitVec('req_tx', 64)
        rows = [(Str(z3.BitVec(f'qt{i}', 64)), z3.BitVec(f'qr{i}', 64)) for i in range(nr)]
        dt = tb.locks and None
        lm = st.roots['lm']
        args = [ref(lm), Int(tx, False), ref(Seq(KEY_TY, [mk_key(a, b) for a, b in rows]))]
        res = run(st, 'RowLockManager::try_lock', args)
        ck.note_path_problem(res, f'try_lock shape={nl},{tv} rows={nr}')
        pre = tb.pre()
        for r in res:
            wit = lambda m, r=r, tb=tb, rows=rows: {'rowlock_op': 'try_lock', 'table': tb.dump(m), 'tx': mval(m, tx), 'rows': [[mval(m, a.id), mval(m, b)] for a, b in rows],
                                                     'clock': [mval(m, x) for x in r.st.env.get('clock_readings', [])]}
            if r.status == 'panic':
                ck.require(ex, 'R1_conflict_refused', r.pc, None, z3.BoolVal(False), wit, lambda m, w: 'rowlock-panic')
                continue
            if r.status != 'return':
                continue
            f = r.st
            L, Tm = post_tables(f)
            if r.retval.variant == 'Err':
                refused += 1
                info = r.retval.fields[('Err', 0)]
                btx = info.load(F('LockConflictInfo', 'blocking_tx'), 'u64', f).v
                some_conflict = z3.Or([z3.And(z3.And(a.id == tn, b == row), t != tx, t == btx, live_at_some(f, aq, to)) for (a, b) in rows for (tn, row, t, aq, to) in pre] + [z3.BoolVal(False)])
                unchanged = z3.And([z3.BoolVal(len(L) == len(pre))] + [z3.Or([z3.And(a == a2, b == b2, t == t2, q == q2, o == o2) for (a2, b2, t2, q2, o2) in L] + [z3.BoolVal(False)])
                                                                         for (a, b, t, q, o) in pre])
                ck.require(ex, 'R1_conflict_refused', r.pc, None, z3.And(some_conflict, unchanged), wit, lambda m, w: 'rowlock-conflict')
            else:
                granted += 1
                cs = []
                for (a, b) in rows:
                    pr, t, _, _ = lookup(L, a.id, b)
                    cs.append(z3.And(pr, t == tx))
                for (tn, row, t, aq, to) in pre:
                    pr, t2, aq2, to2 = lookup(L, tn, row)
                    requested = z3.Or([z3.And(a.id == tn, b == row) for (a, b) in rows] + [z3.BoolVal(False)])
                    cs.append(pr)
                    cs.append(z3.Implies(z3.Not(requested), z3.And(t2 == t, aq2 == aq, to2 == to)))
                    cs.append(z3.Implies(z3.And(requested, t != tx), expired_at_some(f, aq, to)))
                # nothing beyond the old entries and the requested rows
                for (a2, b2, t2, q2, o2) in L:
                    cs.append(z3.Or([z3.And(a2 == tn, b2 == row) for (tn, row, _, _, _) in pre] + [z3.And(a2 == a.id, b2 == b) for (a, b) in rows] + [z3.BoolVal(False)]))
                cs.append(invariant(L, Tm))
                ck.require(ex, 'R2_grant_all_or_nothing', r.pc, None, z3.And(cs), wit, lambda m, w: 'rowlock-grant')
if granted == 0 or refused == 0:
    ck.inconclusive.append(f'vacuous: try_lock granted on {granted} paths, refused on {refused}')

# ------------------------------------------------------------------ release / cleanup_expired / is_locked / lock_holder
ck.declare('R3_release_leaves_nothing', 'release(tx) over every table shape', 'no lock owned by tx remains, tx has no reverse-index entry, every lock of another transaction is untouched, invariant I holds')
ck.declare('R4_expiry_removes_exactly_expired', 'cleanup_expired() over every table shape',
           'every removed lock was expired at a clock reading of the call, every remaining lock was unexpired at one, the count returned is the number removed, invariant I holds')
ck.declare('R5_queries_truthful', 'is_locked / lock_holder on a symbolic row', 'locked / Some(tx) exactly when an entry for the row exists that is unexpired at the clock reading taken; the holder reported is its owner')
for (nl, tv) in SHAPES:
    for call in ('release', 'cleanup_expired', 'is_locked', 'lock_holder'):
        st = ex.new_state()
        tb = Table(st, nl, tv)
        tx = z3.BitVec('req_tx', 64)
        qt, qr = Str(z3.BitVec('qt', 64)), z3.BitVec('qr', 64)
        lm = st.roots['lm']
        if call == 'release':
            args = [ref(lm), Int(tx, False)]
        elif call == 'cleanup_expired':
            args = [ref(lm)]
        else:
            args = [ref(lm), ref(qt), Int(qr, False)]
        res = run(st, 'RowLockManager::' + call, args)
        ck.note_path_problem(res, f'{call} shape={nl},{tv}')
        pre = tb.pre()
        for r in res:
            wit = lambda m, r=r, tb=tb, call=call: {'rowlock_op': call, 'table': tb.dump(m), 'tx': mval(m, tx), 'rows': [[mval(m, qt.id), mval(m, qr)]],
                                                     'clock': [mval(m, x) for x in r.st.env.get('clock_readings', [])]}
            ob = {'release': 'R3_release_leaves_nothing', 'cleanup_expired': 'R4_expiry_removes_exactly_expired'}.get(call, 'R5_queries_truthful')
            if r.status == 'panic':
                ck.require(ex, ob, r.pc, None, z3.BoolVal(False), wit, lambda m, w: 'rowlock-panic')
                continue
            if r.status != 'return':
                continue
            f = r.st
            L, Tm = post_tables(f)
            if call == 'release':
                cs = [t != tx for (_, _, t, _, _) in L] + [tt != tx for tt, _ in Tm]
                for (tn, row, t, aq, to) in pre:
                    pr, t2, aq2, to2 = lookup(L, tn, row)
                    cs.append(z3.Implies(t != tx, z3.And(pr, t2 == t, aq2 == aq, to2 == to)))
                cs.append(z3.BoolVal(len(L) <= len(pre)))
                cs.append(invariant(L, Tm))
                ck.require(ex, ob, r.pc, None, z3.And(cs), wit, lambda m, w: 'rowlock-release')
            elif call == 'cleanup_expired':
                cs = []
                for (tn, row, t, aq, to) in pre:
                    pr, t2, aq2, to2 = lookup(L, tn, row)
                    cs.append(z3.Implies(z3.Not(pr), expired_at_some(f, aq, to)))
                    cs.append(z3.Implies(pr, z3.And(t2 == t, aq2 == aq, to2 == to, live_at_some(f, aq, to))))
                cs.append(r.retval.v == U64(len(pre) - len(L)))
                cs.append(z3.BoolVal(len(L) <= len(pre)))
                cs.append(invariant(L, Tm))
                ck.require(ex, ob, r.pc, None, z3.And(cs), wit, lambda m, w: 'rowlock-expiry')
            else:
                pr, t, aq, to = lookup(pre, qt.id, qr)
                rs = f.env.get('clock_readings', [])
                # an answer about a present entry needs a clock reading: without one "unexpired" cannot have been established
                live = z3.And(pr, z3.Or([z3.Not(age_gt(x, aq, to)) for x in rs]) if rs else z3.BoolVal(False))
                dead = z3.Or(z3.Not(pr), z3.Or([age_ge(x, aq, to) for x in rs]) if rs else z3.BoolVal(False))
                if call == 'is_locked':
                    concl = z3.And(z3.Implies(r.retval, live), z3.Implies(z3.Not(r.retval), dead))
                else:
                    hv = r.retval
                    is_some = hv.disc == 1 if not isinstance(hv.disc, int) else z3.BoolVal(hv.disc == 1)
                    concl = z3.And(z3.Implies(is_some, live), z3.Implies(z3.Not(is_some), dead))
                    if not (isinstance(hv.disc, int) and hv.disc == 0):
                        concl = z3.And(concl, z3.Implies(is_some, hv.load(('Some', 0), 'u64', f).v == t))
                ck.require(ex, ob, r.pc, None, concl, wit, lambda m, w: 'rowlock-query')

def native_judge(w, rep):
    """re-evaluate the obligation on the concrete native outcome (entries: expired = past the timeout at the first clock reading)"""
    before = {(b[0], b[1]): (b[2], b[3]) for b in rep.get('before', [])}
    after = {(a[0], a[1]): a[2] for a in rep.get('after', [])}
    index = {t: [tuple(k) for k in ks] for t, ks in rep.get('index', [])}
    rows = [tuple(r) for r in rep.get('rows', [])]
    tx = w['tx']
    inv_ok = all(k in index.get(o, []) for k, o in after.items())
    opn = w['rowlock_op']
    res = rep.get('result', '')
    if opn == 'try_lock':
        if res.startswith('conflict:'):
            b = int(res.split(':')[1])
            real = any(k in before and before[k][0] != tx and before[k][0] == b and not before[k][1] for k in rows)
            return (not real) or after != {k: v[0] for k, v in before.items()}
        ok_ = all(after.get(k) == tx for k in rows)
        others = all(after.get(k) == v[0] for k, v in before.items() if k not in rows)
        stolen_live = any(k in rows and v[0] != tx and not v[1] for k, v in before.items())
        extra = any(k not in before and k not in rows for k in after)
        return not (ok_ and others and inv_ok) or stolen_live or extra
    if opn == 'release':
        return any(o == tx for o in after.values()) or tx in index or any(after.get(k) != v[0] for k, v in before.items() if v[0] != tx) or not inv_ok
    if opn == 'cleanup_expired':
        want = {k: v[0] for k, v in before.items() if not v[1]}
        return after != want or res != str(len(before) - len(want)) or not inv_ok
    k = rows[0] if rows else None
    live = k in before and not before[k][1]
    if opn == 'is_locked':
        return res != str(live).lower()
    return res != (f'Some({before[k][0]})' if live else 'None')


# ------------------------------------------------------------------ U1: rollback applies the inverse of every undo entry, newest first
# RelationalEngine::rollback with apply_undo_entry from MIR; the transaction manager, the slab and the four index maintenance
# functions are stubs that record their calls (and succeed).  Decided for undo logs of 1..2 entries of every kind with 0..1 index
# entries / index changes each and symbolic tables, row ids and values: the recorded calls are exactly the inverse operations of the
# log read backwards, then the locks are released and the transaction is gone.
from mirsym.models import ok as _ok_, err as _err_, deref as _deref
ck.declare('U1_rollback_inverts_the_undo_log', 'rollback(tx) with an undo log of 1..2 entries (InsertedRow / UpdatedRow / DeletedRow, 0..1 index entries or changes each), contents symbolic',
           'the slab and index calls are exactly: for each entry, newest first - InsertedRow: delete the row, remove its index entries (hash and ordered); UpdatedRow: restore the old values, '
           'per change remove the new and add the old value (hash and ordered); DeletedRow: restore the row, add its index entries (hash and ordered); then locks released, phase Aborted, transaction removed; Ok')
UE = {n: P.variant_index('UndoEntry', n) for n in ('InsertedRow', 'UpdatedRow', 'DeletedRow')}


def undo_variant_fields():
    """field order of UndoEntry's struct-like variants, read from the current source (declaration order = MIR field index)"""
    import re as _re
    src = open(os.path.join(REPO, 'relational_engine/src/transaction.rs')).read()
    body = src[src.index('enum UndoEntry {'):]
    out = {}
    for m_ in _re.finditer(r'^    (\w+) \{\n(.*?)^    \},', body[:body.index('\n}\n')], _re.S | _re.M):
        out[m_.group(1)] = _re.findall(r'^        (\w+):', m_.group(2), _re.M)
    return out


UVF = undo_variant_fields()


def rec(kind, ret):
    def f(c):
        c.st.notes.append((kind, tuple(c.args[1:])))
        return ret
    return f


u1_saved = dict(ex.extra_models)
ex.extra_models.update({
    'TransactionManager::is_active': lambda c: z3.BoolVal(True), 'TransactionManager::set_phase': rec('set_phase', UNIT),
    'TransactionManager::get_undo_log': lambda c: some(c.st.env['undo_log'], 'Option<Vec<UndoEntry>>'),
    'TransactionManager::release_locks': rec('release_locks', UNIT), 'TransactionManager::remove': rec('remove_tx', UNIT),
    'RelationalEngine::slab': lambda c: ref(Struct('RelationalSlab', {}, lazy='SLAB')),
    'RelationalSlab::delete': rec('slab_delete', _ok_(z3.BoolVal(True), 'Result<bool, RelationalError>')),
    'RelationalSlab::restore_row': rec('slab_restore_row', _ok_(UNIT, 'Result<(), RelationalError>')),
    'RelationalSlab::restore_deleted_row': rec('slab_restore_deleted', _ok_(UNIT, 'Result<(), RelationalError>')),
    # which index kinds a column has is symbolic (stable names: a branch condition must not be fresh per execution)
    'RelationalEngine::has_index': lambda c: z3.Bool('has_hash_index[' + str(getattr(_deref(c.st, c.args[2]), 'id', '?')) + ']'),
    'RelationalEngine::has_btree_index': lambda c: z3.Bool('has_btree_index[' + str(getattr(_deref(c.st, c.args[2]), 'id', '?')) + ']'),
    'RelationalEngine::index_remove': rec('index_remove', _ok_(UNIT, 'Result<(), RelationalError>')), 'RelationalEngine::index_add': rec('index_add', _ok_(UNIT, 'Result<(), RelationalError>')),
    'RelationalEngine::btree_index_remove': rec('btree_remove', _ok_(UNIT, 'Result<(), RelationalError>')), 'RelationalEngine::btree_index_add': rec('btree_add', _ok_(UNIT, 'Result<(), RelationalError>')),
})


def mk_entry(st, kind, i, nidx):
    tbl = Str(z3.BitVec(f'u{i}.table', 64))
    srow = Int(z3.BitVec(f'u{i}.slab_row', 64), False)
    row = Int(z3.BitVec(f'u{i}.row', 64), False)
    col = lambda j: Str(z3.BitVec(f'u{i}.col{j}', 64))
    val = lambda j, t: st.fresh('Value', f'u{i}.{t}{j}')
    olds = Seq('SlabColumnValue', [st.fresh('ColumnValue', f'u{i}.old0')])
    fld = lambda name: (kind, UVF[kind].index(name))
    fields = {fld('table'): tbl, fld('slab_row_id'): srow, fld('row_id'): row}
    exp = []
    if kind == 'InsertedRow':
        ies = [Struct('(String, Value)', {0: col(j), 1: val(j, 'v')}) for j in range(nidx)]
        fields[fld('index_entries')] = Seq('(String, Value)', ies)
        exp.append(('slab_delete', [tbl, srow]))
        for e in ies:
            exp += [('index_remove', [tbl, e.fields[0], e.fields[1], row]), ('btree_remove', [tbl, e.fields[0], e.fields[1], row])]
    elif kind == 'UpdatedRow':
        chs = [Struct('IndexChange', {P.field('IndexChange', 'column'): col(j), P.field('IndexChange', 'old_value'): val(j, 'old'), P.field('IndexChange', 'new_value'): val(j, 'new')}) for j in range(nidx)]
        fields[fld('old_values')] = olds
        fields[fld('index_changes')] = Seq('IndexChange', chs)
        exp.append(('slab_restore_row', [tbl, srow, olds]))
        for ch in chs:
            c_, o_, n_ = (ch.fields[P.field('IndexChange', x)] for x in ('column', 'old_value', 'new_value'))
            exp += [('index_remove', [tbl, c_, n_, row]), ('index_add', [tbl, c_, o_, row]), ('btree_remove', [tbl, c_, n_, row]), ('btree_add', [tbl, c_, o_, row])]
    else:
        ies = [Struct('(String, Value)', {0: col(j), 1: val(j, 'v')}) for j in range(nidx)]
        fields[fld('old_values')] = olds
        fields[fld('index_entries')] = Seq('(String, Value)', ies)
        exp.append(('slab_restore_deleted', [tbl, srow, olds]))
        for e in ies:
            exp += [('index_add', [tbl, e.fields[0], e.fields[1], row]), ('btree_add', [tbl, e.fields[0], e.fields[1], row])]
    return Enum('UndoEntry', UE[kind], fields, variant=kind), exp


def same_arg(st, got, want):
    """z3: a recorded argument denotes the expected object"""
    g = _deref(st, got) if isinstance(got, Ptr) else got
    w_ = _deref(st, want) if isinstance(want, Ptr) else want
    if isinstance(g, Str) and isinstance(w_, Str):
        return g.id == w_.id
    if isinstance(g, Int) and isinstance(w_, Int):
        return g.v == w_.v
    return z3.BoolVal((getattr(g, 'lazy', None) is not None and getattr(g, 'lazy', None) == getattr(w_, 'lazy', None)) or g is w_)


undone = 0
KINDS = ('InsertedRow', 'UpdatedRow', 'DeletedRow')
shapes = [((k, n),) for k in KINDS for n in (0, 1)] + [((a, 1), (b, 0 if T == 'quick' else 1)) for a in KINDS for b in KINDS]
try:
    for shape in shapes:
        st = ex.new_state()
        entries, expected = [], []
        for i, (k, n) in enumerate(shape):
            e, exp = mk_entry(st, k, i, n)
            entries.append(e)
            expected.append(exp)
        st.env['undo_log'] = Seq('UndoEntry', entries)
        want = [x for exp in reversed(expected) for x in exp]
        eng = Struct('RelationalEngine', {}, lazy='ENG')
        st.frames = []
        ex.call(st, 'RelationalEngine::rollback', [ref(eng), Int(z3.BitVec('tx', 64), False)])
        res = ex.run(st)
        ck.note_path_problem(res, f'rollback {shape}')
        for r in res:
            wit = lambda m, shape=shape: {'undo': [[k, n] for (k, n) in shape]}
            if r.status == 'panic':
                ck.require(ex, 'U1_rollback_inverts_the_undo_log', r.pc, None, z3.BoolVal(False), wit, lambda m, w: 'rollback-panic')
                continue
            if r.status != 'return':
                continue
            undone += 1
            calls = [x for x in r.st.notes if x[0] in ('slab_delete', 'slab_restore_row', 'slab_restore_deleted', 'index_remove', 'index_add', 'btree_remove', 'btree_add')]
            tail = [x[0] for x in r.st.notes if x[0] in ('release_locks', 'set_phase', 'remove_tx')]
            cs = [z3.BoolVal(len(calls) == len(want) and [c_[0] for c_ in calls] == [w_[0] for w_ in want]), z3.BoolVal(r.retval.variant == 'Ok'),
                  z3.BoolVal('release_locks' in tail and 'remove_tx' in tail)]
            if len(calls) == len(want):
                for (ck_, cargs), (wk_, wargs) in zip(calls, want):
                    if ck_ == wk_ and len(cargs) == len(wargs):
                        cs += [same_arg(r.st, g_, w_) for g_, w_ in zip(cargs, wargs)]
                    else:
                        cs.append(z3.BoolVal(False))
            ck.require(ex, 'U1_rollback_inverts_the_undo_log', r.pc, None, z3.And(cs), wit, lambda m, w: 'rollback-does-not-invert')
finally:
    ex.extra_models.clear()
    ex.extra_models.update(u1_saved)
if undone == 0:
    ck.inconclusive.append('U1 vacuous: rollback never returned')
ck.functions += ['RelationalEngine::rollback', 'RelationalEngine::apply_undo_entry']

# ------------------------------------------------------------------ U2: every matching row is locked before any is changed
# RelationalEngine::tx_update / tx_delete from MIR; the transaction manager, the lock manager, the slab and the condition evaluator are
# stubs: scan_all yields 1..2 rows with symbolic ids, whether a row matches is symbolic, try_lock records the rows it is asked for and
# grants or refuses, record_undo / update_row / delete record their calls.
ck.declare('U2_all_matching_rows_locked_before_any_change', 'tx_update / tx_delete on a table of 1..2 rows (ids symbolic, matching symbolic, no indexed columns, empty update map), lock grant symbolic',
           'before the first undo record or slab write, successful try_lock calls cover every matching row; a refused try_lock is followed by no undo record and no slab write and the statement fails; '
           'each slab write is preceded by its undo record; Ok(n) counts the matching rows')


def _u2_scan_all(c):
    rows = [Struct('(SlabRowId, Vec<SlabColumnValue>)', {0: Int(z3.BitVec(f'srow{i}', 64), False), 1: Seq('SlabColumnValue', [])}) for i in range(c.st.env['nrows'])]
    return _ok_(Seq('(SlabRowId, Vec<SlabColumnValue>)', rows), 'Result<Vec<(SlabRowId, Vec<SlabColumnValue>)>, SlabError>')


def _u2_to_row(c):
    rid = c.args[1]
    rv = rid.v if isinstance(rid, Int) else rid.fields[0].v
    ks = [k for k in range(c.st.env['nrows']) if z3.is_true(z3.simplify(rv == z3.BitVec(f'srow{k}', 64)))]
    if len(ks) != 1:
        raise Unsupported('slab_row_to_engine_row on an unknown slab row')
    return Struct('Row', {P.field('Row', 'id'): Int(z3.BitVec(f'rowid{ks[0]}', 64), False), P.field('Row', 'values'): Seq('(String, Value)', [])})


def _u2_eval(c):
    row = _deref(c.st, c.args[1])
    return _ok_(z3.Bool('matches[' + str(row.fields[P.field('Row', 'id')].v) + ']'), 'Result<bool, RelationalError>')


def _u2_try_lock(c):
    ids = [x.fields[1].v for x in _deref(c.st, c.args[2]).items(c.st)]
    if c.st.choose(2, 'try_lock ok/conflict') == 0:
        c.st.notes.append(('try_lock', ids, True))
        return _ok_(UNIT, 'Result<(), LockConflictInfo>')
    c.st.notes.append(('try_lock', ids, False))
    return _err_(c.st.fresh('LockConflictInfo', c.st.fresh_name('conflict')), 'Result<(), LockConflictInfo>')


u2_saved = dict(ex.extra_models)
ex.extra_models.update({
    'TransactionManager::is_active': lambda c: z3.BoolVal(True),
    'RelationalEngine::get_schema': lambda c: _ok_(Struct('Schema', {}, lazy='SCHEMA'), 'Result<Schema, RelationalError>'),
    'RelationalEngine::get_table_indexes': lambda c: Seq('std::string::String', []), 'RelationalEngine::get_table_btree_indexes': lambda c: Seq('std::string::String', []),
    'RelationalEngine::slab': lambda c: ref(Struct('RelationalSlab', {}, lazy='SLAB')), 'RelationalSlab::scan_all': _u2_scan_all,
    'RelationalEngine::slab_row_to_engine_row': _u2_to_row, 'Condition::evaluate_with_depth': _u2_eval,
    'TransactionManager::lock_manager': lambda c: ref(Struct('RowLockManager', {}, lazy='LM')), 'RowLockManager::try_lock': _u2_try_lock,
    'TransactionManager::record_undo': rec('record_undo', UNIT),
    'RelationalSlab::update_row': rec('slab_write', _ok_(UNIT, 'Result<(), SlabError>')), 'RelationalSlab::delete': rec('slab_write', _ok_(z3.BoolVal(True), 'Result<bool, SlabError>')),
})
u2_changed = u2_refused = 0
try:
    for fn_ in ('tx_update', 'tx_delete'):
        for nrows in (1, 2):
            st = ex.new_state()
            st.env['nrows'] = nrows
            rowids = [z3.BitVec(f'rowid{k}', 64) for k in range(nrows)]
            if nrows > 1:
                st.assume(z3.Distinct(*rowids))
            args = [ref(Struct('RelationalEngine', {}, lazy='ENG')), Int(z3.BitVec('tx', 64), False), Str(z3.BitVec('table', 64)), st.fresh('Condition', 'cond')]
            if fn_ == 'tx_update':
                args.append(Map('std::string::String', 'Value', [], []))
            st.frames = []
            ex.call(st, 'RelationalEngine::' + fn_, args)
            res = ex.run(st)
            ck.note_path_problem(res, f'{fn_} rows={nrows}')
            for r in res:
                ev = [x for x in r.st.notes if x[0] in ('try_lock', 'record_undo', 'slab_write')]
                wit = lambda m, fn_=fn_, nrows=nrows, ev=ev: {'statement': fn_, 'rows': nrows, 'events': [x[0] + ('' if x[0] != 'try_lock' else f'({len(x[1])} rows, {"granted" if x[2] else "refused"})') for x in ev]}
                if r.status == 'panic':
                    ck.require(ex, 'U2_all_matching_rows_locked_before_any_change', r.pc, None, z3.BoolVal(False), wit, lambda m, w: 'tx-statement-panic')
                    continue
                if r.status != 'return':
                    continue
                first_change = next((i for i, x in enumerate(ev) if x[0] != 'try_lock'), len(ev))
                locked = [i_ for x in ev[:first_change] if x[0] == 'try_lock' and x[2] for i_ in x[1]]
                refused_at = next((i for i, x in enumerate(ev) if x[0] == 'try_lock' and not x[2]), None)
                matches = [z3.Bool('matches[' + str(rid) + ']') for rid in rowids]
                cs = []
                n_writes = sum(1 for x in ev if x[0] == 'slab_write')
                if first_change < len(ev):
                    u2_changed += 1
                    cs += [z3.Implies(mt, z3.Or([l_ == rid for l_ in locked] + [z3.BoolVal(False)])) for mt, rid in zip(matches, rowids)]
                if refused_at is not None:
                    u2_refused += 1
                    cs.append(z3.BoolVal(first_change == len(ev) and r.retval.variant == 'Err'))
                undo_seen = writes_seen = 0
                for x in ev:
                    if x[0] == 'record_undo':
                        undo_seen += 1
                    elif x[0] == 'slab_write':
                        writes_seen += 1
                        cs.append(z3.BoolVal(undo_seen >= writes_seen))
                if r.retval.variant == 'Ok':
                    cnt = r.retval.fields[('Ok', 0)].v
                    cs.append(cnt == sum([z3.If(mt, z3.BitVecVal(1, 64), z3.BitVecVal(0, 64)) for mt in matches], z3.BitVecVal(0, 64)))
                    cs.append(cnt == z3.BitVecVal(n_writes, 64))
                ck.require(ex, 'U2_all_matching_rows_locked_before_any_change', r.pc, None, z3.And(cs) if cs else z3.BoolVal(True), wit, lambda m, w: 'row-changed-before-all-locked')
    # ---------------- U3: the same two statements on a table with one indexed column: the index follows every changed row
    # get_table_indexes / get_table_btree_indexes yield ["c"] or nothing (three combinations), every row holds a symbolic value under
    # "c", the update sets "c" to a symbolic new value, Row::get_with_id is a stub answering from the row's values.
    ck.declare('U3_indexes_follow_every_changed_row', 'tx_update / tx_delete on 1..2 rows with column c indexed by a hash index, an ordered index or both; values symbolic',
               'for every matching row and every index kind on c: update => remove(old value, row) and then add(new value, row); delete => remove(old value, row); the undo record lists the same changes; no index call for a row that does not match')

    def _u3_get_with_id(c):
        row, col = _deref(c.st, c.args[0]), _deref(c.st, c.args[1])
        for kv in row.fields[P.field('Row', 'values')].items(c.st):
            if getattr(kv.fields[0], 'text', None) == getattr(col, 'text', '?'):
                return some(kv.fields[1], 'Option<Value>')
        return none('Option<Value>')

    def _u3_to_row(c):
        rid = c.args[1]
        rv = rid.v if isinstance(rid, Int) else rid.fields[0].v
        ks = [k for k in range(c.st.env['nrows']) if z3.is_true(z3.simplify(rv == z3.BitVec(f'srow{k}', 64)))]
        if len(ks) != 1:
            raise Unsupported('slab_row_to_engine_row on an unknown slab row')
        return Struct('Row', {P.field('Row', 'id'): Int(z3.BitVec(f'rowid{ks[0]}', 64), False),
                              P.field('Row', 'values'): Seq('(String, Value)', [Struct('(String, Value)', {0: Str(text='c'), 1: c.st.env['olds'][ks[0]]})])})

    def idx_rec(kind):
        # arguments are captured by value at call time: `&old_value` points into a local that the next row overwrites
        def f(c):
            c.st.notes.append((kind, tuple(_deref(c.st, a) if isinstance(a, Ptr) else a for a in c.args[1:])))
            return _ok_(UNIT, 'Result<(), RelationalError>')
        return f
    ex.extra_models.update({'RelationalEngine::slab_row_to_engine_row': _u3_to_row, 'Row::get_with_id': _u3_get_with_id,
                            'RelationalEngine::index_remove': idx_rec('index_remove'), 'RelationalEngine::index_add': idx_rec('index_add'),
                            'RelationalEngine::btree_index_remove': idx_rec('btree_remove'), 'RelationalEngine::btree_index_add': idx_rec('btree_add')})
    u3_seen = 0
    for fn_ in ('tx_update', 'tx_delete'):
        for nrows in (1, 2):
            for hash_i, btree_i in ((True, False), (False, True), (True, True)):
                st = ex.new_state()
                st.env['nrows'] = nrows
                _vint = lambda nm: Enum('Value', P.variant_index('Value', 'Int'), {('Int', 0): Int(z3.BitVec(nm, 64), True)}, variant='Int')
                st.env['olds'] = [_vint(f'old{k}') for k in range(nrows)]
                newv = _vint('newval')
                rowids = [z3.BitVec(f'rowid{k}', 64) for k in range(nrows)]
                if nrows > 1:
                    st.assume(z3.Distinct(*rowids))
                ex.extra_models['RelationalEngine::get_table_indexes'] = lambda c, h=hash_i: Seq('std::string::String', [Str(text='c')] if h else [])
                ex.extra_models['RelationalEngine::get_table_btree_indexes'] = lambda c, b=btree_i: Seq('std::string::String', [Str(text='c')] if b else [])
                tbl = Str(z3.BitVec('table', 64))
                args = [ref(Struct('RelationalEngine', {}, lazy='ENG')), Int(z3.BitVec('tx', 64), False), tbl, st.fresh('Condition', 'cond')]
                if fn_ == 'tx_update':
                    ex.extra_models['RelationalEngine::get_schema'] = lambda c: _ok_(Struct('Schema', {}, lazy='SCHEMA'), 'Result<Schema, RelationalError>')
                    ex.extra_models['Schema::get_column'] = lambda c: some(ref(Struct('Column', {P.field('Column', 'nullable'): z3.BoolVal(True)}, lazy='COL')), 'Option<&Column>')
                    ex.extra_models['Value::matches_type'] = lambda c: z3.BoolVal(True)
                    ex.extra_models['<&Value as Into<ColumnValue>>::into'] = lambda c: c.st.fresh('ColumnValue', c.st.fresh_name('slabval'))
                    args.append(Map('std::string::String', 'Value', [Str(text='c')], [newv]))
                st.frames = []
                ex.call(st, 'RelationalEngine::' + fn_, args)
                res = ex.run(st)
                ck.note_path_problem(res, f'{fn_} rows={nrows} hash={hash_i} btree={btree_i}')
                for r in res:
                    if r.status != 'return' or r.retval.variant != 'Ok':
                        continue
                    u3_seen += 1
                    calls = [x for x in r.st.notes if x[0] in ('index_remove', 'index_add', 'btree_remove', 'btree_add')]
                    wit = lambda m, fn_=fn_, nrows=nrows, hash_i=hash_i, btree_i=btree_i, calls=calls: {'statement': fn_, 'rows': nrows, 'hash_index': hash_i, 'btree_index': btree_i, 'index_calls': [c_[0] for c_ in calls]}
                    matches = [z3.Bool('matches[' + str(rid) + ']') for rid in rowids]
                    cs = []

                    def called(kind, val, rid):
                        alts = []
                        for (k_, a_) in calls:
                            if k_ != kind or len(a_) != 4:
                                continue
                            v_ = _deref(r.st, a_[2]) if isinstance(a_[2], Ptr) else a_[2]
                            same_v = z3.BoolVal(True) if v_ is val else (v_.fields[('Int', 0)].v == val.fields[('Int', 0)].v if isinstance(v_, Enum) and v_.variant == 'Int' else z3.BoolVal(False))
                            alts.append(z3.And(same_v, a_[3].v == rid))
                        return z3.Or(alts) if alts else z3.BoolVal(False)
                    n_expected = []
                    for k in range(nrows):
                        old = st.env['olds'][k]
                        want = []
                        if hash_i:
                            want += [('index_remove', old)] + ([('index_add', newv)] if fn_ == 'tx_update' else [])
                        if btree_i:
                            want += [('btree_remove', old)] + ([('btree_add', newv)] if fn_ == 'tx_update' else [])
                        cs += [z3.Implies(matches[k], called(kind, val, rowids[k])) for kind, val in want]
                        n_expected.append(z3.If(matches[k], z3.BitVecVal(len(want), 64), z3.BitVecVal(0, 64)))
                    cs.append(z3.BitVecVal(len(calls), 64) == sum(n_expected, z3.BitVecVal(0, 64)))
                    # per row and index kind the old value is removed BEFORE the new one is added (when the two values are
                    # equal - an update that assigns a value the row already holds - the other order leaves the row out)
                    for pre_, post_ in (('index_remove', 'index_add'), ('btree_remove', 'btree_add')):
                        for ia, (ka, aa) in enumerate(calls):
                            if ka != post_ or len(aa) != 4:
                                continue
                            for ib, (kb, ab) in enumerate(calls):
                                if kb == pre_ and len(ab) == 4 and ib > ia:
                                    cs.append(aa[3].v != ab[3].v)
                    ck.require(ex, 'U3_indexes_follow_every_changed_row', r.pc, None, z3.And(cs), wit, lambda m, w: 'index-not-maintained')
    if u3_seen == 0:
        ck.inconclusive.append('U3 vacuous: no statement succeeded')
finally:
    ex.extra_models.clear()
    ex.extra_models.update(u2_saved)
if u2_changed == 0 or u2_refused == 0:
    ck.inconclusive.append(f'U2 vacuous: {u2_changed} paths changed rows, {u2_refused} paths were refused')
ck.functions += ['RelationalEngine::tx_update', 'RelationalEngine::tx_delete']

for v in ck.violations:
    w = v['witness']
    if 'index_calls' in w:
        rep = Replay.call({'op': 'relational_index_follow', 'statement': w['statement'], 'hash_index': w['hash_index'], 'btree_index': w['btree_index']})
        v['native'] = rep
        v['replayed'] = rep.get('violates')
        continue
    if 'statement' in w:
        rep = Replay.call({'op': 'relational_tx_refused', 'statement': w['statement']})
        v['native'] = rep
        v['replayed'] = rep.get('violates')
        continue
    if 'undo' in w:
        rep = Replay.call({'op': 'relational_rollback', 'undo': w['undo']})
        v['native'] = rep
        v['replayed'] = rep.get('violates')
        continue
    if w.get('clock'):
        c0 = w['clock'][0]
        variants = [[(c0 - l['acquired'] if c0 >= l['acquired'] else 0) > l['timeout'] for l in w['table']['locks']]]
    else:
        # the call never looked at the clock: the entries' age is unconstrained, show the violation with either
        variants = [[True] * len(w['table']['locks']), [False] * len(w['table']['locks'])]
    v['replayed'] = False
    for flags in variants:
        for l, fl in zip(w['table']['locks'], flags):
            l['expired'] = fl
        rep = Replay.call({'op': 'row_lock_step', **w})
        v['native'] = rep
        if 'error' in rep:
            v['replayed'] = None
            break
        if native_judge(w, rep):
            v['replayed'] = True
            break
ck.functions += ['RowLockManager::try_lock', 'RowLockManager::release', 'RowLockManager::cleanup_expired', 'RowLockManager::is_locked', 'RowLockManager::lock_holder', 'RowLock::is_expired']
if __name__ == '__main__':
    ck.finish()
