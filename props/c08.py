"""C08 - rollback to a checkpoint, the store-level mechanism only: TensorStore::restore_from_bytes with the real SlabRouter::{clear,
scan, get, put} from tensor_store's MIR and every slab operation a stub that records which slab of which router it touched.
Decided: every slab the rollback empties is one the copy-back loop can refill (the slabs cleared on the live router are a subset of
the slabs written while copying the image back).  What queries return after a rollback, retention and checkpoint selection are NOT
decided."""
import sys
import os
sys.path.insert(0, os.path.dirname(os.path.dirname(os.path.abspath(__file__))))
from props.common import *
from mirsym.models import some, none, ok as _ok, err as _err, deref

ck = Check('C08')
T = ck.tier
ex = ck.executor('tensor_store', unroll=24, default_maxlen=1, max_paths=20000)
P = ex.prog
ck.bounds = {'image': 'one key of every key class in the metadata slab, the entity index and the cache ring of the decoded image (0..1 each)',
             'operation': 'one TensorStore::restore_from_bytes'}
ck.assumptions = [
    'SlabRouter::from_bytes succeeds and yields the router the image describes; slab operations are stubs that record (router, slab, operation); classify_key is symbolic over all key classes',
    'a structural statement about the rollback code: a slab that is cleared and never written by the copy-back loop has lost its checkpointed contents, whatever they were',
    'NOT decided: that query results after a rollback equal those at the checkpoint, data added later is gone, retention, choice among checkpoints, repeated cycles',
]
SLABS = {}
for nm in ('index', 'embeddings', 'graph', 'relations', 'metadata', 'cache', 'blobs'):
    try:
        SLABS[P.field('SlabRouter', nm)] = nm
    except Exception:
        pass
KC = {n: P.variant_index('KeyClass', n) for n in P.variants('KeyClass')}


def which(c, i=0):
    """(router name, slab name) of the receiver: slabs are reached as fields of a lazily created router"""
    o = deref(c.st, c.args[i])
    path = getattr(o, 'lazy', None) or ''
    router, _, fld = path.rpartition('.')
    try:
        fld = int(fld)
    except ValueError:
        pass
    return router or '?', SLABS.get(fld, str(fld))


def slab_op(op, ret):
    def f(c):
        r, s_ = which(c)
        c.st.notes.append(('slab', r, s_, op))
        return ret(c) if callable(ret) else ret
    return f


def ov_classify(c):
    d = z3.BitVec(c.st.fresh_name('keyclass'), 64)
    c.st.assume(z3.Or([d == v for v in KC.values()]))
    return Enum('KeyClass', d, {})


one_key = lambda c, tag: Str(z3.BitVec(tag, 64))
ex.extra_models.update({
    'SlabRouter::from_bytes': lambda c: _ok(Struct('SlabRouter', {}, lazy='IMG'), 'Result<SlabRouter, SnapshotFormatError>'),
    'SlabRouter::classify_key': ov_classify, 'SlabRouter::estimate_size': lambda c: Int(z3.BitVecVal(1, 64), False),
    'EntityIndex::clear': slab_op('clear', UNIT), 'EmbeddingSlab::clear': slab_op('clear', UNIT), 'GraphTensor::clear': slab_op('clear', UNIT),
    'RelationalSlab::clear': slab_op('clear', UNIT), 'MetadataSlab::clear': slab_op('clear', UNIT), 'CacheRing::clear': slab_op('clear', UNIT), 'BlobLog::clear': slab_op('clear', UNIT),
    'MetadataSlab::scan': slab_op('scan', lambda c: Seq('(String, TensorData)', [Struct('(String, TensorData)', {0: one_key(c, 'meta_key'), 1: c.st.fresh('TensorData', 'meta_val')})])),
    'EntityIndex::scan_prefix': slab_op('scan', lambda c: Seq('(String, EntityId)', [Struct('(String, EntityId)', {0: one_key(c, 'idx_key'), 1: c.st.fresh('EntityId', 'idx_val')})])),
    'CacheRing::scan_prefix': slab_op('scan', lambda c: Seq('std::string::String', [one_key(c, 'cache_key')])),
    'MetadataSlab::get': slab_op('get', lambda c: some(c.st.fresh('TensorData', c.st.fresh_name('mget')), 'Option<TensorData>')),
    'MetadataSlab::set': slab_op('set', UNIT), 'MetadataSlab::delete': slab_op('delete', lambda c: z3.BoolVal(True)),
    'EntityIndex::get': slab_op('get', lambda c: some(c.st.fresh('EntityId', c.st.fresh_name('iget')), 'Option<EntityId>')),
    'EntityIndex::get_or_create': slab_op('set', lambda c: c.st.fresh('EntityId', c.st.fresh_name('icreate'))),
    'EmbeddingSlab::get': slab_op('get', lambda c: none('Option<Vec<f32>>')), 'EmbeddingSlab::set': slab_op('set', lambda c: _ok(UNIT, 'Result<(), EmbeddingError>')),
    'CacheRing::get': slab_op('get', lambda c: some(c.st.fresh('TensorData', c.st.fresh_name('cget')), 'Option<TensorData>')), 'CacheRing::put': slab_op('set', UNIT),
    # wholesale take-over of a slab from the image (in-place restore), whatever a repair calls it
    'GraphTensor::restore_from': slab_op('set', UNIT), 'RelationalSlab::restore_from': slab_op('set', UNIT), 'BlobLog::restore_from': slab_op('set', UNIT),
    'EntityIndex::restore_from': slab_op('set', UNIT), 'EmbeddingSlab::restore_from': slab_op('set', UNIT), 'MetadataSlab::restore_from': slab_op('set', UNIT), 'CacheRing::restore_from': slab_op('set', UNIT),
    'SlabRouter::snapshot': lambda c: Struct('SlabRouterSnapshot', {}, lazy='IMGSNAP'),
})
ck.declare('C1_every_cleared_slab_is_refilled', 'restore_from_bytes on an image holding keys in the metadata slab, entity index and cache ring; key class of every copied key symbolic',
           'Ok => every slab of the live router that was emptied receives the image\'s contents again: the set of cleared slabs is contained in the set of slabs written while copying back')
st = ex.new_state()
live = Struct('SlabRouter', {}, lazy='LIVE')
store = Struct('TensorStore', {P.field('TensorStore', 'router'): Ptr(Cell(val=live), 0)}, lazy='TS')
st.frames = []
ex.call(st, 'TensorStore::restore_from_bytes', [ref(store), ref(Seq('u8', []))])
res = ex.run(st)
ck.note_path_problem(res, 'restore_from_bytes')
cleared, written, oks = set(), set(), 0
for r in res:
    if r.status == 'panic':
        ck.require(ex, 'C1_every_cleared_slab_is_refilled', r.pc, None, z3.BoolVal(False), lambda m: {'op': 'rollback'}, lambda m, w: 'rollback-panic')
        continue
    if r.status != 'return' or r.retval.variant != 'Ok':
        continue
    oks += 1
    for (_, router, slab, op) in [x for x in r.st.notes if x[0] == 'slab']:
        if router.endswith('LIVE') or 'LIVE' in router:
            if op == 'clear':
                cleared.add(slab)
            if op == 'set':
                written.add(slab)
if oks == 0:
    ck.inconclusive.append('vacuous: restore_from_bytes never returned Ok')
else:
    # the entity index is rebuilt through get_or_create when embedding keys are put; it counts as written with them
    lost = sorted(cleared - written)
    ck.notes.append(f'cleared on the live router: {sorted(cleared)}; written while copying back: {sorted(written)}')
    ck.require(ex, 'C1_every_cleared_slab_is_refilled', res[0].pc[:0] if res else [], None, z3.BoolVal(not lost), lambda m: {'op': 'rollback', 'slabs_not_refilled': lost}, lambda m, w: 'slabs-cleared-not-restored:' + ','.join(lost))
# ------------------------------------------------------------------ C2: a restored blob log never hands out a segment id again
# BlobLog::restore_from (in place, used by the rollback) and BlobLog::restore executed from MIR on a snapshot with 0..2 sealed
# segments and an active one, all ids symbolic: the next segment id must exceed every id in the restored log (the active segment is
# sealed under its id when it fills up; a new segment with the same id would shadow it).
ck.declare('C2_restored_blob_log_issues_fresh_segment_ids', 'BlobLog::restore_from / restore on snapshots with 0..2 sealed segments + the active one (ids symbolic, no index entries)',
           'afterwards next_segment_id is greater than the id of every sealed segment and of the active segment')
c2_saved = dict(ex.extra_models)
for k in [k for k in ex.extra_models if k.startswith('BlobLog::')]:
    del ex.extra_models[k]
FB = lambda n: P.field('BlobLog', n)
restored = 0
for nsealed in (0, 1, 2):
    for fn in ('restore_from', 'restore'):
        st = ex.new_state()
        seg = lambda name: Struct('LogSegment', {P.field('LogSegment', 'id'): Int(z3.BitVec(name + '.id', 64), False), P.field('LogSegment', 'data'): Seq('u8', []),
                                                 P.field('LogSegment', 'capacity'): Int(z3.BitVec(name + '.cap', 64), False)})
        sealed = [seg(f'sealed{i}') for i in range(nsealed)]
        active = seg('active')
        ids = [x.fields[P.field('LogSegment', 'id')].v for x in sealed + [active]]
        for v_ in ids:
            st.assume(z3.ULT(v_, z3.BitVecVal(1 << 62, 64)))
        snap = Struct('BlobLogSnapshot', {P.field('BlobLogSnapshot', 'active'): active, P.field('BlobLogSnapshot', 'sealed'): Seq('LogSegment', sealed),
                                          P.field('BlobLogSnapshot', 'index'): Map('ChunkHash', 'ChunkLocation', [], []), P.field('BlobLogSnapshot', 'segment_size'): Int(z3.BitVecVal(64, 64), False)})
        st.frames = []
        if fn == 'restore_from':
            log = Struct('BlobLog', {}, lazy='BL')
            st.roots['bl'] = log
            ex.call(st, 'BlobLog::restore_from', [ref(log), snap])
        else:
            ex.call(st, 'BlobLog::restore', [snap])
        res = ex.run(st)
        ck.note_path_problem(res, f'BlobLog::{fn} sealed={nsealed}')
        for r in res:
            wit = lambda m, fn=fn, nsealed=nsealed, ids=ids: {'op': 'blob_restore', 'fn': fn, 'segment_ids': [mval(m, x) for x in ids]}
            if r.status == 'panic':
                ck.require(ex, 'C2_restored_blob_log_issues_fresh_segment_ids', r.pc, None, z3.BoolVal(False), wit, lambda m, w: 'blob-restore-panic')
                continue
            if r.status != 'return':
                continue
            restored += 1
            bl = r.st.roots['bl'] if fn == 'restore_from' else r.retval
            nxt = bl.fields[FB('next_segment_id')].fields['data'].load(0, None, r.st).v
            ck.require(ex, 'C2_restored_blob_log_issues_fresh_segment_ids', r.pc, None, z3.And([z3.UGT(nxt, x) for x in ids]), wit, lambda m, w: 'segment-id-reused-after-restore',
                       prefer=z3.And([x == z3.BitVecVal(i, 64) for i, x in enumerate(ids)]))
ex.extra_models.clear()
ex.extra_models.update(c2_saved)
if restored == 0:
    ck.inconclusive.append('C2 vacuous: BlobLog restore never returned')


# ------------------------------------------------------------------ C3: clear() leaves nothing of the old contents behind
# A rollback reuses the live slabs after SlabRouter::clear.  Each slab's clear() is executed from MIR on an arbitrary slab (every
# field lazily symbolic, containers 0..1 entries): afterwards every interior-mutable field (RwLock / Mutex / atomic) must hold a
# value that does not depend on the old contents - an empty container, all-None slots, a constant, or a term over the slab's
# configuration fields only.  A field clear() never touches, or leaves as it was, still describes data that is gone (a free-slot
# list pointing into reused storage, a counter, a reverse map).
import re as _re
CLEAR_SLABS = {'EmbeddingSlab': 'embedding_slab.rs', 'EntityIndex': 'entity_index.rs', 'BlobLog': 'blob_log.rs',
               'CacheRing': 'cache_ring.rs', 'RelationalSlab': 'relational_slab.rs'}
# raw storage that is reachable only through the fields below it (slots are handed out by index / free list / write position)
RAW_STORAGE = {('EmbeddingSlab', 'chunks')}
# kept on purpose or harmlessly: a counter that is only ever incremented and never read for a decision
KEPT_HARMLESS = {('RelationalSlab', 'next_table_id')}
ck.declare('C3_clear_leaves_nothing_behind', f'clear() of {sorted(CLEAR_SLABS)} on an arbitrary slab (containers 0..1 entries); GraphTensor::clear (CsrGraph default) and MetadataSlab::clear (16 shards: path count) not encoded',
           'every interior-mutable field except raw storage is reset to a value independent of the old contents')
ck.assumptions.append('C3: EmbeddingSlab.chunks is raw storage addressed only through index, free_slots and write_pos; RelationalSlab.next_table_id is only ever incremented and never read, keeping it is harmless; MetadataSlab::clear is outside the claim (16 shards, the path bound is exceeded); GraphTensor::clear is outside the claim (CsrGraph::default uses a bit-vector crate the executor does not model)')


def struct_field_types(fname, struct):
    txt = open(os.path.join(REPO, 'tensor_store', 'src', fname)).read()
    m = _re.search(r'pub struct ' + struct + r'(?:<[^>]*>)?\s*\{(.*?)\n\}', txt, _re.S)
    out = {}
    if m:
        body = _re.sub(r'//[^\n]*', '', m.group(1))
        for mm in _re.finditer(r'(?:pub(?:\([^)]*\))?\s+)?(\w+)\s*:\s*([^\n]+?),\s*(?:\n|$)', body):
            out[mm.group(1)] = mm.group(2)
    return out


def depends_on_old(v, st, allowed):
    """None when the value is independent of the slab's old contents, else a short description"""
    if isinstance(v, Struct) and 'data' in v.fields and len(v.fields) == 1:
        inner = v.fields['data']
        return depends_on_old(inner.load(0, None, st) if isinstance(inner, Cell) else inner, st, allowed)
    if isinstance(v, Int) or z3.is_expr(v):
        t = z3.simplify(v.v if isinstance(v, Int) else v)
        from z3 import z3util
        bad = [str(x) for x in z3util.get_vars(t) if str(x) not in allowed]
        return ('depends on ' + ', '.join(bad[:3])) if bad else None
    if isinstance(v, Map):
        return None if len(v.keys) == 0 else f'map with {len(v.keys)} entries'
    if isinstance(v, Seq):
        for e in v.items(st):
            d = depends_on_old(e, st, allowed)
            if d:
                return 'element: ' + d
        return None
    if isinstance(v, Enum):
        if v.variant == 'None':
            return None
        for fv in v.fields.values():
            d = depends_on_old(fv, st, allowed)
            if d:
                return d
        return None
    if isinstance(v, Struct):
        for fv in v.fields.values():
            d = depends_on_old(fv, st, allowed)
            if d:
                return d
        return None
    if isinstance(v, Ptr):
        return depends_on_old(v.load(st), st, allowed)
    if v is UNIT or isinstance(v, (bool, Str, Opaque)):
        return None
    return 'value of kind ' + type(v).__name__


c3_saved = dict(ex.extra_models)
for k in [k for k in ex.extra_models if k.split('::')[0] in CLEAR_SLABS]:
    del ex.extra_models[k]
cleared_paths = 0
for slab, fname in CLEAR_SLABS.items():
    ftypes = struct_field_types(fname, slab)
    order = P.structs.get(slab, [[]])[0]
    state_fields = [n for n in order if _re.search(r'RwLock<|Mutex<|Atomic', ftypes.get(n, '')) and (slab, n) not in RAW_STORAGE and (slab, n) not in KEPT_HARMLESS]
    config = {f'SL.{order.index(n)}' for n in order if n not in state_fields}
    if not state_fields:
        ck.inconclusive.append(f'C3: no interior-mutable fields found for {slab} (struct parse failed)')
        continue
    st = ex.new_state()
    obj = Struct(slab, {}, lazy='SL')
    st.roots['sl'] = obj
    st.frames = []
    ex.call(st, slab + '::clear', [ref(obj)])
    res = ex.run(st)
    ck.note_path_problem(res, f'{slab}::clear')
    for r in res:
        if r.status == 'panic':
            ck.require(ex, 'C3_clear_leaves_nothing_behind', r.pc, None, z3.BoolVal(False), lambda m, slab=slab: {'op': 'slab_clear', 'slab': slab, 'panic': True}, lambda m, w: 'clear-panic')
            continue
        if r.status != 'return':
            continue
        cleared_paths += 1
        o = r.st.roots['sl']
        left = {}
        for n in state_fields:
            i = order.index(n)
            if i not in o.fields:
                left[n] = 'never touched'
                continue
            d = depends_on_old(o.fields[i], r.st, config)
            if d:
                left[n] = d
        ck.require(ex, 'C3_clear_leaves_nothing_behind', r.pc, None, z3.BoolVal(not left),
                   lambda m, slab=slab, left=left: {'op': 'slab_clear', 'slab': slab, 'fields_left': left}, lambda m, w: 'clear-leaves:' + w['slab'] + ':' + ','.join(sorted(w['fields_left'])))
    ck.notes.append(f'{slab}::clear: state fields {state_fields}')
ex.extra_models.clear()
ex.extra_models.update(c3_saved)
if cleared_paths == 0:
    ck.inconclusive.append('C3 vacuous: no clear() returned')

# ------------------------------------------------------------------ C4: retention deletes exactly the oldest surplus checkpoints
# RetentionManager::enforce is an async fn whose awaits are on CheckpointStorage::list / delete.  Its poll function is executed from
# tensor_checkpoint's MIR with both replaced by stubs that complete at the first poll: list yields n entries in the order the real one
# documents (newest first) or an error; delete records the artifact id it is given and succeeds or fails.  The limit is symbolic.
exr = ck.executor('tensor_checkpoint', unroll=12, default_maxlen=1)
PR = exr.prog
FI = lambda n: PR.field('CheckpointInfo', n)
N_CP = (0, 1, 2, 3) if T == 'quick' else (0, 1, 2, 3, 4, 5)
ck.bounds['retention'] = f'{list(N_CP)} checkpoints listed, limit symbolic (64-bit), every delete succeeds or fails independently'
ck.declare('C4_retention_deletes_exactly_the_oldest_surplus', f'RetentionManager::enforce on {list(N_CP)} listed checkpoints (newest first), limit symbolic',
           'delete is asked for the artifact of every entry beyond the limit and of no entry within it (never by another handle); the result counts the successful deletes; a failed listing deletes nothing')
ck.declare('C4_list_orders_newest_first', 'the comparator CheckpointStorage::list sorts with, two arbitrary entries', 'Less exactly when the first entry is newer (created_at greater), Equal on equal times')


def cp_info(i):
    return Struct('CheckpointInfo', {FI('id'): Str(z3.BitVec(f'cid{i}', 64)), FI('name'): Str(z3.BitVec(f'cname{i}', 64)), FI('created_at'): Int(z3.BitVec(f'cat{i}', 64), False),
                                     FI('artifact_id'): Str(z3.BitVec(f'art{i}', 64)), FI('size'): Int(z3.BitVec(f'csz{i}', 64), False), FI('trigger'): none('Option<String>')})


def ov_list(c):
    if c.st.choose(2, 'list ok/err') == 1:
        c.st.notes.append(('list_failed',))
        return Struct('ReadyFuture', {0: _err(Opaque('CheckpointError'), 'Result<Vec<CheckpointInfo>, CheckpointError>')})
    return Struct('ReadyFuture', {0: _ok(Seq('CheckpointInfo', [cp_info(i) for i in range(c.st.env['n_cp'])]), 'Result<Vec<CheckpointInfo>, CheckpointError>')})


def ov_cp_delete(c):
    a = deref(c.st, c.args[0])
    good = c.st.choose(2, 'delete ok/err') == 0
    c.st.notes.append(('cp_delete', a, good))
    return Struct('ReadyFuture', {0: _ok(UNIT, 'Result<(), CheckpointError>') if good else _err(Opaque('CheckpointError'), 'Result<(), CheckpointError>')})


exr.extra_models.update({'CheckpointStorage::list': ov_list, 'CheckpointStorage::delete': ov_cp_delete})
enforced = 0
for n in N_CP:
    st = exr.new_state()
    st.env['n_cp'] = n
    LIM = z3.BitVec('max_checkpoints', 64)
    arts = [z3.BitVec(f'art{i}', 64) for i in range(n)]
    others = [z3.BitVec(f'{p_}{i}', 64) for i in range(n) for p_ in ('cid', 'cname')]
    st.assume(z3.Distinct(*(arts + others)) if len(arts + others) > 1 else z3.BoolVal(True))      # an artifact id is not also a name or id
    rm = Struct('RetentionManager', {0: Int(LIM, False)})
    body = Struct('{async fn body of RetentionManager::enforce()}', {0: ref(rm), 1: ref(Opaque('BlobStore')), '__state': 0})
    st.frames = []
    exr.call(st, 'RetentionManager::enforce::{closure#0}', [Struct('Pin', {0: ref(body)}), ref(Opaque('Context'))])
    res = exr.run(st)
    ck.note_path_problem(res, f'RetentionManager::enforce n={n}')
    for r in res:
        dels = [(x[1], x[2]) for x in r.st.notes if x[0] == 'cp_delete']
        wit = lambda m, n=n, dels=dels: {'op': 'retention', 'n': n, 'max': mval(m, LIM), 'deleted_handles': [str(d.id) if getattr(d, 'id', None) is not None else repr(d) for d, _ in dels]}
        if r.status == 'panic':
            ck.require(exr, 'C4_retention_deletes_exactly_the_oldest_surplus', r.pc, None, z3.BoolVal(False), wit, lambda m, w: 'retention-panic')
            continue
        if r.status != 'return':
            continue
        rv = r.retval
        if isinstance(rv, Struct) and 0 in rv.fields:          # Poll::Ready(x) built as an aggregate
            out = rv.fields[0]
        elif isinstance(rv, Enum) and rv.variant == 'Ready':
            out = rv.fields[('Ready', 0)]
        else:
            ck.inconclusive.append('enforce suspended although every await was a ready stub')
            continue
        enforced += 1
        if any(x[0] == 'list_failed' for x in r.st.notes):
            ck.require(exr, 'C4_retention_deletes_exactly_the_oldest_surplus', r.pc, None, z3.BoolVal(out.variant == 'Err' and not dels), wit, lambda m, w: 'retention-after-failed-list')
            continue
        cs = [z3.BoolVal(out.variant == 'Ok')]
        if out.variant == 'Ok':
            cs.append(out.fields[('Ok', 0)].v == z3.BitVecVal(sum(1 for _, g in dels if g), 64))
        for d, _ in dels:
            # the handle given to delete is the artifact id of a listed entry beyond the limit
            cs.append(z3.Or([z3.And(d.id == arts[i], z3.ULE(LIM, z3.BitVecVal(i, 64))) for i in range(n)] + [z3.BoolVal(False)]) if isinstance(d, Str) and d.id is not None else z3.BoolVal(False))
        for i in range(n):
            asked = z3.Or([d.id == arts[i] for d, _ in dels if isinstance(d, Str) and d.id is not None] + [z3.BoolVal(False)])
            cs.append(z3.Implies(z3.ULE(LIM, z3.BitVecVal(i, 64)), asked))
        ck.require(exr, 'C4_retention_deletes_exactly_the_oldest_surplus', r.pc, None, z3.And(cs), wit, lambda m, w: 'retention-wrong-victims')
if enforced == 0:
    ck.inconclusive.append('C4 vacuous: enforce never completed')
# the comparator of the sort in CheckpointStorage::list
st = exr.new_state()
a_, b_ = cp_info(0), cp_info(1)
cmp_fn = [f.canon for f in PR.fns if f.canon.startswith('CheckpointStorage::list::{closure#0}::{closure#') and len(f.params) == 3]
if len(cmp_fn) != 1:
    ck.inconclusive.append(f'C4: comparator closure of CheckpointStorage::list not identified ({cmp_fn})')
else:
    st.frames = []
    exr.call(st, cmp_fn[0], [ref(Struct('closure', {})), ref(a_), ref(b_)])
    res = exr.run(st)
    ck.note_path_problem(res, 'list comparator')
    ca, cb = z3.BitVec('cat0', 64), z3.BitVec('cat1', 64)
    for r in res:
        wit = lambda m: {'op': 'retention_order', 'created_at': [mval(m, ca), mval(m, cb)]}
        if r.status != 'return':
            if r.status == 'panic':
                ck.require(exr, 'C4_list_orders_newest_first', r.pc, None, z3.BoolVal(False), wit, lambda m, w: 'list-order-panic')
            continue
        d = r.retval.disc if isinstance(r.retval, Enum) else None
        d = z3.BitVecVal(d, 64) if isinstance(d, int) else d
        want = z3.If(z3.UGT(ca, cb), z3.BitVecVal(-1, 64), z3.If(ca == cb, z3.BitVecVal(0, 64), z3.BitVecVal(1, 64)))
        ck.require(exr, 'C4_list_orders_newest_first', r.pc, None, (z3.SignExt(64 - d.size(), d) if d.size() < 64 else d) == want, wit, lambda m, w: 'list-order')

for v in ck.violations:
    if v['witness'].get('op') == 'blob_restore':
        rep = Replay.call({**v['witness'], 'op': 'blob_log_restore'})
        v['native'] = rep
        v['replayed'] = rep.get('violates')
        continue
    if v['witness'].get('op') in ('slab_clear', 'retention', 'retention_order'):
        rep = Replay.call({**v['witness'], 'op': {'slab_clear': 'store_clear_reuse', 'retention': 'retention_enforce', 'retention_order': 'retention_enforce'}[v['witness']['op']]})
        v['native'] = rep
        v['replayed'] = rep.get('violates')
        continue
    rep = Replay.call({'op': 'store_rollback', 'slabs': v['witness'].get('slabs_not_refilled', [])})
    v['native'] = rep
    v['replayed'] = rep.get('violates')
ck.functions += [s_ + '::clear' for s_ in CLEAR_SLABS] + ['RetentionManager::enforce::{closure#0}', 'CheckpointStorage::list::{closure#0}::{closure#1}', 'BlobLog::restore_from', 'BlobLog::restore', 'TensorStore::restore_from_bytes', 'SlabRouter::clear', 'SlabRouter::scan', 'SlabRouter::get', 'SlabRouter::put']
if __name__ == '__main__':
    ck.finish()
