"""C08 - rollback to a checkpoint, the store-level mechanism only: TensorStore::restore_from_bytes with the real SlabRouter::{clear,
scan, get, put} from tensor_store's MIR and every slab operation a stub that records which slab of which router it touched.
Decided: every slab the rollback empties is one the copy-back loop can refill (the slabs cleared on the live router are a subset of
the slabs written while copying the image back).  What queries return after a rollback, retention and checkpoint selection are NOT
decided."""
import sys
import os
sys.path.insert(0, os.path.dirname(os.path.dirname(os.path.abspath(__file__))))
from props.common import *
from mirsym.models import some, none, ok as _ok, err as _err, deref

ck = Check('C08')
T = ck.tier
ex = ck.executor('tensor_store', unroll=24, default_maxlen=1, max_paths=20000)
P = ex.prog
ck.bounds = {'image': 'one key of every key class in the metadata slab, the entity index and the cache ring of the decoded image (0..1 each)',
             'operation': 'one TensorStore::restore_from_bytes'}
ck.assumptions = [
    'SlabRouter::from_bytes succeeds and yields the router the image describes; slab operations are stubs that record (router, slab, operation); classify_key is symbolic over all key classes',
    'a structural statement about the rollback code: a slab that is cleared and never written by the copy-back loop has lost its checkpointed contents, whatever they were',
    'NOT decided: that query results after a rollback equal those at the checkpoint, data added later is gone, retention, choice among checkpoints, repeated cycles',
]
SLABS = {}
for nm in ('index', 'embeddings', 'graph', 'relations', 'metadata', 'cache', 'blobs'):
    try:
        SLABS[P.field('SlabRouter', nm)] = nm
    except Exception:
        pass
KC = {n: P.variant_index('KeyClass', n) for n in P.variants('KeyClass')}


def which(c, i=0):
    """(router name, slab name) of the receiver: slabs are reached as fields of a lazily created router"""
    o = deref(c.st, c.args[i])
    path = getattr(o, 'lazy', None) or ''
    router, _, fld = path.rpartition('.')
    try:
        fld = int(fld)
    except ValueError:
        pass
    return router or '?', SLABS.get(fld, str(fld))


def slab_op(op, ret):
    def f(c):
        r, s_ = which(c)
        c.st.notes.append(('slab', r, s_, op))
        return ret(c) if callable(ret) else ret
    return f


def ov_classify(c):
    d = z3.BitVec(c.st.fresh_name('keyclass'), 64)
    c.st.assume(z3.Or([d == v for v in KC.values()]))
    return Enum('KeyClass', d, {})


one_key = lambda c, tag: Str(z3.BitVec(tag, 64))
ex.extra_models.update({
    'SlabRouter::from_bytes': lambda c: _ok(Struct('SlabRouter', {}, lazy='IMG'), 'Result<SlabRouter, SnapshotFormatError>'),
    'SlabRouter::classify_key': ov_classify, 'SlabRouter::estimate_size': lambda c: Int(z3.BitVecVal(1, 64), False),
    'EntityIndex::clear': slab_op('clear', UNIT), 'EmbeddingSlab::clear': slab_op('clear', UNIT), 'GraphTensor::clear': slab_op('clear', UNIT),
    'RelationalSlab::clear': slab_op('clear', UNIT), 'MetadataSlab::clear': slab_op('clear', UNIT), 'CacheRing::clear': slab_op('clear', UNIT), 'BlobLog::clear': slab_op('clear', UNIT),
    'MetadataSlab::scan': slab_op('scan', lambda c: Seq('(String, TensorData)', [Struct('(String, TensorData)', {0: one_key(c, 'meta_key'), 1: c.st.fresh('TensorData', 'meta_val')})])),
    'EntityIndex::scan_prefix': slab_op('scan', lambda c: Seq('(String, EntityId)', [Struct('(String, EntityId)', {0: one_key(c, 'idx_key'), 1: c.st.fresh('EntityId', 'idx_val')})])),
    'CacheRing::scan_prefix': slab_op('scan', lambda c: Seq('std::string::String', [one_key(c, 'cache_key')])),
    'MetadataSlab::get': slab_op('get', lambda c: some(c.st.fresh('TensorData', c.st.fresh_name('mget')), 'Option<TensorData>')),
    'MetadataSlab::set': slab_op('set', UNIT), 'MetadataSlab::delete': slab_op('delete', lambda c: z3.BoolVal(True)),
    'EntityIndex::get': slab_op('get', lambda c: some(c.st.fresh('EntityId', c.st.fresh_name('iget')), 'Option<EntityId>')),
    'EntityIndex::get_or_create': slab_op('set', lambda c: c.st.fresh('EntityId', c.st.fresh_name('icreate'))),
    'EmbeddingSlab::get': slab_op('get', lambda c: none('Option<Vec<f32>>')), 'EmbeddingSlab::set': slab_op('set', lambda c: _ok(UNIT, 'Result<(), EmbeddingError>')),
    'CacheRing::get': slab_op('get', lambda c: some(c.st.fresh('TensorData', c.st.fresh_name('cget')), 'Option<TensorData>')), 'CacheRing::put': slab_op('set', UNIT),
    # wholesale take-over of a slab from the image (in-place restore), whatever a repair calls it
    'GraphTensor::restore_from': slab_op('set', UNIT), 'RelationalSlab::restore_from': slab_op('set', UNIT), 'BlobLog::restore_from': slab_op('set', UNIT),
    'EntityIndex::restore_from': slab_op('set', UNIT), 'EmbeddingSlab::restore_from': slab_op('set', UNIT), 'MetadataSlab::restore_from': slab_op('set', UNIT), 'CacheRing::restore_from': slab_op('set', UNIT),
    'SlabRouter::snapshot': lambda c: Struct('SlabRouterSnapshot', {}, lazy='IMGSNAP'),
})
ck.declare('C1_every_cleared_slab_is_refilled', 'restore_from_bytes on an image holding keys in the metadata slab, entity index and cache ring; key class of every copied key symbolic',
           'Ok => every slab of the live router that was emptied receives the image\'s contents again: the set of cleared slabs is contained in the set of slabs written while copying back')
st = ex.new_state()
live = Struct('SlabRouter', {}, lazy='LIVE')
store = Struct('TensorStore', {P.field('TensorStore', 'router'): Ptr(Cell(val=live), 0)}, lazy='TS')
st.frames = []
ex.call(st, 'TensorStore::restore_from_bytes', [ref(store), ref(Seq('u8', []))])
res = ex.run(st)
ck.note_path_problem(res, 'restore_from_bytes')
cleared, written, oks = set(), set(), 0
for r in res:
    if r.status == 'panic':
        ck.require(ex, 'C1_every_cleared_slab_is_refilled', r.pc, None, z3.BoolVal(False), lambda m: {'op': 'rollback'}, lambda m, w: 'rollback-panic')
        continue
    if r.status != 'return' or r.retval.variant != 'Ok':
        continue
    oks += 1
    for (_, router, slab, op) in [x for x in r.st.notes if x[0] == 'slab']:
        if router.endswith('LIVE') or 'LIVE' in router:
            if op == 'clear':
                cleared.add(slab)
            if op == 'set':
                written.add(slab)
if oks == 0:
    ck.inconclusive.append('vacuous: restore_from_bytes never returned Ok')
else:
    # the entity index is rebuilt through get_or_create when embedding keys are put; it counts as written with them
    lost = sorted(cleared - written)
    ck.notes.append(f'cleared on the live router: {sorted(cleared)}; written while copying back: {sorted(written)}')
    ck.require(ex, 'C1_every_cleared_slab_is_refilled', res[0].pc[:0] if res else [], None, z3.BoolVal(not lost), lambda m: {'op': 'rollback', 'slabs_not_refilled': lost}, lambda m, w: 'slabs-cleared-not-restored:' + ','.join(lost))
# ------------------------------------------------------------------ C2: a restored blob log never hands out a segment id again
# BlobLog::restore_from (in place, used by the rollback) and BlobLog::restore executed from MIR on a snapshot with 0..2 sealed
# segments and an active one, all ids symbolic: the next segment id must exceed every id in the restored log (the active segment is
# sealed under its id when it fills up; a new segment with the same id would shadow it).
ck.declare('C2_restored_blob_log_issues_fresh_segment_ids', 'BlobLog::restore_from / restore on snapshots with 0..2 sealed segments + the active one (ids symbolic, no index entries)',
           'afterwards next_segment_id is greater than the id of every sealed segment and of the active segment')
c2_saved = dict(ex.extra_models)
for k in [k for k in ex.extra_models if k.startswith('BlobLog::')]:
    del ex.extra_models[k]
FB = lambda n: P.field('BlobLog', n)
restored = 0
for nsealed in (0, 1, 2):
    for fn in ('restore_from', 'restore'):
        st = ex.new_state()
        seg = lambda name: Struct('LogSegment', {P.field('LogSegment', 'id'): Int(z3.BitVec(name + '.id', 64), False), P.field('LogSegment', 'data'): Seq('u8', []),
                                                 P.field('LogSegment', 'capacity'): Int(z3.BitVec(name + '.cap', 64), False)})
        sealed = [seg(f'sealed{i}') for i in range(nsealed)]
        active = seg('active')
        ids = [x.fields[P.field('LogSegment', 'id')].v for x in sealed + [active]]
        for v_ in ids:
            st.assume(z3.ULT(v_, z3.BitVecVal(1 << 62, 64)))
        snap = Struct('BlobLogSnapshot', {P.field('BlobLogSnapshot', 'active'): active, P.field('BlobLogSnapshot', 'sealed'): Seq('LogSegment', sealed),
                                          P.field('BlobLogSnapshot', 'index'): Map('ChunkHash', 'ChunkLocation', [], []), P.field('BlobLogSnapshot', 'segment_size'): Int(z3.BitVecVal(64, 64), False)})
        st.frames = []
        if fn == 'restore_from':
            log = Struct('BlobLog', {}, lazy='BL')
            st.roots['bl'] = log
            ex.call(st, 'BlobLog::restore_from', [ref(log), snap])
        else:
            ex.call(st, 'BlobLog::restore', [snap])
        res = ex.run(st)
        ck.note_path_problem(res, f'BlobLog::{fn} sealed={nsealed}')
        for r in res:
            wit = lambda m, fn=fn, nsealed=nsealed, ids=ids: {'op': 'blob_restore', 'fn': fn, 'segment_ids': [mval(m, x) for x in ids]}
            if r.status == 'panic':
                ck.require(ex, 'C2_restored_blob_log_issues_fresh_segment_ids', r.pc, None, z3.BoolVal(False), wit, lambda m, w: 'blob-restore-panic')
                continue
            if r.status != 'return':
                continue
            restored += 1
            bl = r.st.roots['bl'] if fn == 'restore_from' else r.retval
            nxt = bl.fields[FB('next_segment_id')].fields['data'].load(0, None, r.st).v
            ck.require(ex, 'C2_restored_blob_log_issues_fresh_segment_ids', r.pc, None, z3.And([z3.UGT(nxt, x) for x in ids]), wit, lambda m, w: 'segment-id-reused-after-restore',
                       prefer=z3.And([x == z3.BitVecVal(i, 64) for i, x in enumerate(ids)]))
ex.extra_models.clear()
ex.extra_models.update(c2_saved)
if restored == 0:
    ck.inconclusive.append('C2 vacuous: BlobLog restore never returned')

for v in ck.violations:
    if v['witness'].get('op') == 'blob_restore':
        rep = Replay.call({**v['witness'], 'op': 'blob_log_restore'})
        v['native'] = rep
        v['replayed'] = rep.get('violates')
        continue
    rep = Replay.call({'op': 'store_rollback', 'slabs': v['witness'].get('slabs_not_refilled', [])})
    v['native'] = rep
    v['replayed'] = rep.get('violates')
ck.functions += ['BlobLog::restore_from', 'BlobLog::restore', 'TensorStore::restore_from_bytes', 'SlabRouter::clear', 'SlabRouter::scan', 'SlabRouter::get', 'SlabRouter::put']
if __name__ == '__main__':
    ck.finish()
