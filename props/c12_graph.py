# C12, second half: wait-for graph bookkeeping (forward and reverse edge maps stay mirror images) and victim choice.
# exec()'d from c12.py.
GN = 3
T_EDGES = 'parking_lot::lock_api::RwLock<parking_lot::RawRwLock, std::collections::HashMap<u64, std::collections::HashSet<u64>>>'


def mk_graph(st, edge_set, nodes):
    """WaitForGraph whose forward/reverse maps hold exactly edge_set (pairs of node indexes)"""
    fwd, rev = {}, {}
    for (a, b) in edge_set:
        fwd.setdefault(a, []).append(b)
        rev.setdefault(b, []).append(a)

    def mk_map(d):
        keys = [Int(nodes[k], False) for k in d]
        vals = [Map('u64', None, [Int(nodes[x], False) for x in d[k]], [UNIT] * len(d[k]), is_set=True) for k in d]
        return Map('u64', 'std::collections::HashSet<u64>', keys, vals)
    ws = Map('u64', 'u64', [Int(nodes[k], False) for k in fwd], [Int(z3.BitVec(f'ws{k}', 64), False) for k in fwd])
    pr = Map('u64', 'u32', [], [])
    g = Struct('WaitForGraph', {F('WaitForGraph', 'edges'): Struct('RwLock', {'data': Cell(val=mk_map(fwd))}),
                                F('WaitForGraph', 'reverse_edges'): Struct('RwLock', {'data': Cell(val=mk_map(rev))}),
                                F('WaitForGraph', 'wait_started'): Struct('RwLock', {'data': Cell(val=ws)}),
                                F('WaitForGraph', 'priorities'): Struct('RwLock', {'data': Cell(val=pr)}),
                                F('WaitForGraph', 'max_edges_per_tx'): Int(U64(0), False)})
    st.roots['g'] = g
    return g


def edges_of(st, field):
    g = st.roots['g']
    m = g.fields[F('WaitForGraph', field)].fields['data'].val
    out = []
    for i, k in enumerate(m.keys):
        s = m.load(i, None, st)
        for x in s.keys:
            out.append((k.v, x.v))
    return out


def map_keys(st, field):
    g = st.roots['g']
    m = g.fields[F('WaitForGraph', field)].fields['data'].val
    return [k.v for k in m.keys]


def has(es, a, b):
    return z3.Or([z3.And(x == a, y == b) for x, y in es]) if es else z3.BoolVal(False)


def mirror(fw, rv):
    return z3.And([has(rv, b, a) for a, b in fw] + [has(fw, b, a) for a, b in rv] + [z3.BoolVal(True)])


ck.declare('K7_graph_mirror', f'graphs over {GN} distinct symbolic transactions (every edge subset), one add_wait / remove_wait / remove_transaction with arbitrary arguments',
           'forward and reverse edge maps remain mirror images; add_wait adds exactly (w,h) unless w == h; remove_wait removes exactly (w,h); nothing else changes')
ck.declare('K8_removed_tx_gone', 'same', 'after remove_transaction(t) the transaction is neither waiter nor holder of any edge and has no wait-start/priority entry')
all_edges = [(a, b) for a in range(GN) for b in range(GN) if a != b]
for r_ in range(len(all_edges) + 1):
    for es in itertools.combinations(all_edges, r_):
        for opname in ('add_wait', 'remove_wait', 'remove_transaction'):
            st = ex.new_state()
            nodes = [z3.BitVec(f'n{i}', 64) for i in range(GN)]
            for a, b in itertools.combinations(nodes, 2):
                st.assume(a != b)
            mk_graph(st, es, nodes)
            pre_edges = [(nodes[a], nodes[b]) for a, b in es]
            w_, h_ = Int(z3.BitVec('aw', 64), False), Int(z3.BitVec('ah', 64), False)
            if opname == 'add_wait':
                prio = st.fresh('std::option::Option<u32>', 'prio')
                args = [ref(st.roots['g']), w_, h_, prio]
            elif opname == 'remove_wait':
                args = [ref(st.roots['g']), w_, h_]
            else:
                args = [ref(st.roots['g']), w_]
            res = run(st, 'WaitForGraph::' + opname, args)
            ck.note_path_problem(res, f'WaitForGraph::{opname} edges={es}')
            for r in res:
                wit = lambda m, es=es, opname=opname, nodes=nodes: {'graph_op': opname, 'nodes': [mval(m, n) for n in nodes], 'edges': [list(e) for e in es],
                                                                   'w': mval(m, w_.v), 'h': mval(m, h_.v)}
                if r.status == 'panic':
                    ck.require(ex, 'K7_graph_mirror', r.pc, None, z3.BoolVal(False), wit, lambda m, w: 'graph-panic')
                    continue
                if r.status != 'return':
                    continue
                fw, rv = edges_of(r.st, 'edges'), edges_of(r.st, 'reverse_edges')
                cs = [mirror(fw, rv)]
                if opname == 'add_wait':
                    exp = lambda a, b: z3.Or(has(pre_edges, a, b), z3.And(a == w_.v, b == h_.v, w_.v != h_.v))
                elif opname == 'remove_wait':
                    exp = lambda a, b: z3.And(has(pre_edges, a, b), z3.Not(z3.And(a == w_.v, b == h_.v)))
                else:
                    exp = lambda a, b: z3.And(has(pre_edges, a, b), a != w_.v, b != w_.v)
                # exact edge set: every post edge expected, every expected edge present
                cs += [exp(a, b) for a, b in fw]
                cand = pre_edges + [(w_.v, h_.v)]
                cs += [z3.Implies(exp(a, b), has(fw, a, b)) for a, b in cand]
                ck.require(ex, 'K7_graph_mirror', r.pc, None, z3.And(cs), wit, lambda m, w: 'graph-' + w['graph_op'])
                if opname == 'remove_transaction':
                    gone = [a != w_.v for a, b in fw] + [b != w_.v for a, b in fw] + [k != w_.v for k in map_keys(r.st, 'wait_started')] + \
                           [k != w_.v for k in map_keys(r.st, 'priorities')] + [k != w_.v for k in map_keys(r.st, 'edges')] + [k != w_.v for k in map_keys(r.st, 'reverse_edges')]
                    ck.require(ex, 'K8_removed_tx_gone', r.pc, None, z3.And(gone) if gone else z3.BoolVal(True), wit, lambda m, w: 'graph-remnant')

# cycle detection on every wait-for graph over GN distinct symbolic transactions
ck.declare('K9_cycle_reported_iff_present', f'detect_cycles() on every edge subset over {GN} distinct symbolic transactions (hash iteration: insertion order in quick, every order in thorough)',
           'a cycle is reported exactly when the recorded edges contain one; every reported cycle is a closed walk along recorded edges')
ck.declare('K10_would_create_cycle_exact', 'would_create_cycle(w, h) with w, h arbitrary (inside or outside the graph)',
           'true exactly when w == h or the recorded edges already lead from h to w')


def has_cycle(es, n):
    adj = {i: [b for a, b in es if a == i] for i in range(n)}
    color = {}

    def dfs(u):
        color[u] = 1
        for v in adj[u]:
            if color.get(v) == 1 or (v not in color and dfs(v)):
                return True
        color[u] = 2
        return False
    return any(u not in color and dfs(u) for u in range(n))


def reach(es, n):
    """R[a][b]: a path of >= 0 edges from a to b"""
    R = [[a == b for b in range(n)] for a in range(n)]
    for a, b in es:
        R[a][b] = True
    for k in range(n):
        for i in range(n):
            for j in range(n):
                R[i][j] = R[i][j] or (R[i][k] and R[k][j])
    return R


for r_ in range(len(all_edges) + 1):
    for es in itertools.combinations(all_edges, r_):
        nodes = [z3.BitVec(f'n{i}', 64) for i in range(GN)]
        st = ex.new_state()
        for a, b in itertools.combinations(nodes, 2):
            st.assume(a != b)
        mk_graph(st, es, nodes)
        res = run(st, 'WaitForGraph::detect_cycles', [ref(st.roots['g'])])
        ck.note_path_problem(res, f'detect_cycles edges={es}')
        want = has_cycle(es, GN)
        pre_edges = [(nodes[a], nodes[b]) for a, b in es]
        for r in res:
            wit = lambda m, es=es, nodes=nodes: {'graph_op': 'detect_cycles', 'nodes': [mval(m, n) for n in nodes], 'edges': [list(e) for e in es], 'w': 0, 'h': 0}
            if r.status == 'panic':
                ck.require(ex, 'K9_cycle_reported_iff_present', r.pc, None, z3.BoolVal(False), wit, lambda m, w: 'graph-panic')
                continue
            if r.status != 'return':
                continue
            cyc = [c.items(r.st) for c in r.retval.items(r.st)]
            cs = [z3.BoolVal((len(cyc) > 0) == want)]
            for c in cyc:
                cs.append(z3.BoolVal(len(c) > 0))
                for i in range(len(c)):
                    cs.append(has(pre_edges, c[i].v, c[(i + 1) % len(c)].v))
            ck.require(ex, 'K9_cycle_reported_iff_present', r.pc, None, z3.And(cs), wit, lambda m, w: 'cycle-detection')
        # would_create_cycle
        st = ex.new_state()
        for a, b in itertools.combinations(nodes, 2):
            st.assume(a != b)
        mk_graph(st, es, nodes)
        w_, h_ = Int(z3.BitVec('aw', 64), False), Int(z3.BitVec('ah', 64), False)
        res = run(st, 'WaitForGraph::would_create_cycle', [ref(st.roots['g']), w_, h_])
        ck.note_path_problem(res, f'would_create_cycle edges={es}')
        R = reach(es, GN)
        truth = z3.Or([w_.v == h_.v] + [z3.And(h_.v == nodes[a], w_.v == nodes[b]) for a in range(GN) for b in range(GN) if a != b and R[a][b]])
        for r in res:
            wit = lambda m, es=es, nodes=nodes: {'graph_op': 'would_create_cycle', 'nodes': [mval(m, n) for n in nodes], 'edges': [list(e) for e in es], 'w': mval(m, w_.v), 'h': mval(m, h_.v)}
            if r.status == 'panic':
                ck.require(ex, 'K10_would_create_cycle_exact', r.pc, None, z3.BoolVal(False), wit, lambda m, w: 'graph-panic')
                continue
            if r.status != 'return':
                continue
            ck.require(ex, 'K10_would_create_cycle_exact', r.pc, None, r.retval == truth, wit, lambda m, w: 'would-create-cycle')

# victim choice: select_victim(c) is a member of c, for every policy and arbitrary wait-start / priority entries
ck.declare('K5_victim_in_cycle', 'cycles of 1..3 symbolic transaction ids, every policy, 0..2 wait-start and priority entries', 'select_victim(c) is one of the members of c')
POL = P.variants('VictimSelectionPolicy')
for n in range(1, 4):
    st = ex.new_state()
    det = st.fresh('DeadlockDetector', 'D')
    st.roots['det'] = det
    cyc = [Int(z3.BitVec(f'c{i}', 64), False) for i in range(n)]
    res = run(st, 'DeadlockDetector::select_victim', [ref(det), ref(Seq('u64', list(cyc)))])
    ck.note_path_problem(res, f'select_victim n={n}')
    for r in res:
        wit = lambda m: {'graph_op': 'select_victim', 'cycle': [mval(m, c.v) for c in cyc]}
        if r.status == 'panic':
            ck.require(ex, 'K5_victim_in_cycle', r.pc, None, z3.BoolVal(False), wit, lambda m, w: 'victim-panic')
            continue
        if r.status != 'return':
            continue
        ck.require(ex, 'K5_victim_in_cycle', r.pc, None, z3.Or([r.retval.v == c.v for c in cyc]), wit, lambda m, w: 'victim-outside-cycle')
ck.functions += ['WaitForGraph::add_wait', 'WaitForGraph::remove_wait', 'WaitForGraph::remove_transaction', 'WaitForGraph::detect_cycles', 'deadlock::dfs_detect',
                 'WaitForGraph::would_create_cycle', 'DeadlockDetector::select_victim']
