# wait-for graph bookkeeping (filled in below)
