"""Shared plumbing of the per-property checks: obligations, vacuity, known findings,
native replay, evidence files and exit codes (DESIGN.md §3)."""
import json
import os
import subprocess
import sys
import time
import z3

VERIF = os.path.dirname(os.path.dirname(os.path.abspath(__file__)))
sys.path.insert(0, VERIF)
from mirsym import program, exec as X          # noqa: E402
from mirsym.values import *                     # noqa: E402,F401

REPO = os.environ.get('VERIF_REPO', '/repo')
BUILD = os.environ.get('VERIF_BUILD', os.path.join(VERIF, '.build'))
EVID = os.environ.get('VERIF_EVIDENCE', os.path.join(VERIF, 'evidence'))


def crate_dir(name):
    """the out-of-tree crate (replay / kani).  Its path dependencies name /repo; when the check is pointed at another
    checkout (VERIF_REPO, used only by tools/seedtest.sh so that seeded changes never touch /repo) a copy with rewritten
    paths is used."""
    src = os.path.join(VERIF, name)
    if os.path.abspath(REPO) == '/repo':
        return src
    import shutil
    dst = os.path.join(BUILD, 'src-' + name)
    shutil.rmtree(dst, ignore_errors=True)
    shutil.copytree(src, dst, ignore=shutil.ignore_patterns('target'))
    t = open(os.path.join(dst, 'Cargo.toml')).read().replace('"/repo/', '"' + os.path.abspath(REPO) + '/')
    open(os.path.join(dst, 'Cargo.toml'), 'w').write(t)
    return dst



def tier():
    t = os.environ.get('VERIF_TIER', 'quick')
    for i, a in enumerate(sys.argv):
        if a == '--tier' and i + 1 < len(sys.argv):
            t = sys.argv[i + 1]
    return t if t in ('quick', 'thorough') else 'quick'


def seed():
    try:
        return int(os.environ.get('VERIF_SEED', '0'))
    except ValueError:
        return 0


class Replay:
    """native driver: the real compiled functions, called through public APIs."""
    _proc = None
    built = False
    build_s = 0.0

    @classmethod
    def build(cls):
        if cls.built:
            return
        t = time.time()
        env = dict(os.environ, CARGO_TARGET_DIR=os.path.join(BUILD, 'replay'), CARGO_NET_OFFLINE='true')
        env.pop('RUSTFLAGS', None)
        lock_src = os.path.join(REPO, 'Cargo.lock')
        p = subprocess.run(['cargo', 'build', '--offline', '--release', '--manifest-path',
                            os.path.join(crate_dir('replay'), 'Cargo.toml')], env=env, capture_output=True, text=True)
        if p.returncode != 0:
            raise RuntimeError('replay driver build failed:\n' + p.stderr[-4000:])
        cls.built = True
        cls.build_s = time.time() - t

    @classmethod
    def call(cls, req):
        cls.build()
        if cls._proc is None or cls._proc.poll() is not None:
            exe = os.path.join(BUILD, 'replay', 'release', 'replay')
            cls._proc = subprocess.Popen([exe], stdin=subprocess.PIPE, stdout=subprocess.PIPE, text=True, env=dict(os.environ, VERIF_BUILD=BUILD))
        cls._proc.stdin.write(json.dumps(req) + '\n')
        cls._proc.stdin.flush()
        line = cls._proc.stdout.readline()
        if not line:
            cls._proc = None
            return {'error': 'driver died', 'panic': True}
        return json.loads(line)


def load_known(pid):
    """entries of /verif/known_findings.txt for this property: list of (kind, key, text)"""
    out = []
    p = os.path.join(VERIF, 'known_findings.txt')
    if not os.path.exists(p):
        return out
    for ln in open(p):
        ln = ln.strip()
        if not ln or ln.startswith('#'):
            continue
        kind = 'fixed' if ln.startswith('fixed:') else 'finding'
        body = ln.split(':', 1)[1].strip() if ln.startswith(('fixed:', 'finding:')) else ln
        if f'property={pid} ' not in body + ' ':
            continue
        key = None
        for tok in body.split():
            if tok.startswith('key='):
                key = tok[4:]
        out.append((kind, key, body))
    return out


class Check:
    def __init__(self, pid, functions=()):
        self.pid = pid
        self.tier = tier()
        self.seed = seed()
        self.t0 = time.time()
        self.obl = {}            # name -> dict(bound, queries, discharged, violated, hyp_sat, paths)
        self.violations = []     # dict(obligation, key, witness, replayed)
        self.known_hits = []
        self.inconclusive = []
        self.samples = []
        self.functions = list(functions)
        self.bounds = {}
        self.assumptions = []
        self.models_used = set()
        self.fns_executed = set()
        self.paths = 0
        self.dup_paths = 0
        self.queries = 0
        self.solver_s = 0.0
        self.replayed = 0
        self.replay_mismatch = []
        self.dump_s = 0.0
        self.known = load_known(pid)
        self.executors = []
        self.notes = []

    # ---- executors
    def executor(self, crate, fresh=True, **kw):
        fresh = fresh and os.environ.get('VERIF_NODUMP') != '1'
        dump_kw = {k: kw.pop(k) for k in list(kw) if k in ('features', 'no_default')}
        prog = program.load(crate, fresh=fresh, **dump_kw)
        self.dump_s += getattr(prog, 'dump_s', 0.0)
        prog.dump_s = 0.0
        ex = X.Executor(prog, **kw)
        self.executors.append(ex)
        return ex

    def absorb(self, ex):
        pass

    # ---- obligations
    def declare(self, name, bound, text=''):
        self.obl.setdefault(name, dict(bound=bound, text=text, queries=0, discharged=0, violated=0,
                                       hyp_sat=0, paths=0, inconclusive=0))

    def require(self, ex, name, pc, hyp, concl, witness_fn=None, key_fn=None, prefer=None):
        """one obligation instance on one path: pc ∧ hyp ⇒ concl.  Returns True when discharged."""
        o = self.obl[name]
        o['paths'] += 1
        hyp = z3.BoolVal(True) if hyp is None else hyp
        r = ex.solver.check(pc, hyp)
        o['queries'] += 1
        if r == z3.unsat:
            return True          # hypothesis not satisfiable on this path: nothing to show
        if r == z3.unknown:
            o['inconclusive'] += 1
            self.inconclusive.append(f'{name}: solver unknown on hypothesis')
            return False
        o['hyp_sat'] += 1
        r, m = ex.solver.model(pc, z3.And(hyp, z3.Not(concl)))
        o['queries'] += 1
        if r == z3.sat and prefer is not None:
            # a counterexample exists: prefer one in the shape the native driver can set up directly
            r2, m2 = ex.solver.model(pc, z3.And(hyp, z3.Not(concl), prefer))
            o['queries'] += 1
            if r2 == z3.sat:
                m = m2
        if r == z3.unsat:
            o['discharged'] += 1
            return True
        if r == z3.unknown:
            o['inconclusive'] += 1
            self.inconclusive.append(f'{name}: solver unknown')
            return False
        o['violated'] += 1
        w = witness_fn(m) if witness_fn else {'model': str(m)[:400]}
        key = key_fn(m, w) if key_fn else None
        self.violations.append(dict(obligation=name, key=key, witness=w, replayed=None))
        return False

    # ---- fan-out over worker processes
    def parallel(self, items, fn, jobs=None):
        """run fn(item) for every item, each in a forked copy of this process (the symbolic state built so far is shared
        copy-on-write; z3 is used by one thread per process).  The workers' obligation counters, violations, inconclusive
        notes and solver statistics are added to this Check; returns the list of fn's (picklable) return values in item order.
        A worker that dies makes the check inconclusive - its share of the exploration was not done."""
        import pickle, tempfile
        jobs = jobs or int(os.environ.get('VERIF_JOBS', '12'))
        items = list(items)
        if jobs <= 1 or len(items) <= 1:
            return [fn(it) for it in items]
        tmpd = tempfile.mkdtemp(prefix='par', dir=BUILD)
        pending, running, results = list(enumerate(items)), {}, {}

        def snap():
            return dict(obl={n: {k: v for k, v in o.items() if isinstance(v, (int, float)) and not isinstance(v, bool)} for n, o in self.obl.items()},
                        nv=len(self.violations), ni=len(self.inconclusive), nn=len(self.notes), ns=len(self.samples),
                        ex=[(dict(e.stats), e.solver.queries, e.solver.time, e.solver.unknown) for e in self.executors])

        def child(i, it):
            before = snap()
            Replay._proc = None
            try:
                ret = fn(it)
                err = None
            except BaseException as e:       # noqa
                import traceback
                ret, err = None, ''.join(traceback.format_exception(type(e), e, e.__traceback__))[-2000:]
            d = dict(ret=ret, err=err,
                     obl={n: {k: v - before['obl'].get(n, {}).get(k, 0) for k, v in o.items() if isinstance(v, (int, float)) and not isinstance(v, bool)}
                          for n, o in self.obl.items()},
                     violations=self.violations[before['nv']:], inconclusive=self.inconclusive[before['ni']:],
                     notes=self.notes[before['nn']:], samples=self.samples[before['ns']:],
                     ex=[({k: v - b[0].get(k, 0) for k, v in e.stats.items() if isinstance(v, (int, float))}, e.solver.queries - b[1], e.solver.time - b[2],
                          e.solver.unknown - b[3], set(e.models_used), set(e.fns_executed)) for e, b in zip(self.executors, before['ex'])])
            with open(os.path.join(tmpd, f'{i}.tmp'), 'wb') as f:
                pickle.dump(d, f)
            os.rename(os.path.join(tmpd, f'{i}.tmp'), os.path.join(tmpd, f'{i}.pkl'))

        def reap(pid, status):
            i = running.pop(pid)
            path = os.path.join(tmpd, f'{i}.pkl')
            if not os.path.exists(path):
                self.inconclusive.append(f'worker {i} ended without a result (status {status})')
                results[i] = None
                return
            d = pickle.load(open(path, 'rb'))
            os.unlink(path)
            if d['err']:
                self.inconclusive.append(f'worker {i} failed: {d["err"]}')
            for n, o in d['obl'].items():
                for k, v in o.items():
                    self.obl[n][k] = self.obl[n].get(k, 0) + v
            self.violations += d['violations']
            self.inconclusive += d['inconclusive']
            self.notes += d['notes']
            for smp in d['samples']:
                self.sample(smp)
            for e, (st_d, q, t, u, mu, fe) in zip(self.executors, d['ex']):
                for k, v in st_d.items():
                    e.stats[k] = e.stats.get(k, 0) + v
                e.solver.queries += q
                e.solver.time += t
                e.solver.unknown += u
                e.models_used |= mu
                e.fns_executed |= fe
            results[i] = d['ret']

        sys.stdout.flush()
        sys.stderr.flush()
        while pending or running:
            while pending and len(running) < jobs:
                i, it = pending.pop(0)
                pid = os.fork()
                if pid == 0:
                    try:
                        child(i, it)
                    finally:
                        os._exit(0)
                running[pid] = i
            pid, status = os.wait()
            if pid in running:
                reap(pid, status)
        try:
            os.rmdir(tmpd)
        except OSError:
            pass
        self.workers = max(getattr(self, 'workers', 1), min(jobs, len(items)))
        return [results[i] for i in range(len(items))]

    def note_path_problem(self, results, what):
        """unsupported / unroll / error paths make the obligations that depend on them inconclusive"""
        bad = [r for r in results if r.status in ('unsupported', 'unroll', 'error', 'timeout')]
        for r in bad[:5]:
            self.inconclusive.append(f'{what}: {r.status}: {r.msg}')
        if len(bad) > 5:
            self.inconclusive.append(f'{what}: … {len(bad) - 5} more')
        return bad

    def sample(self, s):
        if len(self.samples) < 12:
            self.samples.append(s)

    # ---- finish
    def finish(self):
        for ex in self.executors:
            self.models_used |= ex.models_used
            self.fns_executed |= ex.fns_executed
            self.paths += ex.stats['paths']
            self.dup_paths += ex.stats.get('dup_paths', 0)
            self.queries += ex.solver.queries
            self.solver_s += ex.solver.time
            if ex.solver.unknown:
                self.inconclusive.append(f'{ex.solver.unknown} solver queries returned unknown')
        # vacuity: every declared obligation must have had a satisfiable hypothesis
        for n, o in self.obl.items():
            if o['hyp_sat'] == 0 and not o.get('allow_vacuous'):
                self.inconclusive.append(f'{n}: vacuous (hypothesis never satisfiable on any path)')
        # classify violations against known findings
        fresh_viol = []
        printed = set()
        for v in self.violations:
            hit = None
            for kind, key, body in self.known:
                if kind == 'finding' and key is not None and key == v['key']:
                    hit = body
            if hit is not None:
                if hit not in printed:
                    print(f'KNOWN-FINDING: property={self.pid} {hit.split(" ", 1)[1] if " " in hit else hit}')
                    printed.add(hit)
                self.known_hits.append(v)
            else:
                fresh_viol.append(v)
        # a listed finding is a defect shown against the real code: if no witness of that shape reproduces natively any more, say so
        # (one reproduction per listed shape is required; native runs that involve a second thread may individually miss their window)
        for key in sorted({v['key'] for v in self.known_hits}):
            hits = [v for v in self.known_hits if v['key'] == key]
            if not any(v.get('replayed') for v in hits) and any(v.get('replayed') is False for v in hits):
                self.inconclusive.append(f'known finding {key} did not reproduce natively')
        code = 0
        if self.replay_mismatch:
            code = 2
        if self.inconclusive:
            code = 2
        os.makedirs(EVID, exist_ok=True)
        os.makedirs(os.path.join(EVID, 'replays'), exist_ok=True)
        if os.environ.get('VERIF_DEBUG'):
            json.dump(self.violations, open(os.path.join(BUILD, f'debug_{self.pid}_violations.json'), 'w'), indent=1, default=str)
        confirmed = [v for v in fresh_viol if v['replayed'] is True]
        unconfirmed = [v for v in fresh_viol if v['replayed'] is not True]
        if unconfirmed:
            code = 2
            for v in unconfirmed[:5]:
                self.inconclusive.append(f'counterexample for {v["obligation"]} did not reproduce natively: {json.dumps(v["witness"], default=str)[:700]}')
        if confirmed:
            code = 1
            seen = set()
            for v in confirmed:
                k = (v['obligation'], v['key'])
                if k in seen:
                    continue
                seen.add(k)
                path = os.path.join(EVID, 'replays', f'{self.pid}_{v["obligation"]}_{len(seen)}.json')
                with open(path, 'w') as f:
                    json.dump(v, f, indent=1, default=str)
                print(f'VIOLATION property={self.pid} replay={path}')
                print(f'  obligation {v["obligation"]}: {json.dumps(v["witness"], default=str)[:500]}')
        n_obl = sum(o['hyp_sat'] for o in self.obl.values())
        n_dis = sum(o['discharged'] for o in self.obl.values())
        ev = {
            'property_id': self.pid, 'tier': self.tier, 'seed': self.seed, 'level': 'other',
            'coverage': {
                'explanation': ('bounded solver verdict over the real code: the listed functions are executed symbolically '
                                'from the MIR rustc prints for the current working tree; each obligation instance is one '
                                'unsat/sat question over all values of the symbolic inputs on one path, within the stated bounds'),
                'obligations': n_obl, 'discharged': n_dis,
                'checker_cmd': ' '.join(sys.argv),
                'trusted_base': ['rustc nightly -Zunpretty=mir printer', 'mirsym executor (/verif/mirsym)',
                                 'library models: ' + ', '.join(sorted(self.models_used)),
                                 'z3 ' + z3.get_version_string(), 'native replay driver (/verif/replay)'],
                'functions_encoded': sorted(set(self.functions) | self.fns_executed),
                'bounds': self.bounds,
                'per_obligation': self.obl,
                'paths': self.paths, 'duplicate_paths': self.dup_paths, 'queries': self.queries, 'solver_s': round(self.solver_s, 2),
                'mir_dump_s': round(self.dump_s, 1),
                'replayed_paths': self.replayed,
                'replay_mismatches': self.replay_mismatch[:10],
                'known_findings_met': [dict(obligation=v['obligation'], key=v['key'], reproduced_natively=v.get('replayed'), witness=v.get('witness')) for v in self.known_hits][:6],
                'inconclusive': self.inconclusive[:30],
                'samples': self.samples or ['(no samples)'],
                'notes': self.notes,
                'worker_processes': getattr(self, 'workers', 1),
            },
            'assumptions': self.assumptions,
            'wall_s': round(time.time() - self.t0, 2),
            'violations': len(confirmed),
        }
        with open(os.path.join(EVID, f'{self.pid}.json'), 'w') as f:
            json.dump(ev, f, indent=1, default=str)
        print(f'[{self.pid}] tier={self.tier} obligations={n_obl} discharged={n_dis} known={len(self.known_hits)} '
              f'violations={len(confirmed)} inconclusive={len(self.inconclusive)} paths={self.paths} dup={self.dup_paths} queries={self.queries} '
              f'solver={self.solver_s:.1f}s wall={time.time() - self.t0:.1f}s')
        for s in self.inconclusive[:15]:
            print('  INCONCLUSIVE:', s)
        sys.exit(code)


def mval(m, e, signed=False):
    """python int of BV term e under model m (model completion on)"""
    v = m.eval(e, model_completion=True)
    if z3.is_bv_value(v):
        return v.as_signed_long() if signed else v.as_long()
    if z3.is_true(v):
        return True
    if z3.is_false(v):
        return False
    return str(v)


def sym_u64(name, w=64, signed=False):
    return Int(z3.BitVec(name, w), signed)


def ref(v):
    return Ptr(Cell(val=v), 0)


def conc(m, v, st=None):
    """concrete python rendering of a runtime value under model m"""
    from mirsym.exec import SeqView
    if isinstance(v, Int):
        return mval(m, v.v, v.signed)
    if z3.is_bool(v):
        return bool(z3.is_true(m.eval(v, model_completion=True)))
    if isinstance(v, Flt):
        b = m.eval(z3.fpToIEEEBV(v.v), model_completion=True)
        return {'fbits': b.as_long()}
    if isinstance(v, Str):
        return v.text if v.text is not None else {'str_id': mval(m, v.id)}
    if isinstance(v, (Seq, SeqView)):
        return [conc(m, x, st) for x in (v.items(st) if st is not None else v.elems)]
    if isinstance(v, Ptr):
        return conc(m, v.load(st), st)
    if isinstance(v, Struct):
        return {str(k): conc(m, x, st) for k, x in v.fields.items()}
    if isinstance(v, Enum):
        d = v.disc if isinstance(v.disc, int) else mval(m, v.disc, True)
        return {'disc': d, 'variant': v.variant, 'fields': {f'{k[0]}.{k[1]}': conc(m, x, st) for k, x in v.fields.items()}}
    if isinstance(v, Cell):
        return conc(m, v.val, st)
    if isinstance(v, UnitT):
        return None
    if isinstance(v, Map):
        return [[conc(m, k, st), conc(m, x, st)] for k, x in zip(v.keys or [], v.vals or [])]
    return str(v)


def shape_of(st):
    return {n[1]: n[2] for n in st.notes if n[0] == 'shape'}


def same_shape(a, b):
    """two paths started from the same lazily shaped pre-state chose the same container sizes"""
    sa, sb = shape_of(a), shape_of(b)
    return all(sb.get(k, v) == v for k, v in sa.items())


def kani_run(ck, harness_filters, timeout_s=1500, jobs=8):
    """run Kani harnesses (E1).  Returns dict harness -> 'ok' | 'failed' | 'inconclusive'.
    A pass requires: VERIFICATION SUCCESSFUL, every cover satisfied, no unsupported-construct failure."""
    import re
    import shutil
    kdir = crate_dir('kani')
    shutil.copy(os.path.join(REPO, 'Cargo.lock'), os.path.join(kdir, 'Cargo.lock'))
    env = dict(os.environ, CARGO_NET_OFFLINE='true', CARGO_TARGET_DIR=os.path.join(BUILD, 'kani'))
    env.pop('RUSTFLAGS', None)
    cmd = ['cargo', 'kani', '-j', str(jobs), '--output-format', 'terse']
    for h in harness_filters:
        cmd += ['--harness', h]
    t = time.time()
    try:
        p = subprocess.run(cmd, cwd=kdir, env=env, capture_output=True, text=True, timeout=timeout_s)
        out = p.stdout + p.stderr
    except subprocess.TimeoutExpired as e:
        ck.inconclusive.append(f'kani timed out after {timeout_s}s')
        return {}, ''
    dt = time.time() - t
    res = {}
    # per-harness blocks: "Checking harness X..." ... "VERIFICATION:- SUCCESSFUL|FAILED"
    cur = None
    failed_names = re.findall(r'Verification failed for - (\S+)', out)
    m = re.search(r'Complete - (\d+) successfully verified harnesses, (\d+) failures, (\d+) total', out)
    if not m:
        ck.inconclusive.append('kani: no summary line (build failure or crash): ' + out[-600:])
        return {}, out
    n_ok, n_fail, n_total = map(int, m.groups())
    if 'unsupported_construct' in out and 'FAILURE' in out and re.search(r'unsupported_construct[^\n]*\n[^\n]*Status: FAILURE', out):
        ck.inconclusive.append('kani: an unsupported construct is reachable (verdict would be vacuous)')
    covers = re.findall(r'\*\* (\d+) of (\d+) cover properties satisfied', out)
    for a, b in covers:
        if a != b:
            ck.inconclusive.append(f'kani: only {a} of {b} cover properties satisfied (vacuity)')
    checks = sum(int(x) for x in re.findall(r'\*\* \d+ of (\d+) failed', out))
    ck.notes.append({'kani': {'harness_filters': harness_filters, 'verified': n_ok, 'failed': n_fail, 'total': n_total, 'checks': checks, 'wall_s': round(dt, 1),
                              'cmd': ' '.join(cmd)}})
    ck.kani = getattr(ck, 'kani', {'harnesses': 0, 'checks': 0, 'time': 0.0})
    ck.kani['harnesses'] += n_total
    ck.kani['checks'] += checks
    ck.kani['time'] += dt
    for f in failed_names:
        res[f.split('::')[-1]] = 'failed'
    return res, out


def kani_playback(harness, timeout_s=900):
    """concrete values of a failing harness: list of byte lists in kani::any() order"""
    import re
    kdir = crate_dir('kani') if os.path.abspath(REPO) == '/repo' else os.path.join(BUILD, 'src-kani')
    env = dict(os.environ, CARGO_NET_OFFLINE='true', CARGO_TARGET_DIR=os.path.join(BUILD, 'kani'))
    cmd = ['cargo', 'kani', '-Z', 'concrete-playback', '--concrete-playback=print', '--harness', harness]
    try:
        p = subprocess.run(cmd, cwd=kdir, env=env, capture_output=True, text=True, timeout=timeout_s)
    except subprocess.TimeoutExpired:
        return None
    out = p.stdout
    vals = []
    blk = re.search(r'let concrete_vals: Vec<Vec<u8>> = vec!\[(.*?)\];', out, re.S)
    if not blk:
        return None
    for mm in re.finditer(r'vec!\[([0-9,\s]*)\]', blk.group(1)):
        vals.append([int(x) for x in mm.group(1).replace(' ', '').split(',') if x])
    return vals
