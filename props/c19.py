"""C19 — blob store, the reference-count kernel only: BlobWriter::store_chunk, gc::{increment_chunk_refs, decrement_chunk_refs} and
integrity::delete_artifact executed from tensor_blob's MIR over the key/value contract of the store.  Decided: a chunk's stored
reference count equals the number of references to it (artifacts' chunk lists plus chunks a writer has already stored), after one
operation from every bounded state, and after two operations where one runs entirely inside a reference-count read-modify-write
window of the other.  gc_cycle and full_gc are executed as the poll functions of their (non-suspending) async bodies.  Streaming reads, checksums, repair and real hashing are NOT decided."""
import sys
import os
import itertools
sys.path.insert(0, os.path.dirname(os.path.dirname(os.path.abspath(__file__))))
from props.common import *
from mirsym.models import some, none, ok as _ok, err as _err, deref
from mirsym.models_iter import map_find, map_insert

ck = Check('C19')
T = ck.tier
ex = ck.executor('tensor_blob', unroll=24, default_maxlen=1, max_paths=100000)
P = ex.prog
F = P.field
NC = 2
ck.bounds = {'state': f'{NC} stored chunks, 0..2 artifacts whose chunk lists hold 1..2 references to them (one artifact may reference a chunk twice), reference counts equal to the number of references',
             'operation': 'one store_chunk (content equal to a stored chunk or new) / delete_artifact (id symbolic); pairs: one of these entirely inside the k-th reference-count read-modify-write window (k = 0..1) of another'}
ck.assumptions = [
    'the store is its key/value contract (get hands out a copy; put, delete, exists on a finite map); TensorData is its field map',
    'Chunk::key: "_blob:chunk:" + content hash with the hash an abstract identifier: equal content <=> equal key (collision-free hash); chunk bytes are opaque',
    'a lock is honoured when the code takes one: ref_count_lock(key) (if present) is a per-key mutex released by the MIR\'s own drop',
    'NOT decided: a collector pass racing a writer, streaming, checksums, verify/repair, interleavings other than "B inside one window of A"',
]
U64 = lambda v: z3.BitVecVal(v, 64)
CH_TPL = '_blob:chunk:'


def chunk_key(cid):
    return Str(z3.BitVec('k.' + str(cid), 64) if not z3.is_bv_value(cid) else None, parts=(CH_TPL, [('', Str(cid))])) if False else Str(cid_key_id(cid), parts=(CH_TPL, [('', Str(cid))]))


def cid_key_id(cid):
    return z3.simplify(cid ^ z3.BitVecVal(0x5A5A5A5A00000000, 64))      # any injective function of the content id


def kv_of(st):
    return st.roots['store'].fields['kv']


def copy_td(v):
    return Struct('TensorData', {'f': Map('std::string::String', 'TensorValue', list(v.fields['f'].keys), list(v.fields['f'].vals))})


def is_chunk_key(k):
    return isinstance(k, Str) and k.parts is not None and k.parts[0] == CH_TPL


def m_store_get(c):
    m = kv_of(c.st)
    key = deref(c.st, c.args[1])
    stale = c.st.env.get('stale')
    if stale is not None and is_chunk_key(key):
        n = c.st.env.get('rmw_gets', 0)
        # the stale value is the pre-B value only if A itself has not written this key earlier in its run; otherwise the
        # schedule is not expressible by this encoding and the window is skipped (the read sees the current value)
        own = any(map_find(c.st, Map('std::string::String', 'TensorData', [k_], [None]), key, 'own-write?') is not None for k_ in c.st.env.get('a_puts', []))
        if n == stale['at'] and not own:
            old = Map('std::string::String', 'TensorData', list(stale['keys']), list(stale['vals']))
            j = map_find(c.st, old, key, 'store.get(stale)')
            c.st.env['rmw_gets'] = n + 1
            c.st.env['stale_used'] = True
            lk = c.st.roots.get('reflock:' + str(key.id.get_id()))
            c.st.env['window'] = (key, bool(lk is not None and getattr(lk, 'held', [])))
            if j is None:
                return _err(Opaque('TensorStoreError::NotFound'), 'Result<TensorData, TensorStoreError>')
            return _ok(copy_td(old.vals[j]), 'Result<TensorData, TensorStoreError>')
        i = map_find(c.st, m, key, 'store.get')
        c.st.env['rmw_gets'] = n + 1
        if i is None:
            return _err(Opaque('TensorStoreError::NotFound'), 'Result<TensorData, TensorStoreError>')
        return _ok(copy_td(m.vals[i]), 'Result<TensorData, TensorStoreError>')
    i = map_find(c.st, m, key, 'store.get')
    if i is None:
        return _err(Opaque('TensorStoreError::NotFound'), 'Result<TensorData, TensorStoreError>')
    return _ok(copy_td(m.vals[i]), 'Result<TensorData, TensorStoreError>')


def m_store_put(c):
    m = kv_of(c.st)
    key = deref(c.st, c.args[1])
    i = map_find(c.st, m, key, 'store.put')
    if c.st.env.get('stale') is not None:
        c.st.env['a_puts'] = c.st.env.get('a_puts', []) + [key]
    if i is None:
        m.keys.append(key)
        m.vals.append(c.args[2])
    else:
        m.vals[i] = c.args[2]
    return _ok(UNIT, 'Result<(), TensorStoreError>')


def m_store_delete(c):
    m = kv_of(c.st)
    i = map_find(c.st, m, c.args[1], 'store.delete')
    if i is None:
        return _err(Opaque('TensorStoreError::NotFound'), 'Result<(), TensorStoreError>')
    del m.keys[i]
    del m.vals[i]
    return _ok(UNIT, 'Result<(), TensorStoreError>')


def m_store_exists(c):
    return z3.BoolVal(map_find(c.st, kv_of(c.st), c.args[1], 'store.exists') is not None)


def m_td_new(c):
    return Struct('TensorData', {'f': Map('std::string::String', 'TensorValue', [], [])})


def m_td_set(c):
    td_ = deref(c.st, c.args[0])
    map_insert(c.st, td_.fields['f'], deref(c.st, c.args[1]), c.args[2])
    return UNIT


def m_td_get(c):
    from mirsym.exec import TypedPtr
    td_ = deref(c.st, c.args[0])
    m = td_.fields['f']
    i = map_find(c.st, m, c.args[1], 'tensor.get')
    if i is None:
        return none('Option<&TensorValue>')
    return some(TypedPtr(m, i, 'TensorValue'), 'Option<&TensorValue>')


def m_chunk_key(c):
    ch = deref(c.st, c.args[0])
    h = ch.load(F('Chunk', 'hash'), 'std::string::String', c.st)
    return Str(cid_key_id(h.id), parts=(CH_TPL, [('', h)]))


def m_ref_lock(c):
    from mirsym.models_std import _lock
    key = deref(c.st, c.args[-1])
    name = 'reflock:' + str(key.id.get_id())
    if name not in c.st.roots:
        c.st.roots[name] = Struct('Mutex', {'data': Cell(val=UNIT)})
    c.st.notes.append(('ref_lock', key))
    sub = type('C', (), {})()
    sub.st, sub.args, sub.canon = c.st, [ref(c.st.roots[name])], 'Mutex::lock'
    return _lock(sub, 'w')


ex.extra_models.update({
    'TensorStore::get': m_store_get, 'TensorStore::put': m_store_put, 'TensorStore::delete': m_store_delete, 'TensorStore::exists': m_store_exists,
    'TensorData::new': m_td_new, 'TensorData::set': m_td_set, 'TensorData::get': m_td_get,
    'Chunk::key': m_chunk_key, 'ref_count_lock': m_ref_lock, 'gc::ref_count_lock': m_ref_lock,
    'current_timestamp': lambda c: Int(z3.BitVec(c.st.fresh_name('now'), 64), False), 'streaming::current_timestamp': lambda c: Int(z3.BitVec(c.st.fresh_name('now'), 64), False),
})


def tv_int(v):
    return Enum('TensorValue', P.variant_index('TensorValue', 'Scalar'), {('Scalar', 0): Enum('ScalarValue', P.variant_index('ScalarValue', 'Int'), {('Int', 0): Int(v, True)}, variant='Int')}, variant='Scalar')


def tv_ptrs(strs):
    return Enum('TensorValue', P.variant_index('TensorValue', 'Pointers'), {('Pointers', 0): Seq('std::string::String', list(strs))}, variant='Pointers')


def td(fields):
    return Struct('TensorData', {'f': Map('std::string::String', 'TensorValue', [Str(text=k) for k in fields], list(fields.values()))})


def run(st, fname, args):
    st.frames = []
    ex.call(st, fname, args)
    return ex.run(st)


# the metadata key is built by a real format!: take its compiled template from one run of delete_artifact on an empty store
def probe_meta_template():
    st = ex.new_state()
    st.roots['store'] = Struct('TensorStore', {'kv': Map('std::string::String', 'TensorData', [], [])})
    seen = []
    saved = ex.extra_models['TensorStore::get']

    def spy(c):
        seen.append(deref(c.st, c.args[1]))
        return saved(c)
    ex.extra_models['TensorStore::get'] = spy
    try:
        run(st, 'delete_artifact', [ref(st.roots['store']), ref(Str(z3.BitVec('probe_aid', 64)))])
    finally:
        ex.extra_models['TensorStore::get'] = saved
    k = [x for x in seen if isinstance(x, Str) and x.parts is not None]
    if not k:
        raise RuntimeError('delete_artifact did not build a format! key')
    return k[0].parts


META_TPL, META_VALS = probe_meta_template()
META_SPEC = META_VALS[0][0]


def meta_key(aid):
    return Str(z3.simplify(aid ^ z3.BitVecVal(0x3C3C3C3C00000000, 64)), parts=(META_TPL, [(META_SPEC, Str(aid))]))


class World:
    """chunks c0..c(NC-1) stored; artifacts = list of chunk-index lists"""

    def __init__(self, st, arts, pending=(), free_counts=False):
        self.cid = [z3.BitVec(f'content{i}', 64) for i in range(NC)]
        self.aid = [z3.BitVec(f'artifact{j}', 64) for j in range(len(arts))]
        for a, b in itertools.combinations(self.cid, 2):
            st.assume(a != b)
        for a, b in itertools.combinations(self.aid, 2):
            st.assume(a != b)
        self.arts = arts
        self.ckeys = [Str(cid_key_id(c), parts=(CH_TPL, [('', Str(c))])) for c in self.cid]
        keys, vals = [], []
        self.refs0 = []
        for i in range(NC):
            cnt = sum(l.count(i) for l in arts) + list(pending).count(i)
            r = z3.BitVec(f'refs{i}', 64)
            if not free_counts:
                st.assume(r == U64(cnt))        # invariant R in the pre-state
            self.refs0.append(cnt)
            keys.append(self.ckeys[i])
            vals.append(td({'_type': Enum('TensorValue', P.variant_index('TensorValue', 'Scalar'), {('Scalar', 0): Enum('ScalarValue', P.variant_index('ScalarValue', 'String'), {('String', 0): Str(text='blob_chunk')}, variant='String')}, variant='Scalar'),
                            '_size': tv_int(z3.BitVec(f'size{i}', 64)), '_refs': tv_int(r), '_created': tv_int(z3.BitVec(f'created{i}', 64))}))
        for j, l in enumerate(arts):
            keys.append(meta_key(self.aid[j]))
            vals.append(td({'_chunks': tv_ptrs([self.ckeys[i] for i in l])}))
        st.roots['store'] = Struct('TensorStore', {'kv': Map('std::string::String', 'TensorData', keys, vals)})


def read_state(st):
    """({content id term: refs term}, [(artifact id term, [content id terms])]) from the store"""
    chunks, arts = [], []
    kv = kv_of(st)
    for k, v in zip(kv.keys, kv.vals):
        fm = v.fields['f']
        get = lambda name: next((fm.vals[i] for i, kk in enumerate(fm.keys) if getattr(kk, 'text', None) == name), None)
        if is_chunk_key(k):
            r = get('_refs')
            chunks.append((k.parts[1][0][1].id, r.fields[('Scalar', 0)].fields[('Int', 0)].v if r is not None else None))
        elif k.parts is not None and k.parts[0] == META_TPL:
            cl = get('_chunks')
            arts.append((k.parts[1][0][1].id, [s_.parts[1][0][1].id for s_ in cl.fields[('Pointers', 0)].items(st)] if cl is not None else []))
        else:
            raise RuntimeError('unexpected key in the store: ' + repr(k))
    return chunks, arts


def refs_match(chunks, arts, pending):
    """z3: every referenced chunk is stored, and every stored chunk's count equals its number of references (artifact lists + pending writer lists)"""
    cs = []
    allrefs = [c for (_, l) in arts for c in l] + list(pending)
    for (cid, r) in chunks:
        if r is None:
            cs.append(z3.BoolVal(False))
            continue
        cnt = z3.Sum([z3.If(x == cid, z3.BitVecVal(1, 64), z3.BitVecVal(0, 64)) for x in allrefs]) if allrefs else z3.BitVecVal(0, 64)
        cs.append(r == cnt)
    for x in allrefs:
        cs.append(z3.Or([cid == x for (cid, _) in chunks] + [z3.BoolVal(False)]))
    return z3.And(cs) if cs else z3.BoolVal(True)


def writer(st, name='W'):
    w = Struct('BlobWriter', {F('BlobWriter', 'store'): st.roots['store'], F('BlobWriter', 'chunks'): Seq('std::string::String', [])}, lazy=name)
    st.roots[name] = w
    return w


def new_chunk(st, name):
    h = Str(z3.BitVec(name + '_content', 64))
    return Struct('Chunk', {F('Chunk', 'hash'): h, F('Chunk', 'size'): Int(z3.BitVec(name + '_size', 64), False)}, lazy=name), h.id


def pending_of(st, name='W'):
    w = st.roots.get(name)
    if w is None:
        return []
    return [s_.parts[1][0][1].id for s_ in w.fields[F('BlobWriter', 'chunks')].items(st)]


ART_SETS = [[], [[0]], [[0], [0]], [[0, 1]], [[0, 0]], [[0], [0, 1]], [[0, 0], [0]]]      # the last: a chunk repeated inside one artifact AND shared with another (a clamp at zero hides over-release otherwise)
ck.declare('R1_store_chunk_counts_the_reference', 'BlobWriter::store_chunk with content equal to a stored chunk or new, on every bounded state',
           'Ok => the chunk is stored, the writer lists it, and every stored chunk\'s count equals its number of references (artifact lists + the writer\'s list); no panic')
ck.declare('R2_delete_artifact_releases_exactly_its_references', 'delete_artifact(id), id symbolic',
           'Ok => the artifact\'s record is gone and every count equals the number of remaining references (a chunk another artifact still references keeps a positive count); Err (unknown id) => nothing changed')
ck.declare('R3_concurrent_count_updates_keep_both', 'A, B in {store_chunk of existing content, delete_artifact}; B entirely inside A\'s k-th count read-modify-write window',
           'both Ok => every count equals the number of references at quiescence')
n_store = n_del = 0
for arts in ART_SETS:
    # ---- R1: the writer has stored nothing yet, or has already stored chunk 0 (a chunk repeating inside one artifact)
    for already in ([], [0]):
        st = ex.new_state()
        Wd = World(st, arts, pending=already)
        w = writer(st)
        w.fields[F('BlobWriter', 'chunks')] = Seq('std::string::String', [Wd.ckeys[i] for i in already])
        ch, hid = new_chunk(st, 'newchunk')
        res = run(st, 'BlobWriter::store_chunk', [ref(w), ch])
        ck.note_path_problem(res, f'store_chunk arts={arts} already={already}')
        for r in res:
            wit = lambda m, Wd=Wd, arts=arts, already=already: {'blob_op': 'store_chunk', 'artifacts': arts, 'writer_already_stored': already, 'content_equals': [i for i in range(NC) if mval(m, Wd.cid[i]) == mval(m, hid)]}
            if r.status == 'panic':
                ck.require(ex, 'R1_store_chunk_counts_the_reference', r.pc, None, z3.BoolVal(False), wit, lambda m, w_: 'store-chunk-panic')
                continue
            if r.status != 'return' or r.retval.variant != 'Ok':
                continue
            n_store += 1
            chunks, al = read_state(r.st)
            pend = pending_of(r.st)
            ck.require(ex, 'R1_store_chunk_counts_the_reference', r.pc, None, z3.And(refs_match(chunks, al, pend), z3.BoolVal(len(pend) == len(already) + 1), pend[-1] == hid if pend else z3.BoolVal(False)), wit, lambda m, w_: 'store-chunk-count')
    # ---- R2
    st = ex.new_state()
    Wd = World(st, arts)
    aid = z3.BitVec('del_aid', 64)
    res = run(st, 'delete_artifact', [ref(st.roots['store']), ref(Str(aid))])
    ck.note_path_problem(res, f'delete_artifact arts={arts}')
    for r in res:
        wit = lambda m, Wd=Wd, arts=arts: {'blob_op': 'delete_artifact', 'artifacts': arts, 'deletes': [j for j in range(len(arts)) if mval(m, Wd.aid[j]) == mval(m, aid)]}
        if r.status == 'panic':
            ck.require(ex, 'R2_delete_artifact_releases_exactly_its_references', r.pc, None, z3.BoolVal(False), wit, lambda m, w_: 'delete-panic')
            continue
        if r.status != 'return':
            continue
        chunks, al = read_state(r.st)
        if r.retval.variant == 'Ok':
            n_del += 1
            cs = [refs_match(chunks, al, []), z3.And([a != aid for (a, _) in al] + [z3.BoolVal(True)]), z3.BoolVal(len(al) == len(arts) - 1), z3.BoolVal(len(chunks) == NC)]
            ck.require(ex, 'R2_delete_artifact_releases_exactly_its_references', r.pc, None, z3.And(cs), wit, lambda m, w_: 'delete-count')
        else:
            ck.require(ex, 'R2_delete_artifact_releases_exactly_its_references', r.pc, None, z3.And(refs_match(chunks, al, []), z3.BoolVal(len(al) == len(arts))), wit, lambda m, w_: 'refused-delete-changed-state')
if n_store == 0 or n_del == 0:
    ck.inconclusive.append(f'vacuous: store_chunk succeeded on {n_store} paths, delete_artifact on {n_del}')

# ---- R4: the collector. `gc_cycle` is an `async fn` without suspension points: its body is a state machine that completes on the
# first poll; the poll function is executed from state 0 with the collector as its captured `self`.
ck.declare('R4_collector_removes_only_unreferenced_chunks', 'GarbageCollector::gc_cycle (one poll of its async body) on every bounded state, chunk ages and the minimum age symbolic, batch size >= number of chunks',
           'returns Ready; every chunk it deletes had a stored count of 0; with counts equal to the number of references (R) no chunk that an artifact references is deleted, and R still holds')


def m_scan_chunks(c):
    pre = deref(c.st, c.args[1])
    if pre.text != CH_TPL:
        raise Unsupported('scan of ' + repr(pre.text))
    return Seq('std::string::String', [k for k in kv_of(c.st).keys if is_chunk_key(k)])


ex.extra_models['TensorStore::scan'] = m_scan_chunks
ex.extra_models['gc::current_timestamp'] = lambda c: Int(z3.BitVec('gc_now', 64), False)
polled = 0
for arts in ART_SETS:
    for orphan in (False, True):
        st = ex.new_state()
        Wd = World(st, arts)
        if orphan and any(0 in l for l in arts):
            continue
        gc = Struct('GarbageCollector', {F('GarbageCollector', 'store'): st.roots['store']}, lazy='GC')
        cfg = gc.load(F('GarbageCollector', 'config'), 'GcConfig', st)
        cfg.fields[F('GcConfig', 'batch_size')] = Int(U64(16), False)
        body = Struct('{async fn body of GarbageCollector::gc_cycle()}', {0: ref(gc), '__state': 0})
        pin = Struct('Pin', {0: ref(body)})
        c0, a0 = read_state(st)
        res = run(st, 'GarbageCollector::gc_cycle::{closure#0}', [pin, ref(Opaque('Context'))])
        ck.note_path_problem(res, f'gc_cycle arts={arts}')
        for r in res:
            wit = lambda m, arts=arts: {'blob_op': 'gc', 'artifacts': arts}
            if r.status == 'panic':
                ck.require(ex, 'R4_collector_removes_only_unreferenced_chunks', r.pc, None, z3.BoolVal(False), wit, lambda m, w_: 'gc-panic')
                continue
            if r.status != 'return':
                continue
            polled += 1
            c1, a1 = read_state(r.st)
            ready = getattr(r.retval, 'variant', 'Ready') in ('Ready', None) or 'Poll' in str(getattr(r.retval, 'ty', ''))
            gone = [(cid, rf) for (cid, rf) in c0 if not any(z3.is_true(z3.simplify(cid == x)) for (x, _) in c1)]
            cs = [z3.BoolVal(bool(ready)), refs_match(c1, a1, []), z3.BoolVal(len(a1) == len(a0))] + [rf == 0 for (_, rf) in gone]
            ck.require(ex, 'R4_collector_removes_only_unreferenced_chunks', r.pc, None, z3.And(cs), wit, lambda m, w_: 'collector-removed-referenced-chunk')
# ---- R5: full_gc recounts from the artifacts' chunk lists and removes exactly the chunks nobody references
ck.declare('R5_full_collection_removes_exactly_unreferenced', 'GarbageCollector::full_gc (one poll of its async body) on every bounded state, stored counts ARBITRARY (the recount does not trust them)',
           'returns Ready(Ok); afterwards a chunk is stored exactly when some artifact references it; artifacts are untouched')


def m_scan_any(c):
    pre = deref(c.st, c.args[1])
    if pre.text == CH_TPL:
        return Seq('std::string::String', [k for k in kv_of(c.st).keys if is_chunk_key(k)])
    if pre.text is not None and META_TPL and (pre.text.encode() if isinstance(META_TPL, (bytes, bytearray)) else pre.text) is not None and pre.text.startswith('_blob:meta:'):
        return Seq('std::string::String', [k for k in kv_of(c.st).keys if k.parts is not None and k.parts[0] == META_TPL])
    raise Unsupported('scan of ' + repr(pre.text))


ex.extra_models['TensorStore::scan'] = m_scan_any
full = 0
for arts in ART_SETS:
    st = ex.new_state()
    Wd = World(st, arts, free_counts=True)
    gc = Struct('GarbageCollector', {F('GarbageCollector', 'store'): st.roots['store']}, lazy='GC')
    body = Struct('{async fn body of GarbageCollector::full_gc()}', {0: ref(gc), '__state': 0})
    c0, a0 = read_state(st)
    res = run(st, 'GarbageCollector::full_gc::{closure#0}', [Struct('Pin', {0: ref(body)}), ref(Opaque('Context'))])
    ck.note_path_problem(res, f'full_gc arts={arts}')
    for r in res:
        wit = lambda m, arts=arts: {'blob_op': 'full_gc', 'artifacts': arts}
        if r.status == 'panic':
            ck.require(ex, 'R5_full_collection_removes_exactly_unreferenced', r.pc, None, z3.BoolVal(False), wit, lambda m, w_: 'full-gc-panic')
            continue
        if r.status != 'return':
            continue
        full += 1
        c1, a1 = read_state(r.st)
        referenced = lambda cid: z3.Or([x == cid for (_, l) in a0 for x in l] + [z3.BoolVal(False)])
        kept = lambda cid: z3.Or([x == cid for (x, _) in c1] + [z3.BoolVal(False)])
        cs = [z3.BoolVal(len(a1) == len(a0))] + [kept(cid) == referenced(cid) for (cid, _) in c0]
        ck.require(ex, 'R5_full_collection_removes_exactly_unreferenced', r.pc, None, z3.And(cs), wit, lambda m, w_: 'full-gc-wrong-set')
if full == 0:
    ck.inconclusive.append('R5 vacuous: full_gc never completed')
del ex.extra_models['TensorStore::scan']
if polled == 0:
    ck.inconclusive.append('R4 vacuous: gc_cycle never completed')

# ---- R3: B inside A's k-th window
hits = 0
for arts in ([[0]], [[0], [0]], [[0, 0]], [[0], [0, 1]]):
    for aop, bop in itertools.product(('store', 'delete'), repeat=2):
        for k in range(2):
            st = ex.new_state()
            Wd = World(st, arts)
            kv0 = kv_of(st)
            snap_keys, snap_vals = list(kv0.keys), [copy_td(v) for v in kv0.vals]

            def do(s_, op, tag):
                if op == 'store':
                    w_ = writer(s_, 'W' + tag)
                    ch_, hid_ = new_chunk(s_, 'chunk' + tag)
                    s_.assume(z3.Or([hid_ == c for c in Wd.cid]))        # duplicates of stored content: the path that updates a count
                    return run(s_, 'BlobWriter::store_chunk', [ref(w_), ch_]), hid_
                a_ = z3.BitVec('aid' + tag, 64)
                return run(s_, 'delete_artifact', [ref(s_.roots['store']), ref(Str(a_))]), a_
            resB, symB = do(st, bop, 'B')
            ck.note_path_problem(resB, f'R3 B={bop} arts={arts}')
            for rb in resB:
                if rb.status != 'return' or rb.retval.variant != 'Ok':
                    continue
                s1 = rb.st
                b_locked = [x[1] for x in s1.notes if x[0] == 'ref_lock']
                s1.env['stale'] = {'at': k, 'keys': snap_keys, 'vals': snap_vals}
                s1.env['rmw_gets'] = 0
                s1.env['a_puts'] = []
                s1.env['stale_used'] = False
                resA, symA = do(s1, aop, 'A')
                if aop == 'delete' and bop == 'delete':
                    for ra in resA:
                        if ra.status == 'return':
                            ra.st.assume(symA != symB)
                ck.note_path_problem(resA, f'R3 A={aop} window {k} B={bop} arts={arts}')
                for ra in resA:
                    if ra.status != 'return' or ra.retval.variant != 'Ok' or not ra.st.env.get('stale_used'):
                        continue
                    hits += 1
                    f = ra.st
                    chunks, al = read_state(f)
                    pend = pending_of(f, 'WA') + pending_of(f, 'WB')
                    hyp = z3.BoolVal(True)
                    if aop == 'delete' and bop == 'delete':
                        hyp = symA != symB
                    wkey, wlocked = f.env.get('window', (None, False))
                    if wlocked:
                        from mirsym.models_std import str_equal
                        hyp = z3.And(hyp, z3.And([z3.Not(str_equal(f, bk, wkey)) for bk in b_locked] + [z3.BoolVal(True)]))
                    wit = lambda m, arts=arts, aop=aop, bop=bop, k=k, Wd=Wd, symA=symA, symB=symB: {
                        'blob_op': 'concurrent', 'artifacts': arts, 'a': aop, 'b': bop, 'window': k,
                        'a_target': [i for i, c in enumerate(Wd.cid if aop == 'store' else Wd.aid) if mval(m, c) == mval(m, symA)],
                        'b_target': [i for i, c in enumerate(Wd.cid if bop == 'store' else Wd.aid) if mval(m, c) == mval(m, symB)]}
                    ck.require(ex, 'R3_concurrent_count_updates_keep_both', ra.pc, hyp, refs_match(chunks, al, pend), wit, lambda m, w_: 'lost-count-update')
if hits == 0:
    ck.inconclusive.append('R3 vacuous: no path used a stale read')

# ---- R7: the collector racing a writer: a writer's store_chunk of existing content runs entirely between the collector's read of
# that chunk's record and its delete (stale-read encoding on the collector's read)
ck.declare('R7_collector_does_not_take_a_chunk_a_writer_just_referenced', 'gc_cycle with a writer\'s store_chunk (content equal to a stored, unreferenced, old chunk) entirely inside the window between the collector\'s read of that chunk and its delete',
           'afterwards every chunk the writer lists is still stored with a count that covers the reference')
ex.extra_models['TensorStore::scan'] = m_scan_chunks
ex.extra_models['gc::current_timestamp'] = lambda c: Int(z3.BitVec('gc_now', 64), False)
raced = 0
for arts in ([], [[1]]):
    for k in range(2):
        st = ex.new_state()
        Wd = World(st, arts)                      # chunk 0 is stored with count 0 (an orphan the collector may take)
        kv0 = kv_of(st)
        snap_keys, snap_vals = list(kv0.keys), [copy_td(v) for v in kv0.vals]
        w = writer(st, 'WB')
        ch, hid = new_chunk(st, 'chunkB')
        st.assume(hid == Wd.cid[0])
        resB = run(st, 'BlobWriter::store_chunk', [ref(w), ch])
        ck.note_path_problem(resB, f'R7 writer arts={arts}')
        for rb in resB:
            if rb.status != 'return' or rb.retval.variant != 'Ok':
                continue
            s1 = rb.st
            b_locked = [x[1] for x in s1.notes if x[0] == 'ref_lock']
            s1.env['stale'] = {'at': k, 'keys': snap_keys, 'vals': snap_vals}
            s1.env['rmw_gets'] = 0
            s1.env['a_puts'] = []
            s1.env['stale_used'] = False
            gc = Struct('GarbageCollector', {F('GarbageCollector', 'store'): s1.roots['store']}, lazy='GC')
            gc.load(F('GarbageCollector', 'config'), 'GcConfig', s1).fields[F('GcConfig', 'batch_size')] = Int(U64(16), False)
            body = Struct('{async fn body of GarbageCollector::gc_cycle()}', {0: ref(gc), '__state': 0})
            resA = run(s1, 'GarbageCollector::gc_cycle::{closure#0}', [Struct('Pin', {0: ref(body)}), ref(Opaque('Context'))])
            ck.note_path_problem(resA, f'R7 gc window {k} arts={arts}')
            for ra in resA:
                if ra.status != 'return' or not ra.st.env.get('stale_used'):
                    continue
                raced += 1
                f = ra.st
                chunks, al = read_state(f)
                pend = pending_of(f, 'WB')
                hyp = z3.BoolVal(True)
                wkey, wlocked = f.env.get('window', (None, False))
                if wlocked:
                    from mirsym.models_std import str_equal
                    hyp = z3.And([z3.Not(str_equal(f, bk, wkey)) for bk in b_locked] + [z3.BoolVal(True)])
                ck.require(ex, 'R7_collector_does_not_take_a_chunk_a_writer_just_referenced', ra.pc, hyp, refs_match(chunks, al, pend),
                           lambda m, arts=arts, k=k: {'blob_op': 'concurrent', 'artifacts': arts, 'a': 'gc', 'b': 'store', 'window': k, 'a_target': [], 'b_target': [0], 'orphan': 0}, lambda m, w_: 'collector-took-referenced-chunk')
del ex.extra_models['TensorStore::scan']
if raced == 0:
    ck.inconclusive.append('R7 vacuous: the collector never read a stale record')

# ---- R6: the chunker.  BlobWriter::write / finish are async without suspension points; their poll functions are executed with
# store_chunk, hashing and the metadata writer stubbed (store_chunk records the chunk's bytes).
ck.declare('R6_chunks_concatenate_to_the_written_bytes', 'write(d1), write(d2), finish with chunk size 1..3, |d1| in 0..4, |d2| in 0..3, bytes symbolic',
           'the chunks handed to store_chunk, in order, concatenate to d1 ++ d2; every chunk but the last has exactly chunk_size bytes, the last 1..chunk_size; no empty chunk; total_size = |d1| + |d2|')


def m_chunk_new(c):
    data = c.args[0]
    return Struct('Chunk', {F('Chunk', 'hash'): Str(z3.BitVec(c.st.fresh_name('h'), 64)), F('Chunk', 'data'): data, F('Chunk', 'size'): Int(U64(len(list(deref(c.st, data).items(c.st)) if isinstance(data, Ptr) else list(data.items(c.st)))), False)})


def m_store_chunk_stub(c):
    ch = deref(c.st, c.args[1]) if isinstance(c.args[1], Ptr) else c.args[1]
    d = ch.fields[F('Chunk', 'data')]
    c.st.env['stored'] = c.st.env.get('stored', []) + [[b.v for b in d.items(c.st)]]
    return _ok(UNIT, 'Result<(), BlobError>')


def poll(st, fname, fields):
    body = Struct('{async fn body}', dict(fields, __state=0))
    return run(st, fname, [Struct('Pin', {0: ref(body)}), ref(Opaque('Context'))])


saved = {k: ex.extra_models.get(k) for k in ('BlobWriter::store_chunk', 'Chunk::new', 'StreamingHasher::update', 'StreamingHasher::finalize', 'build_metadata_tensor', 'BlobWriter::write_secondary_indexes')}
ex.extra_models.update({'BlobWriter::store_chunk': m_store_chunk_stub, 'Chunk::new': m_chunk_new, 'StreamingHasher::update': lambda c: UNIT,
                        'StreamingHasher::finalize': lambda c: Str(z3.BitVec(c.st.fresh_name('sum'), 64)),
                        'build_metadata_tensor': lambda c: m_td_new(c), 'streaming::build_metadata_tensor': lambda c: m_td_new(c),
                        'BlobWriter::write_secondary_indexes': lambda c: _ok(UNIT, 'Result<(), BlobError>')})
chunked = 0
try:
    for cs_ in (1, 2, 3):
        for L1 in range(0, 5):
            for L2 in range(0, 4):
                if T == 'quick' and (L1 + L2) % 2 == 1 and cs_ == 1:
                    continue
                st = ex.new_state()
                st.roots['store'] = Struct('TensorStore', {'kv': Map('std::string::String', 'TensorData', [], [])})
                d1 = [z3.BitVec(f'd1_{i}', 8) for i in range(L1)]
                d2 = [z3.BitVec(f'd2_{i}', 8) for i in range(L2)]
                w = Struct('BlobWriter', {F('BlobWriter', 'store'): st.roots['store'], F('BlobWriter', 'chunks'): Seq('std::string::String', []),
                                          F('BlobWriter', 'buffer'): Seq('u8', []), F('BlobWriter', 'total_size'): Int(U64(0), False),
                                          F('BlobWriter', 'chunker'): Struct('Chunker', {F('Chunker', 'chunk_size'): Int(U64(cs_), False)})}, lazy='W')
                st.roots['W'] = w
                states = [st]
                for dn, d in (('d1', d1), ('d2', d2)):
                    nxt = []
                    for s_ in states:
                        res = poll(s_, 'BlobWriter::write::{closure#0}', {0: ref(s_.roots['W']), 1: ref(Seq('u8', [Int(b, False) for b in d]))})
                        ck.note_path_problem(res, f'write {dn} cs={cs_} L1={L1} L2={L2}')
                        nxt += [r.st for r in res if r.status == 'return']
                        for r in res:
                            if r.status == 'panic':
                                ck.require(ex, 'R6_chunks_concatenate_to_the_written_bytes', r.pc, None, z3.BoolVal(False), lambda m: {'blob_op': 'chunking', 'chunk_size': cs_, 'len1': L1, 'len2': L2}, lambda m, w_: 'write-panic')
                    states = nxt
                for s_ in states:
                    res = poll(s_, 'BlobWriter::finish::{closure#0}', {0: s_.roots['W']})
                    ck.note_path_problem(res, f'finish cs={cs_} L1={L1} L2={L2}')
                    for r in res:
                        wit = lambda m, cs_=cs_, L1=L1, L2=L2: {'blob_op': 'chunking', 'chunk_size': cs_, 'len1': L1, 'len2': L2}
                        if r.status == 'panic':
                            ck.require(ex, 'R6_chunks_concatenate_to_the_written_bytes', r.pc, None, z3.BoolVal(False), wit, lambda m, w_: 'finish-panic')
                            continue
                        if r.status != 'return':
                            continue
                        chunked += 1
                        stored = r.st.env.get('stored', [])
                        flat = [b for ch_ in stored for b in ch_]
                        want = d1 + d2
                        shape = len(flat) == len(want) and all(len(ch_) == cs_ for ch_ in stored[:-1]) and all(1 <= len(ch_) <= cs_ for ch_ in stored[-1:])
                        eqs = z3.And([a == b for a, b in zip(flat, want)] + [z3.BoolVal(True)]) if shape else z3.BoolVal(False)
                        ck.require(ex, 'R6_chunks_concatenate_to_the_written_bytes', r.pc, None, z3.And(z3.BoolVal(bool(shape)), eqs), wit, lambda m, w_: 'chunking')
finally:
    for k, v_ in saved.items():
        if v_ is None:
            ex.extra_models.pop(k, None)
        else:
            ex.extra_models[k] = v_
    ex.extra_models.pop('streaming::build_metadata_tensor', None)
if chunked == 0:
    ck.inconclusive.append('R6 vacuous: finish never completed')

for v in ck.violations:
    rep = Replay.call({'op': 'blob_step', **v['witness']})
    v['native'] = rep
    v['replayed'] = rep.get('violates')
ck.functions += ['GarbageCollector::gc_cycle::{closure#0}', 'GarbageCollector::full_gc::{closure#0}', 'BlobWriter::store_chunk', 'gc::increment_chunk_refs', 'gc::decrement_chunk_refs', 'integrity::delete_artifact', 'streaming::get_int', 'streaming::get_pointers']
if __name__ == '__main__':
    ck.finish()
