"""C10 — Raft node restart never forgets a vote, a term or an acknowledged entry.
RaftWal open/append/replay executed from MIR on the byte-list file model; crash at every byte of the last record."""
import sys
import os
sys.path.insert(0, os.path.dirname(os.path.dirname(os.path.abspath(__file__))))
from props.common import *
from props.walcommon import *

ck = Check('C10')
T = ck.tier
ex = ck.executor('tensor_chain', unroll=40, default_maxlen=2, max_paths=100000)
ex.generic_subst = {'W': 'FileWriter'}
ex.extra_models['RaftWal::check_space'] = lambda c: ok(UNIT)
P = ex.prog
K = 2 if T == 'quick' else 3
LENS = (2,) if T == 'quick' else (1, 2, 3)
ck.bounds = {'records before the crash': f'1..{K}', 'payload bytes per record (codec image length)': list(LENS),
             'crash offsets': 'every byte length from "last record absent" to "last record complete"',
             'records appended after recovery': 1, 'from_entries': 'up to 3 term/vote records'}
ck.assumptions = [
    'torn-write model: after a crash the file holds a prefix of the bytes written since the last completed fsync',
    'crc32fast::hash is an uninterpreted function per length (collision behaviour unconstrained)',
    'bitcode: serialize yields fresh symbolic bytes of the stated length; deserialize returns the value on exactly those bytes and {Err, arbitrary value} on anything else',
    'disk-space pre-check (statvfs) returns Ok; rotation not triggered (default 1 GiB limit)',
    'P1: persist_log_entry / RaftWal::append called from the node are stubs that record their argument and may fail; the byte-level log is covered by W1-W3',
    'N2: record checksums are assumed non-zero (0 is the "no checksum" value the reader accepts unverified; that branch is explored by W1-W3)',
    'N1/N2: the file model never fails a write (a crash is the only fault, as in the property); the WAL-error branches of the handlers are therefore not reached there (P1 reaches them with a failing stub)',
    'outside: log rotation, snapshot-triggered truncation, RaftNode::with_wal wiring (node-level chains W5/W6)',
]

sc = WalScenario(ck, ex, 'RaftWal::open', 'RaftWal::append', 'RaftWal::replay', 'RaftWalEntry')
run_wal_obligations(ck, ex, sc, K, LENS, 'raft')

# ------------------------------------------------------------------ W4: recovery classification of term/vote records
ck.declare('W4_recovered_term_vote', 'up to 3 TermAndVote records emitted under the one-vote-per-term rule', 'from_entries returns the last persisted term and the vote cast in it')
EI = P.variant_index('RaftWalEntry', 'TermAndVote')
for n in range(1, 4):
    st = ex.new_state()
    ents, terms, votes = [], [], []
    for i in range(n):
        t = Int(z3.BitVec(f't{i}', 64), False)
        vd = z3.BitVec(f'v{i}.disc', 64)
        st.assume(z3.Or(vd == 0, vd == 1))
        vs = Str(z3.BitVec(f'v{i}.id', 64))
        v = Enum('std::option::Option<std::string::String>', vd, {('Some', 0): vs})
        ents.append(Enum('RaftWalEntry', EI, {('TermAndVote', 0): t, ('TermAndVote', 1): v}, variant='TermAndVote'))
        terms.append(t.v)
        votes.append((vd, vs.id))
    # emission rule (C01 V1/V2): terms never decrease; within a term the vote goes None -> Some(c) at most once
    for i in range(1, n):
        st.assume(z3.UGE(terms[i], terms[i - 1]))
        st.assume(z3.Implies(terms[i] == terms[i - 1], z3.And(votes[i - 1][0] == 0)))
    st.assume(z3.UGT(terms[0], 0))
    res = sc.run(st, 'RaftRecoveryState::from_entries', [ref(Seq('RaftWalEntry', ents))])
    ck.note_path_problem(res, f'from_entries n={n}')
    for r in res:
        wit = lambda m, n=n: {'records': [{'term': mval(m, terms[i]), 'vote': None if mval(m, votes[i][0]) == 0 else mval(m, votes[i][1])} for i in range(n)]}
        if r.status != 'return':
            if r.status == 'panic':
                ck.require(ex, 'W4_recovered_term_vote', r.pc, None, z3.BoolVal(False), wit, lambda m, w: 'from-entries-panic')
            continue
        rs = r.retval
        ct = rs.load(P.field('RaftRecoveryState', 'current_term'), 'u64', r.st).v
        vf = rs.load(P.field('RaftRecoveryState', 'voted_for'), None, r.st)
        vfd = vf.disc if not isinstance(vf.disc, int) else z3.BitVecVal(vf.disc, 64)
        cs = [ct == terms[-1], vfd == votes[-1][0]]
        if not (isinstance(vf.disc, int) and vf.disc == 0):
            cs.append(z3.Implies(votes[-1][0] == 1, vf.load(('Some', 0), 'std::string::String', r.st).id == votes[-1][1]))
        else:
            cs.append(votes[-1][0] == 0)
        ck.require(ex, 'W4_recovered_term_vote', r.pc, None, z3.And(cs), wit, lambda m, w: 'recovery-classification')

# ------------------------------------------------------------------ P: what the follower hands to the WAL mirrors its in-memory log
# handle_append_entries from MIR with a WAL present (RaftWal::append / persist_log_entry record what they are given),
# log_base_index symbolic (compaction has happened): replaying the emitted LogEntryFull / LogTruncate records over the
# pre-log must give exactly the post in-memory log, so that a restart from the WAL holds every acknowledged entry.
T_TIER = T
exec(open(os.path.join(os.path.dirname(os.path.abspath(__file__)), 'raftcommon.py')).read())
ck.declare('P1_wal_mirrors_log', 'in-memory log 0..2 entries above a symbolic log_base_index < 2^32, 0..2 consecutive entries after prev = base + p',
           'when every WAL write succeeded: applying the emitted records (LogTruncate{from}: drop >= from; LogEntryFull{i,t}: put) to the pre-log yields the post in-memory log')
ck.bounds['WAL mirror'] = 'follower log 0..2 entries, entries per message 0..2, log_base_index any value below 2^32'
TRUNC = P.variant_index('RaftWalEntry', 'LogTruncate')
mirrored = 0
for n in range(0, 3):
    for k in range(0, 3):
        for p_off in range(0, n + 1):
            st = ex.new_state()
            B = z3.BitVec('base', 64)
            st.assume(z3.ULT(B, U64(1 << 32)))
            N = Node(st, n, base=B)
            wal = N.node.load(F('RaftNode', 'wal'), 'std::option::Option<std::sync::Arc<parking_lot::lock_api::Mutex<parking_lot::RawMutex, raft_wal::RaftWal>>>', st)
            st.assume(wal.disc == 1)      # a WAL is configured
            ae = st.fresh('AppendEntries', 'ae')
            ae_term = ae.load(F('AppendEntries', 'term'), 'u64', st).v
            prev = z3.simplify(B + U64(p_off))
            ae.fields[F('AppendEntries', 'prev_log_index')] = Int(prev, False)
            ae_prevt = ae.load(F('AppendEntries', 'prev_log_term'), 'u64', st).v
            ae.fields[F('AppendEntries', 'block_embedding')] = none('std::option::Option<tensor_store::SparseVector>')
            ents, eterms = [], []
            for j in range(k):
                e = st.fresh('LogEntry', f'ae.entries[{j}]')
                t = e.load(F('LogEntry', 'term'), 'u64', st)
                e.fields[F('LogEntry', 'index')] = Int(z3.simplify(prev + U64(j + 1)), False)
                ents.append(e)
                eterms.append(t.v)
                st.assume(z3.ULE(t.v, ae_term))
            ae.fields[F('AppendEntries', 'entries')] = Seq('LogEntry', ents)
            frm = st.fresh('std::string::String', 'from')
            res = run(st, 'RaftNode::handle_append_entries', [N.ptr, ref(frm), ref(ae)])
            ck.note_path_problem(res, f'handle_append_entries (WAL mirror) log={n} entries={k} prev=base+{p_off}')
            for r in res:
                if r.status != 'return':
                    continue
                f = r.st
                if any(x[0] == 'persist_failed' for x in f.notes):
                    continue
                wit = lambda m, r=r, N=N, eterms=eterms, p_off=p_off, n=n: {'mirror': True, 'base': mval(m, B), 'pre_terms': [mval(m, t) for t in N.log0], 'prev_offset': p_off,
                                                                       'prev_term': mval(m, ae_prevt), 'ae_term': mval(m, ae_term), 'entry_terms': [mval(m, t) for t in eterms],
                                                                       'node_term': mval(m, N.term0.v)}
                # simulate the WAL on offsets relative to base
                sim = {i + 1: N.log0[i] for i in range(n)}
                ok_ = True
                conds = []
                for x in f.notes:
                    if x[0] == 'persist_entry':
                        e = x[1].load(f) if isinstance(x[1], Ptr) else x[1]
                        idx = e.load(F('LogEntry', 'index'), 'u64', f).v
                        trm = e.load(F('LogEntry', 'term'), 'u64', f).v
                        off = [c for c in range(0, n + k + 2) if ex.solver.check(r.pc, idx != B + U64(c)) == z3.unsat]
                        if not off:
                            ok_ = False
                            break
                        sim[off[0]] = trm
                    elif x[0] == 'wal_record' and isinstance(x[1], Enum) and x[1].variant == 'LogTruncate':
                        fi = x[1].fields[('LogTruncate', 0)].v
                        off = [c for c in range(0, n + k + 2) if ex.solver.check(r.pc, fi != B + U64(c)) == z3.unsat]
                        if not off:
                            # from_index is not base + constant on this path: the persisted cut point differs from the in-memory one for some base
                            conds.append(('truncate', fi))
                            ok_ = False
                            break
                        for key in [kk for kk in sim if kk >= off[0]]:
                            del sim[key]
                log1 = N.log(f)
                if ok_:
                    keys = sorted(sim)
                    concl = z3.And([z3.BoolVal(len(log1) == len(keys) and keys == list(range(1, len(keys) + 1)))] +
                                   [z3.And(log1[i][0] == sim[kk], log1[i][1] == B + U64(kk)) for i, kk in enumerate(keys) if i < len(log1)])
                else:
                    concl = z3.BoolVal(False)
                ck.require(ex, 'P1_wal_mirrors_log', r.pc, None, concl, wit, lambda m, w: 'wal-mirror', prefer=z3.And(B >= 1, B <= 3))
                mirrored += 1
if mirrored == 0:
    ck.inconclusive.append('vacuous: WAL mirror obligation never instantiated')

# ------------------------------------------------------------------ N: node level - what a handler made durable equals what it holds in memory
# The real handlers run with a *real* RaftWal (on the file model) behind `self.wal`; afterwards the file is reopened and
# RaftRecoveryState::from_wal is executed: the recovered (term, vote) must equal the node's in-memory (term, vote) after the
# handler - memory is never ahead of the disk, so whatever the node answered or acted on survives a restart.
ck.declare('N1_memory_never_ahead_of_wal', 'handle_request_vote / start_election / handle_append_entries (term adoption) with a real WAL holding the node\'s prior (term, vote)',
           'after the handler returns, recovery from the log gives exactly the in-memory term and vote (persist-before-apply); on a WAL write failure nothing changed')
ck.bounds['node level'] = 'log 0..1 entries, one prior TermAndVote record, payload image 2 bytes; one handler call'
ex2 = ck.executor('tensor_chain', unroll=40, default_maxlen=2, max_paths=100000)
ex2.generic_subst = {'W': 'FileWriter'}
for kk in ('RaftNode::is_peer_healthy', 'RaftNode::geometric_vote_bias', '<LogEntry as Clone>::clone', 'FastPathState::clear_leader', 'FastPathValidator::reset',
           'FastPathState::add_embedding', 'FastPathValidator::record_validation', 'RaftStats::record_fast_path', 'RaftStats::record_full_validation',
           'RaftStats::record_rejected', 'FastPathValidator::check_fast_path', 'FastPathState::get_embeddings', 'SparseVector::to_dense', '<SparseVector as Clone>::clone',
           'QuorumTracker::record_success', 'QuorumTracker::record_failure', 'QuorumTracker::mark_reachable', 'RaftNode::stop_heartbeat_task'):
    ex2.extra_models[kk] = ex.extra_models[kk]
ex2.extra_models['RaftWal::check_space'] = lambda c: ok(UNIT)
sc2 = WalScenario(ck, ex2, 'RaftWal::open', 'RaftWal::append', 'RaftWal::replay', 'RaftWalEntry')
TV = P.variant_index('RaftWalEntry', 'TermAndVote')
node_runs = 0
for handler in ('request_vote', 'start_election', 'append_entries', 'append_entries_response', 'request_vote_response'):
    for nlog in (0, 1):
        st = ex2.new_state()
        st.env['codec_len'] = 2
        N = Node(st, nlog)
        st.assume(z3.ULT(N.term0.v, U64(1 << 62)))
        st.assume(z3.UGT(N.term0.v, U64(0)))
        # the log file already holds the node's current (term, vote)
        opened = sc2.open(st, 'node wal')
        if len(opened) != 1 or opened[0][1] is None:
            ck.inconclusive.append('node-level: initial open failed')
            continue
        st = opened[0][0]
        N.node = st.roots['node']
        N.ptr = st.roots['nodeptr']
        r0 = Enum('RaftWalEntry', TV, {('TermAndVote', 0): Int(N.term0.v, False),
                                       ('TermAndVote', 1): Enum('std::option::Option<std::string::String>', N.vote0_disc, {('Some', 0): N.vote0_some})}, variant='TermAndVote')
        outs = sc2.append(st, r0, 'prior term/vote record')
        good = [o for o in outs if o[1] is None]
        if len(good) != 1:
            ck.inconclusive.append('node-level: could not write the prior record')
            continue
        st = good[0][0]
        walobj = st.roots['wal'].load(st)
        st.roots['node'].fields[F('RaftNode', 'wal')] = some(Ptr(Cell(val=Struct('Mutex', {'data': Cell(val=walobj)})), 0),
                                                             'std::option::Option<std::sync::Arc<parking_lot::lock_api::Mutex<parking_lot::RawMutex, raft_wal::RaftWal>>>')
        frm = st.fresh('std::string::String', 'from')
        if handler == 'request_vote':
            msg = st.fresh('RequestVote', 'rv')
            call = ('RaftNode::handle_request_vote', [st.roots['nodeptr'], ref(frm), ref(msg)])
        elif handler == 'start_election':
            call = ('RaftNode::start_election', [st.roots['nodeptr']])
        elif handler == 'append_entries_response':
            msg = st.fresh('AppendEntriesResponse', 'aer')
            # only the step-down branch writes the log file: a response of a higher term (the bookkeeping branches are C01's)
            st.assume(z3.UGT(msg.load(F('AppendEntriesResponse', 'term'), 'u64', st).v, N.term0.v))
            call = ('RaftNode::handle_append_entries_response', [st.roots['nodeptr'], ref(frm), ref(msg)])
        elif handler == 'request_vote_response':
            msg = st.fresh('RequestVoteResponse', 'rvr')
            st.assume(z3.UGT(msg.load(F('RequestVoteResponse', 'term'), 'u64', st).v, N.term0.v))
            call = ('RaftNode::handle_request_vote_response', [st.roots['nodeptr'], ref(frm), ref(msg)])
        else:
            msg = st.fresh('AppendEntries', 'ae')
            msg.fields[F('AppendEntries', 'entries')] = Seq('LogEntry', [])
            msg.fields[F('AppendEntries', 'block_embedding')] = none('std::option::Option<tensor_store::SparseVector>')
            call = ('RaftNode::handle_append_entries', [st.roots['nodeptr'], ref(frm), ref(msg)])
        res = sc2.run(st, call[0], call[1])
        ck.note_path_problem(res, f'node-level {handler} log={nlog}')
        for r in res:
            wit = lambda m, r=r, N=N, handler=handler: {'node_level': handler, 'pre': pre_dump(m, N, r.st),
                                                        'msg': {k: mval(m, v.v if isinstance(v, Int) else (v.id if isinstance(v, Str) else v)) for k, v in r.st.symbols.items()
                                                                if k.startswith(('rv.', 'ae.')) and (isinstance(v, (Int, Str)) or z3.is_bool(v))}}
            if r.status == 'panic':
                ck.require(ex2, 'N1_memory_never_ahead_of_wal', r.pc, None, z3.BoolVal(False), wit, lambda m, w: 'node-panic')
                continue
            if r.status != 'return':
                continue
            f = r.st
            t1 = N.term(f)
            v1 = N.vote(f)
            # restart: reopen the file as it is (every append fsyncs) and recover
            s3 = sc2.crash(f, len(sc2.file(f).data))
            for (s4, wp4, e4) in sc2.open(s3, 'node reopen'):
                if wp4 is None:
                    ck.require(ex2, 'N1_memory_never_ahead_of_wal', s4.pc, None, z3.BoolVal(False), lambda m, w=dict(node_level=handler, outcome=e4): w, lambda m, w: 'node-reopen')
                    continue
                rr = sc2.run(s4, 'RaftRecoveryState::from_wal', [s4.roots['wal']])
                ck.note_path_problem(rr, 'from_wal')
                for r5 in rr:
                    if r5.status != 'return' or r5.retval.variant != 'Ok':
                        ck.require(ex2, 'N1_memory_never_ahead_of_wal', r5.pc, None, z3.BoolVal(False), wit, lambda m, w: 'node-recovery-failed')
                        continue
                    rs = r5.retval.fields[('Ok', 0)]
                    ct = rs.load(P.field('RaftRecoveryState', 'current_term'), 'u64', r5.st).v
                    vf = rs.load(P.field('RaftRecoveryState', 'voted_for'), None, r5.st)
                    vfd = vf.disc if not isinstance(vf.disc, int) else z3.BitVecVal(vf.disc, 64)
                    v1d = disc(v1)
                    cs = [ct == t1, vfd == v1d]
                    if not (isinstance(vf.disc, int) and vf.disc == 0) and not (isinstance(v1.disc, int) and v1.disc == 0):
                        cs.append(z3.Implies(v1d == 1, vf.load(('Some', 0), 'std::string::String', r5.st).id == v1.load(('Some', 0), 'std::string::String', r5.st).id))
                    ck.require(ex2, 'N1_memory_never_ahead_of_wal', r5.pc, None, z3.And(cs), wit, lambda m, w: 'memory-ahead-of-wal')
                    node_runs += 1
if node_runs == 0:
    ck.inconclusive.append('vacuous: node-level obligation never instantiated')

# ------------------------------------------------------------------ N2: node level - the recovered log equals the in-memory log
# The WAL file is first filled by the node's own persist_log_entry (real code) with its pre-log; then the real
# handle_append_entries runs against the real RaftWal; the file is reopened and the REAL RaftRecoveryState::from_wal
# rebuilds the log: it must be, entry for entry, the log the node holds in memory - so every entry covered by the
# acknowledgement just sent is there after a restart.
ck.declare('N2_recovered_log_equals_memory', 'pre-log 0..2 entries written through persist_log_entry, one handle_append_entries with 1..2 entries after prev = 0..len, real RaftWal and real from_wal',
           'after the handler returns the log rebuilt by from_wal has the same length as the in-memory log and the same (term, index) at every position')
ck.bounds['node level log'] = 'pre-log 0..2, entries per message 1..2, log_base_index 0, payload image 2 bytes; disk writes do not fail'
n2_runs = 0
n2_conflicts = 0
for nlog in range(0, 3):
    for k in (1, 2):
        for p_off in range(0, nlog + 1):
            st = ex2.new_state()
            st.env['codec_len'] = 2
            st.env['crc_nonzero'] = True
            N = Node(st, nlog)
            st.assume(z3.ULT(N.term0.v, U64(1 << 62)))
            st.assume(z3.UGT(N.term0.v, U64(0)))
            opened = sc2.open(st, 'node wal')
            if len(opened) != 1 or opened[0][1] is None:
                ck.inconclusive.append('N2: initial open failed')
                continue
            st = opened[0][0]
            walobj = st.roots['wal'].load(st)
            st.roots['node'].fields[F('RaftNode', 'wal')] = some(Ptr(Cell(val=Struct('Mutex', {'data': Cell(val=walobj)})), 0),
                                                                 'std::option::Option<std::sync::Arc<parking_lot::lock_api::Mutex<parking_lot::RawMutex, raft_wal::RaftWal>>>')
            okp = True
            for i in range(nlog):
                e = N.persistent(st).load(F('PersistentState', 'log'), None, st).items(st)[i]
                rs = sc2.run(st, 'RaftNode::persist_log_entry', [st.roots['nodeptr'], ref(e)])
                g = [r for r in rs if r.status == 'return' and r.retval.variant == 'Ok']
                if len(g) != 1:
                    ck.inconclusive.append(f'N2: writing pre-log entry {i}: {[(r.status, r.msg) for r in rs][:3]}')
                    okp = False
                    break
                st = g[0].st
            if not okp:
                continue
            N.node = st.roots['node']
            ae = st.fresh('AppendEntries', 'ae')
            ae.fields[F('AppendEntries', 'prev_log_index')] = Int(U64(p_off), False)
            ae.fields[F('AppendEntries', 'block_embedding')] = none('std::option::Option<tensor_store::SparseVector>')
            ae_term = ae.load(F('AppendEntries', 'term'), 'u64', st).v
            ents, eterms = [], []
            for j in range(k):
                e = st.fresh('LogEntry', f'ae.entries[{j}]')
                t = e.load(F('LogEntry', 'term'), 'u64', st)
                e.fields[F('LogEntry', 'index')] = Int(U64(p_off + j + 1), False)
                ents.append(e)
                eterms.append(t.v)
                st.assume(z3.ULE(t.v, ae_term))
            ae.fields[F('AppendEntries', 'entries')] = Seq('LogEntry', ents)
            frm = st.fresh('std::string::String', 'from')
            res = sc2.run(st, 'RaftNode::handle_append_entries', [st.roots['nodeptr'], ref(frm), ref(ae)])
            ck.note_path_problem(res, f'N2 handle_append_entries log={nlog} k={k} prev={p_off}')
            for r in res:
                wit = lambda m, r=r, N=N, eterms=eterms, p_off=p_off, nlog=nlog: {'node_log': True, 'pre_terms': [mval(m, t) for t in N.log0], 'prev': p_off,
                                                                                 'prev_term': mval(m, r.st.symbols['ae.prev_log_term'].v) if 'ae.prev_log_term' in r.st.symbols else 0,
                                                                                 'ae_term': mval(m, ae_term), 'entry_terms': [mval(m, t) for t in eterms], 'node_term': mval(m, N.term0.v)}
                if r.status == 'panic':
                    ck.require(ex2, 'N2_recovered_log_equals_memory', r.pc, None, z3.BoolVal(False), wit, lambda m, w: 'node-panic')
                    continue
                if r.status != 'return':
                    continue
                f = r.st
                mem = N.log(f)
                s3 = sc2.crash(f, len(sc2.file(f).data))
                for (s4, wp4, e4) in sc2.open(s3, 'N2 reopen'):
                    if wp4 is None:
                        ck.require(ex2, 'N2_recovered_log_equals_memory', s4.pc, None, z3.BoolVal(False), wit, lambda m, w: 'node-reopen')
                        continue
                    rr = sc2.run(s4, 'RaftRecoveryState::from_wal', [s4.roots['wal']])
                    ck.note_path_problem(rr, 'N2 from_wal')
                    for r5 in rr:
                        if r5.status != 'return' or r5.retval.variant != 'Ok':
                            if r5.status in ('return', 'panic'):
                                ck.require(ex2, 'N2_recovered_log_equals_memory', r5.pc, None, z3.BoolVal(False), wit, lambda m, w: 'node-recovery-failed')
                            continue
                        rs_ = r5.retval.fields[('Ok', 0)]
                        rec = rs_.load(P.field('RaftRecoveryState', 'recovered_log'), None, r5.st).items(r5.st)
                        tab = r5.st.env.get('codec', [])
                        got = []
                        for img in rec:
                            items = img.items(r5.st)
                            hit = [v for bs, v in tab if len(bs) == len(items) and all(a.v.eq(b.v) for a, b in zip(bs, items))]
                            got.append(hit[0] if hit else None)
                        if len(got) != len(mem) or any(g is None or not isinstance(g, Struct) for g in got):
                            concl = z3.BoolVal(False)
                        else:
                            concl = z3.And([z3.And(g.load(F('LogEntry', 'term'), 'u64', r5.st).v == mt, g.load(F('LogEntry', 'index'), 'u64', r5.st).v == mi)
                                            for g, (mt, mi) in zip(got, mem)] + [z3.BoolVal(True)])
                        ck.require(ex2, 'N2_recovered_log_equals_memory', r5.pc, None, concl, wit, lambda m, w: 'log-not-recovered')
                        n2_runs += 1
if n2_runs == 0:
    ck.inconclusive.append('vacuous: N2 never instantiated')
ck.notes.append(f'N2: {n2_runs} handler paths compared with the log rebuilt by from_wal')

# ------------------------------------------------------------------ N3: what a leader accepts is durable
# propose() and propose_codebook_replace() on a leader with the real WAL: when the call returns Ok(index) the entry is part
# of the leader's log - and must therefore be rebuilt by from_wal after a restart ("every log entry it had accepted as leader").
ck.declare('N3_accepted_as_leader_is_durable', 'propose / propose_codebook_replace on a leader (transfer flag and quorum check arbitrary), pre-log 0..1 entries, real RaftWal and real from_wal',
           'Ok(index) => the log rebuilt by from_wal equals the in-memory log including the new entry; Err => the in-memory log and the file are unchanged')
ex2.extra_models['SparseVector::new'] = lambda c: Struct('SparseVector', {}, lazy=c.st.fresh_name('sv'))
ex2.extra_models['RaftNode::is_transfer_in_progress'] = lambda c: z3.Bool(c.st.fresh_name('transfer'))
ex2.extra_models['RaftNode::is_write_safe'] = lambda c: z3.Bool(c.st.fresh_name('write_safe'))
n3_ok = n3_err = 0
for call in ('propose', 'propose_codebook_replace'):
    for nlog in (0, 1):
        st = ex2.new_state()
        st.env['codec_len'] = 2
        st.env['crc_nonzero'] = True
        N = Node(st, nlog)
        st.assume(z3.ULT(N.term0.v, U64(1 << 62)))
        st.assume(z3.UGT(N.term0.v, U64(0)))
        opened = sc2.open(st, 'node wal')
        if len(opened) != 1 or opened[0][1] is None:
            ck.inconclusive.append('N3: initial open failed')
            continue
        st = opened[0][0]
        walobj = st.roots['wal'].load(st)
        st.roots['node'].fields[F('RaftNode', 'wal')] = some(Ptr(Cell(val=Struct('Mutex', {'data': Cell(val=walobj)})), 0),
                                                             'std::option::Option<std::sync::Arc<parking_lot::lock_api::Mutex<parking_lot::RawMutex, raft_wal::RaftWal>>>')
        okp = True
        for i in range(nlog):
            e = N.persistent(st).load(F('PersistentState', 'log'), None, st).items(st)[i]
            rs = sc2.run(st, 'RaftNode::persist_log_entry', [st.roots['nodeptr'], ref(e)])
            g = [r for r in rs if r.status == 'return' and r.retval.variant == 'Ok']
            if len(g) != 1:
                okp = False
                break
            st = g[0].st
        if not okp:
            ck.inconclusive.append('N3: could not write the pre-log')
            continue
        N.node = st.roots['node']
        len0 = len(sc2.file(st).data)
        arg = Struct('Block', {}, lazy='BLK') if call == 'propose' else Struct('GlobalCodebookSnapshot', {}, lazy='CBS')
        res = sc2.run(st, 'RaftNode::' + call, [st.roots['nodeptr'], arg])
        ck.note_path_problem(res, f'N3 {call} log={nlog}')
        for r in res:
            wit = lambda m, call=call, nlog=nlog, N=N: {'leader_accepts': call, 'pre_terms': [mval(m, t) for t in N.log0], 'node_term': mval(m, N.term0.v)}
            if r.status == 'panic':
                ck.require(ex2, 'N3_accepted_as_leader_is_durable', r.pc, None, z3.BoolVal(False), wit, lambda m, w: 'leader-panic')
                continue
            if r.status != 'return':
                continue
            f = r.st
            mem = N.log(f)
            if r.retval.variant != 'Ok':
                n3_err += 1
                ck.require(ex2, 'N3_accepted_as_leader_is_durable', r.pc, None, z3.BoolVal(len(mem) == nlog and len(sc2.file(f).data) == len0), wit, lambda m, w: 'refused-proposal-left-traces')
                continue
            n3_ok += 1
            s3 = sc2.crash(f, len(sc2.file(f).data))
            for (s4, wp4, e4) in sc2.open(s3, 'N3 reopen'):
                if wp4 is None:
                    ck.require(ex2, 'N3_accepted_as_leader_is_durable', s4.pc, None, z3.BoolVal(False), wit, lambda m, w: 'node-reopen')
                    continue
                rr = sc2.run(s4, 'RaftRecoveryState::from_wal', [s4.roots['wal']])
                ck.note_path_problem(rr, 'N3 from_wal')
                for r5 in rr:
                    if r5.status != 'return' or r5.retval.variant != 'Ok':
                        continue
                    rec = r5.retval.fields[('Ok', 0)].load(P.field('RaftRecoveryState', 'recovered_log'), None, r5.st).items(r5.st)
                    tab = r5.st.env.get('codec', [])
                    got = []
                    for img in rec:
                        items = img.items(r5.st)
                        hit = [v for bs, v in tab if len(bs) == len(items) and all(a.v.eq(b.v) for a, b in zip(bs, items))]
                        got.append(hit[0] if hit else None)
                    if len(got) != len(mem) or len(mem) != nlog + 1 or any(g is None or not isinstance(g, Struct) for g in got):
                        concl = z3.BoolVal(False)
                    else:
                        concl = z3.And([z3.And(g.load(F('LogEntry', 'term'), 'u64', r5.st).v == mt, g.load(F('LogEntry', 'index'), 'u64', r5.st).v == mi) for g, (mt, mi) in zip(got, mem)])
                    ck.require(ex2, 'N3_accepted_as_leader_is_durable', r5.pc, None, concl,
                               lambda m, call=call, nlog=nlog, N=N, got=got, mem=mem: {'leader_accepts': call, 'pre_terms': [mval(m, t) for t in N.log0], 'node_term': mval(m, N.term0.v),
                                                                                      'memory_log_len': len(mem), 'recovered_log_len': len(got)},
                               lambda m, w: 'accepted-entry-not-durable:' + w['leader_accepts'])
if n3_ok == 0 or n3_err == 0:
    ck.inconclusive.append(f'vacuous: N3 accepted on {n3_ok} paths, refused on {n3_err}')

# ------------------------------------------------------------------ N4: an installed snapshot survives a restart
ck.declare('N4_installed_snapshot_is_durable', 'install_snapshot_entries(metadata, entries) on a follower with the real WAL, pre-log 0..1 entries, snapshot of 1..2 entries',
           'Ok => the log rebuilt by from_wal equals the in-memory log (the entries the node now answers for) and the recovered term is the in-memory term')
ex2.extra_models['SnapshotState::cancel_receive'] = lambda c: UNIT
ex2.extra_models['<SnapshotMetadata as Clone>::clone'] = lambda c: c.args[0].load(c.st)       # the copy is only stored
ex2.extra_models['<RaftMembershipConfig as Clone>::clone'] = lambda c: c.args[0].load(c.st)
n4 = 0
for nlog in (0, 1):
    for k in (1, 2):
        st = ex2.new_state()
        st.env['codec_len'] = 2
        st.env['crc_nonzero'] = True
        N = Node(st, nlog)
        st.assume(z3.ULT(N.term0.v, U64(1 << 62)))
        st.assume(z3.UGT(N.term0.v, U64(0)))
        opened = sc2.open(st, 'node wal')
        if len(opened) != 1 or opened[0][1] is None:
            ck.inconclusive.append('N4: initial open failed')
            continue
        st = opened[0][0]
        walobj = st.roots['wal'].load(st)
        st.roots['node'].fields[F('RaftNode', 'wal')] = some(Ptr(Cell(val=Struct('Mutex', {'data': Cell(val=walobj)})), 0),
                                                             'std::option::Option<std::sync::Arc<parking_lot::lock_api::Mutex<parking_lot::RawMutex, raft_wal::RaftWal>>>')
        r0 = Enum('RaftWalEntry', TV, {('TermAndVote', 0): Int(N.term0.v, False),
                                       ('TermAndVote', 1): Enum('std::option::Option<std::string::String>', N.vote0_disc, {('Some', 0): N.vote0_some})}, variant='TermAndVote')
        outs = [o for o in sc2.append(st, r0, 'prior term/vote record') if o[1] is None]
        if len(outs) != 1:
            ck.inconclusive.append('N4: could not write the prior record')
            continue
        st = outs[0][0]
        st.roots['node'].fields[F('RaftNode', 'wal')].fields[('Some', 0)].cont.val.fields['data'].val = st.roots['wal'].load(st)
        okp = True
        for i in range(nlog):
            e = N.persistent(st).load(F('PersistentState', 'log'), None, st).items(st)[i]
            rs = sc2.run(st, 'RaftNode::persist_log_entry', [st.roots['nodeptr'], ref(e)])
            g = [r for r in rs if r.status == 'return' and r.retval.variant == 'Ok']
            if len(g) != 1:
                okp = False
                break
            st = g[0].st
        if not okp:
            ck.inconclusive.append('N4: could not write the pre-log')
            continue
        N.node = st.roots['node']
        ents = []
        for j in range(k):
            e = st.fresh('LogEntry', f'snap.entries[{j}]')
            e.load(F('LogEntry', 'term'), 'u64', st)
            e.fields[F('LogEntry', 'index')] = Int(U64(j + 1), False)
            ents.append(e)
        meta = st.fresh('SnapshotMetadata', 'meta')
        meta.fields[P.field('SnapshotMetadata', 'last_included_index')] = Int(U64(k), False)
        lt = meta.load(P.field('SnapshotMetadata', 'last_included_term'), 'u64', st)
        st.assume(z3.ULT(lt.v, U64(1 << 62)))
        snap_state = N.node.load(F('RaftNode', 'snapshot_state'), 'parking_lot::lock_api::RwLock<parking_lot::RawRwLock, raft::SnapshotState>', st).fields['data'].load(0, None, st)
        snap_state.fields[P.field('SnapshotState', 'last_snapshot')] = none('std::option::Option<raft::SnapshotMetadata>')
        res = sc2.run(st, 'RaftNode::install_snapshot_entries', [st.roots['nodeptr'], meta, Seq('LogEntry', ents)])
        ck.note_path_problem(res, f'N4 install_snapshot_entries log={nlog} k={k}')
        for r in res:
            wit = lambda m, nlog=nlog, k=k: {'snapshot_install': True, 'own': nlog, 'entries': k}
            if r.status == 'panic':
                ck.require(ex2, 'N4_installed_snapshot_is_durable', r.pc, None, z3.BoolVal(False), wit, lambda m, w: 'install-panic')
                continue
            if r.status != 'return' or r.retval.variant != 'Ok':
                continue
            f = r.st
            mem = N.log(f)
            t1 = N.term(f)
            s3 = sc2.crash(f, len(sc2.file(f).data))
            for (s4, wp4, e4) in sc2.open(s3, 'N4 reopen'):
                if wp4 is None:
                    ck.require(ex2, 'N4_installed_snapshot_is_durable', s4.pc, None, z3.BoolVal(False), wit, lambda m, w: 'node-reopen')
                    continue
                rr = sc2.run(s4, 'RaftRecoveryState::from_wal', [s4.roots['wal']])
                ck.note_path_problem(rr, 'N4 from_wal')
                for r5 in rr:
                    if r5.status != 'return' or r5.retval.variant != 'Ok':
                        continue
                    rs_ = r5.retval.fields[('Ok', 0)]
                    rec = rs_.load(P.field('RaftRecoveryState', 'recovered_log'), None, r5.st).items(r5.st)
                    ct = rs_.load(P.field('RaftRecoveryState', 'current_term'), 'u64', r5.st).v
                    tab = r5.st.env.get('codec', [])
                    got = []
                    for img in rec:
                        items = img.items(r5.st)
                        hit = [v for bs, v in tab if len(bs) == len(items) and all(a.v.eq(b.v) for a, b in zip(bs, items))]
                        got.append(hit[0] if hit else None)
                    if len(got) != len(mem) or any(g is None or not isinstance(g, Struct) for g in got):
                        concl = z3.BoolVal(False)
                    else:
                        concl = z3.And([z3.And(g.load(F('LogEntry', 'term'), 'u64', r5.st).v == mt, g.load(F('LogEntry', 'index'), 'u64', r5.st).v == mi) for g, (mt, mi) in zip(got, mem)] + [z3.BoolVal(True)])
                    ck.require(ex2, 'N4_installed_snapshot_is_durable', r5.pc, None, concl, wit, lambda m, w: 'installed-snapshot-not-in-wal')
                    ck.require(ex2, 'N4_installed_snapshot_is_durable', r5.pc, None, ct == t1, wit, lambda m, w: 'installed-snapshot-term-lost')
                    n4 += 1
if n4 == 0:
    ck.inconclusive.append('vacuous: N4 never instantiated')

# ------------------------------------------------------------------ native replay on real files
for v in ck.violations:
    w = v['witness']
    if str(w.get('wal', '')).endswith('-double'):
        v['native'], v['replayed'] = double_crash_replay(w)
        continue
    if w.get('wal') == 'raft':
        rep = Replay.call({'op': 'wal_torn', 'wal': 'raft', 'k': w['k'], 'cut_offset': w['cut_offset'], 'frame_len': w['frame_len']})
        v['native'] = rep
        if v['obligation'] in ('W1_clean_replay', 'W2_torn_record_dropped'):
            v['replayed'] = rep.get('replay1_ok') is False or rep.get('replay1_matches') is False
        else:
            v['replayed'] = rep.get('replay2_ok') is False or rep.get('new_record_recovered') is False or rep.get('replay2_prefix_matches') is False
    elif w.get('snapshot_install'):
        rep = Replay.call({'op': 'raft_snapshot_install_restart', 'entries': w['entries'], 'own': w['own']})
        v['native'] = rep
        v['replayed'] = rep.get('violates')
    elif w.get('leader_accepts'):
        rep = Replay.call({'op': 'raft_leader_accepts', **w})
        v['native'] = rep
        v['replayed'] = rep.get('violates')
    elif w.get('node_log'):
        rep = Replay.call({'op': 'raft_log_restart', **w})
        v['native'] = rep
        v['replayed'] = rep.get('differs')
    elif w.get('node_level'):
        rep = Replay.call({'op': 'raft_node_restart', **w})
        v['native'] = rep
        v['replayed'] = rep.get('violates')
    elif w.get('mirror'):
        rep = Replay.call({'op': 'raft_wal_mirror', **w})
        v['native'] = rep
        v['replayed'] = rep.get('differs')
    elif 'records' in w:
        rep = Replay.call({'op': 'raft_from_entries', 'records': w['records']})
        v['native'] = rep
        last = w['records'][-1]
        v['replayed'] = rep.get('term') != last['term'] or rep.get('vote') != (None if last['vote'] is None else f"n{last['vote']}")

ck.functions += ['RaftNode::handle_append_entries', 'RaftNode::append_leader_entries', 'RaftNode::persist_log_entry(stub: records its argument)', 'RaftWal::open_with_config', 'RaftWal::count_entries', 'RaftWal::append', 'RaftWal::write_entry_bytes',
                 'RaftWal::replay_with_validation', 'RaftRecoveryState::from_entries', '<FileWriter as WalWriter>::write_all']
if __name__ == '__main__':
    ck.finish()
