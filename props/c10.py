"""C10 — Raft node restart never forgets a vote, a term or an acknowledged entry.
RaftWal open/append/replay executed from MIR on the byte-list file model; crash at every byte of the last record."""
import sys
import os
sys.path.insert(0, os.path.dirname(os.path.dirname(os.path.abspath(__file__))))
from props.common import *
from props.walcommon import *

ck = Check('C10')
T = ck.tier
ex = ck.executor('tensor_chain', unroll=40, default_maxlen=2, max_paths=100000)
ex.generic_subst = {'W': 'FileWriter'}
ex.extra_models['RaftWal::check_space'] = lambda c: ok(UNIT)
P = ex.prog
K = 2 if T == 'quick' else 3
LENS = (2,) if T == 'quick' else (1, 2, 3)
ck.bounds = {'records before the crash': f'1..{K}', 'payload bytes per record (codec image length)': list(LENS),
             'crash offsets': 'every byte length from "last record absent" to "last record complete"',
             'records appended after recovery': 1, 'from_entries': 'up to 3 term/vote records'}
ck.assumptions = [
    'torn-write model: after a crash the file holds a prefix of the bytes written since the last completed fsync',
    'crc32fast::hash is an uninterpreted function per length (collision behaviour unconstrained)',
    'bitcode: serialize yields fresh symbolic bytes of the stated length; deserialize returns the value on exactly those bytes and {Err, arbitrary value} on anything else',
    'disk-space pre-check (statvfs) returns Ok; rotation not triggered (default 1 GiB limit)',
    'outside: log rotation, snapshot-triggered truncation, RaftNode::with_wal wiring (node-level chains W5/W6)',
]

sc = WalScenario(ck, ex, 'RaftWal::open', 'RaftWal::append', 'RaftWal::replay', 'RaftWalEntry')
run_wal_obligations(ck, ex, sc, K, LENS, 'raft')

# ------------------------------------------------------------------ W4: recovery classification of term/vote records
ck.declare('W4_recovered_term_vote', 'up to 3 TermAndVote records emitted under the one-vote-per-term rule', 'from_entries returns the last persisted term and the vote cast in it')
EI = P.variant_index('RaftWalEntry', 'TermAndVote')
for n in range(1, 4):
    st = ex.new_state()
    ents, terms, votes = [], [], []
    for i in range(n):
        t = Int(z3.BitVec(f't{i}', 64), False)
        vd = z3.BitVec(f'v{i}.disc', 64)
        st.assume(z3.Or(vd == 0, vd == 1))
        vs = Str(z3.BitVec(f'v{i}.id', 64))
        v = Enum('std::option::Option<std::string::String>', vd, {('Some', 0): vs})
        ents.append(Enum('RaftWalEntry', EI, {('TermAndVote', 0): t, ('TermAndVote', 1): v}, variant='TermAndVote'))
        terms.append(t.v)
        votes.append((vd, vs.id))
    # emission rule (C01 V1/V2): terms never decrease; within a term the vote goes None -> Some(c) at most once
    for i in range(1, n):
        st.assume(z3.UGE(terms[i], terms[i - 1]))
        st.assume(z3.Implies(terms[i] == terms[i - 1], z3.And(votes[i - 1][0] == 0)))
    st.assume(z3.UGT(terms[0], 0))
    res = sc.run(st, 'RaftRecoveryState::from_entries', [ref(Seq('RaftWalEntry', ents))])
    ck.note_path_problem(res, f'from_entries n={n}')
    for r in res:
        wit = lambda m, n=n: {'records': [{'term': mval(m, terms[i]), 'vote': None if mval(m, votes[i][0]) == 0 else mval(m, votes[i][1])} for i in range(n)]}
        if r.status != 'return':
            if r.status == 'panic':
                ck.require(ex, 'W4_recovered_term_vote', r.pc, None, z3.BoolVal(False), wit, lambda m, w: 'from-entries-panic')
            continue
        rs = r.retval
        ct = rs.load(P.field('RaftRecoveryState', 'current_term'), 'u64', r.st).v
        vf = rs.load(P.field('RaftRecoveryState', 'voted_for'), None, r.st)
        vfd = vf.disc if not isinstance(vf.disc, int) else z3.BitVecVal(vf.disc, 64)
        cs = [ct == terms[-1], vfd == votes[-1][0]]
        if not (isinstance(vf.disc, int) and vf.disc == 0):
            cs.append(z3.Implies(votes[-1][0] == 1, vf.load(('Some', 0), 'std::string::String', r.st).id == votes[-1][1]))
        else:
            cs.append(votes[-1][0] == 0)
        ck.require(ex, 'W4_recovered_term_vote', r.pc, None, z3.And(cs), wit, lambda m, w: 'recovery-classification')

# ------------------------------------------------------------------ native replay on real files
for v in ck.violations:
    w = v['witness']
    if w.get('wal') == 'raft':
        rep = Replay.call({'op': 'wal_torn', 'wal': 'raft', 'k': w['k'], 'cut_offset': w['cut_offset'], 'frame_len': w['frame_len']})
        v['native'] = rep
        if v['obligation'] in ('W1_clean_replay', 'W2_torn_record_dropped'):
            v['replayed'] = rep.get('replay1_ok') is False or rep.get('replay1_matches') is False
        else:
            v['replayed'] = rep.get('replay2_ok') is False or rep.get('new_record_recovered') is False or rep.get('replay2_prefix_matches') is False
    elif 'records' in w:
        rep = Replay.call({'op': 'raft_from_entries', 'records': w['records']})
        v['native'] = rep
        last = w['records'][-1]
        v['replayed'] = rep.get('term') != last['term'] or rep.get('vote') != (None if last['vote'] is None else f"n{last['vote']}")

ck.functions += ['RaftWal::open_with_config', 'RaftWal::count_entries', 'RaftWal::append', 'RaftWal::write_entry_bytes',
                 'RaftWal::replay_with_validation', 'RaftRecoveryState::from_entries', '<FileWriter as WalWriter>::write_all']
if __name__ == '__main__':
    ck.finish()
