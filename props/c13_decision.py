from mirsym.models import some as _some, none as _none
ck.declare('X1_logged_decision_survives', 'one prepared transaction (1 participant, Yes vote), commit() and abort() with a real log, crash at every byte written by the call',
           'recovery classifies the transaction as: still Prepared with its vote (decision not yet durable), Committing/Aborting (phase change durable), or finished (TxComplete durable) - '
           'and once TxComplete is on disk it is never in an in-progress class')
ck.bounds['logged decision'] = 'payload image 2 bytes per record; cut at every byte of the records written by commit()/abort()'
F13 = P.field
exd = ck.executor('tensor_chain', unroll=60, default_maxlen=2, max_paths=100000)
exd.extra_models['TxWal::check_space'] = lambda c: ok(UNIT)
exd.extra_models['LockManager::release_by_handle_with_wait_cleanup'] = lambda c: UNIT
exd.extra_models['<PrepareVote as Clone>::clone'] = lambda c: c.args[0].load(c.st)
scd = WalScenario(ck, exd, 'TxWal::open', 'TxWal::append', 'TxWal::replay', 'TxWalEntry')
PVY = P.variant_index('PrepareVote', 'Yes')
decided = 0
for call in ('commit', 'abort'):
    st = exd.new_state()
    st.env['codec_len'] = 2
    txid = z3.BitVec('txid', 64)
    shard = z3.BitVec('shard', 64)
    handle = z3.BitVec('handle', 64)
    opened = scd.open(st, 'tx log')
    if len(opened) != 1 or opened[0][1] is None:
        ck.inconclusive.append('decision: initial open failed')
        continue
    st = opened[0][0]
    recs = [E('TxBegin', Int(txid, False), Seq('usize', [Int(shard, False)])),
            E('PrepareVote', Int(txid, False), Int(shard, False), Enum('PrepareVoteKind', 0, {('Yes', 0): Int(handle, False)}, variant='Yes')),
            E('PhaseChange', Int(txid, False), Enum('TxPhase', PH['Preparing'], {}), Enum('TxPhase', PH['Prepared'], {}))]
    okk = True
    for i, rc in enumerate(recs):
        outs = scd.append(st, rc, f'history record {i}')
        good = [o for o in outs if o[1] is None]
        if len(good) != 1:
            okk = False
            break
        st = good[0][0]
    if not okk:
        ck.inconclusive.append('decision: could not write the history records')
        continue
    len0 = len(scd.file(st).data)
    walobj = st.roots['wal'].load(st)
    vote = Enum('PrepareVote', PVY, {('Yes', 0): Int(handle, False), ('Yes', 1): Struct('DeltaVector', {}, lazy='vd')}, variant='Yes')
    tx = Struct('DistributedTransaction', {
        F13('DistributedTransaction', 'tx_id'): Int(txid, False),
        F13('DistributedTransaction', 'participants'): Seq('usize', [Int(shard, False)]),
        F13('DistributedTransaction', 'phase'): Enum('TxPhase', PH['Prepared'], {}, variant='Prepared'),
        F13('DistributedTransaction', 'votes'): Map('usize', 'PrepareVote', [Int(shard, False)], [vote]),
    }, lazy='TX')
    co = Struct('DistributedTxCoordinator', {
        F13('DistributedTxCoordinator', 'pending'): Struct('RwLock', {'data': Cell(val=Map('u64', 'DistributedTransaction', [Int(txid, False)], [tx]))}),
        F13('DistributedTxCoordinator', 'wal'): _some(Struct('RwLock', {'data': Cell(val=walobj)}), 'std::option::Option<RwLock<TxWal>>'),
    }, lazy='CO')
    st.roots['co'] = co
    args = [ref(co), Int(txid, False)] + ([ref(Str(text='reason'))] if call == 'abort' else [])
    res = scd.run(st, 'DistributedTxCoordinator::' + call, args)
    ck.note_path_problem(res, f'decision {call}')
    for r in res:
        if r.status != 'return' or r.retval.variant != 'Ok':
            if r.status == 'panic':
                ck.require(exd, 'X1_logged_decision_survives', r.pc, None, z3.BoolVal(False), lambda m: {'decision': call, 'outcome': 'panic'}, lambda m, w: 'decision-panic')
            continue
        f = r.st
        data_len = len(scd.file(f).data)
        # record boundaries written by this call: every `sync` note after len0
        ends = sorted({x[2] for x in f.notes if x[0] == 'sync' and x[2] > len0})
        if len(ends) < 2:
            ck.inconclusive.append(f'decision {call}: expected at least PhaseChange and TxComplete records, saw boundaries {ends}')
            continue
        end_phase, end_complete = ends[0], ends[1]
        for cut in range(len0, data_len + 1):
            crashed = scd.crash(f, cut)
            for (s1, wp, e1) in scd.open(crashed, f'decision reopen cut={cut}'):
                wit0 = {'decision': call, 'cut_offset': cut - len0, 'phase_record_end': end_phase - len0, 'complete_record_end': end_complete - len0}
                if wp is None:
                    ck.require(exd, 'X1_logged_decision_survives', s1.pc, None, z3.BoolVal(False), lambda m, w=dict(wit0, outcome=e1): w, lambda m, w: 'decision-reopen')
                    continue
                rr = scd.run(s1, 'TxRecoveryState::from_wal', [s1.roots['wal']])
                ck.note_path_problem(rr, 'from_wal')
                for r5 in rr:
                    if r5.status != 'return' or r5.retval.variant != 'Ok':
                        ck.require(exd, 'X1_logged_decision_survives', r5.pc, None, z3.BoolVal(False), lambda m, w=dict(wit0, outcome='recovery failed'): w, lambda m, w: 'decision-recovery')
                        continue
                    rs = r5.retval.fields[('Ok', 0)]
                    cls = {}
                    for nm in ('prepared_txs', 'committing_txs', 'aborting_txs'):
                        cls[nm] = rs.load(FS(nm), None, r5.st).items(r5.st)
                    n_in = {k: len(v) for k, v in cls.items()}
                    mid = 'committing_txs' if call == 'commit' else 'aborting_txs'
                    if cut >= end_complete:
                        good_ = sum(n_in.values()) == 0
                    elif cut >= end_phase:
                        good_ = n_in[mid] == 1 and sum(n_in.values()) == 1
                    else:
                        good_ = n_in['prepared_txs'] == 1 and sum(n_in.values()) == 1
                    concl = [z3.BoolVal(good_)]
                    if good_ and cut < end_complete:
                        t = (cls['prepared_txs'] or cls[mid])[0]
                        concl.append(t.load(FR('tx_id'), 'u64', r5.st).v == txid)
                        vs = t.load(FR('votes'), None, r5.st).items(r5.st)
                        concl.append(z3.BoolVal(len(vs) == 1))
                        if len(vs) == 1:
                            concl.append(vs[0].load(0, 'usize', r5.st).v == shard)
                    ck.require(exd, 'X1_logged_decision_survives', r5.pc, None, z3.And(concl),
                               lambda m, w=dict(wit0, classes=n_in): w, lambda m, w: 'decision-lost')
                    decided += 1
if decided == 0:
    ck.inconclusive.append('vacuous: logged-decision obligation never instantiated')
# ------------------------------------------------------------------ X2: what record_vote makes durable agrees with what it decides
# The last vote of a two-participant transaction arrives (kind symbolic); the cross-shard conflict test is arbitrary
# (merged_delta / cosine similarity / key overlap free), so an all-Yes transaction ends Prepared or Aborting.  The log is
# real.  After the call the file is reopened and the real from_wal classifies the transaction:
#   in-memory Prepared            => recovered as prepared (the phase record was durable before the state change)
#   in-memory Aborting / refused  => NOT recovered as prepared or committing: a restart cannot make committable what the
#                                    coordinator has decided to abort.
ck.declare('X2_vote_outcome_matches_log', 'record_vote of the second of two participants (Yes/No/Conflict), first vote Yes already logged; conflict test arbitrary; real log, reopen, real from_wal',
           'phase Prepared in memory <=> the transaction is recovered as prepared; after a decision to abort (or a refused/failed call) recovery never returns it as prepared or committing')
PV_ALL = {n: P.variant_index('PrepareVote', n) for n in ('Yes', 'No', 'Conflict')}


def x_merged(c):
    d = z3.BitVec(c.st.fresh_name('merged'), 64)
    c.st.assume(z3.Or(d == 0, d == 1))
    return Enum('Option<DeltaVector>', d, {('Some', 0): Opaque('DeltaVector')})


exd.extra_models.update({
    'DistributedTransaction::merged_delta': x_merged,
    'DeltaVector::cosine_similarity': lambda c: Flt(z3.FP(c.st.fresh_name('cos'), z3.Float32())),
    '<DeltaVector as Clone>::clone': lambda c: c.args[0].load(c.st),
    '<DistributedTransaction as Clone>::clone': lambda c: (lambda t: Struct(t.ty, dict(t.fields), t.lazy))(c.args[0].load(c.st)),
})
x2n = {'Prepared': 0, 'Aborting': 0, 'other': 0}
st = exd.new_state()
st.env['codec_len'] = 2
st.env['crc_nonzero'] = True
txid, s0, s1, h0 = (z3.BitVec(n, 64) for n in ('txid', 'shard0', 'shard1', 'handle0'))
st.assume(s0 != s1)
opened = scd.open(st, 'tx log (X2)')
if len(opened) == 1 and opened[0][1] is not None:
    st = opened[0][0]
    okk = True
    for i, rc in enumerate([E('TxBegin', Int(txid, False), Seq('usize', [Int(s0, False), Int(s1, False)])),
                            E('PrepareVote', Int(txid, False), Int(s0, False), Enum('PrepareVoteKind', 0, {('Yes', 0): Int(h0, False)}, variant='Yes'))]):
        outs = scd.append(st, rc, f'X2 history record {i}')
        good = [o for o in outs if o[1] is None]
        if len(good) != 1:
            okk = False
            break
        st = good[0][0]
    if not okk:
        ck.inconclusive.append('X2: could not write the history records')
    else:
        walobj = st.roots['wal'].load(st)
        vote0 = Enum('PrepareVote', PVY, {('Yes', 0): Int(h0, False), ('Yes', 1): Struct('DeltaVector', {}, lazy='vd0')}, variant='Yes')
        tx = Struct('DistributedTransaction', {
            F13('DistributedTransaction', 'tx_id'): Int(txid, False),
            F13('DistributedTransaction', 'participants'): Seq('usize', [Int(s0, False), Int(s1, False)]),
            F13('DistributedTransaction', 'phase'): Enum('TxPhase', PH['Preparing'], {}, variant='Preparing'),
            F13('DistributedTransaction', 'votes'): Map('usize', 'PrepareVote', [Int(s0, False)], [vote0]),
            F13('DistributedTransaction', 'deltas'): Map('usize', 'DeltaVector', [Int(s0, False)], [Struct('DeltaVector', {}, lazy='d0')]),
        }, lazy='TX')
        co = Struct('DistributedTxCoordinator', {
            F13('DistributedTxCoordinator', 'pending'): Struct('RwLock', {'data': Cell(val=Map('u64', 'DistributedTransaction', [Int(txid, False)], [tx]))}),
            F13('DistributedTxCoordinator', 'pending_aborts'): Struct('RwLock', {'data': Cell(val=Seq('(u64, String, Vec<usize>)', []))}),
            F13('DistributedTxCoordinator', 'wal'): _some(Struct('RwLock', {'data': Cell(val=walobj)}), 'std::option::Option<RwLock<TxWal>>'),
        }, lazy='CO')
        st.roots['co'] = co
        vk = z3.BitVec('vote_kind', 64)
        st.assume(z3.Or([vk == d for d in PV_ALL.values()]))
        vote1 = Enum('PrepareVote', vk, {('Yes', 0): Int(z3.BitVec('handle1', 64), False), ('Yes', 1): Struct('DeltaVector', {}, lazy='vd1'),
                                         ('No', 0): Str(z3.BitVec('reason1', 64)), ('Conflict', 0): Flt(z3.FP('sim1', z3.Float32())), ('Conflict', 1): Int(z3.BitVec('ctx1', 64), False)})
        res = scd.run(st, 'DistributedTxCoordinator::record_vote', [ref(co), Int(txid, False), Int(s1, False), vote1])
        ck.note_path_problem(res, 'X2 record_vote')
        for r in res:
            wit = lambda m, r=r: {'vote_outcome': True, 'vote_kind': mval(m, vk), 'final_phase': None}
            if r.status == 'panic':
                ck.require(exd, 'X2_vote_outcome_matches_log', r.pc, None, z3.BoolVal(False), wit, lambda m, w: 'vote-panic')
                continue
            if r.status != 'return':
                continue
            f = r.st
            pend = f.roots['co'].fields[F13('DistributedTxCoordinator', 'pending')].fields['data'].val
            ph = pend.vals[0].load(F13('DistributedTransaction', 'phase'), None, f)
            phd = ph.disc if not isinstance(ph.disc, int) else z3.BitVecVal(ph.disc, 64)
            s3 = scd.crash(f, len(scd.file(f).data))
            for (s4, wp4, e4) in scd.open(s3, 'X2 reopen'):
                if wp4 is None:
                    ck.require(exd, 'X2_vote_outcome_matches_log', s4.pc, None, z3.BoolVal(False), wit, lambda m, w: 'vote-reopen')
                    continue
                rr = scd.run(s4, 'TxRecoveryState::from_wal', [s4.roots['wal']])
                ck.note_path_problem(rr, 'X2 from_wal')
                for r5 in rr:
                    if r5.status != 'return' or r5.retval.variant != 'Ok':
                        continue
                    rs = r5.retval.fields[('Ok', 0)]
                    n_prep = len(rs.load(FS('prepared_txs'), None, r5.st).items(r5.st))
                    n_comm = len(rs.load(FS('committing_txs'), None, r5.st).items(r5.st))
                    is_prepared = phd == PH['Prepared']
                    concl = z3.And(z3.Implies(is_prepared, z3.BoolVal(n_prep == 1)), z3.Implies(z3.Not(is_prepared), z3.BoolVal(n_prep == 0 and n_comm == 0)))
                    ck.require(exd, 'X2_vote_outcome_matches_log', r5.pc, None, concl,
                               lambda m, r=r, phd=phd, n_prep=n_prep: {'vote_outcome': True, 'vote_kind': mval(m, vk), 'final_phase': mval(m, phd), 'recovered_prepared': n_prep},
                               lambda m, w: 'vote-log-mismatch')
                    for nm in ('Prepared', 'Aborting'):
                        if exd.solver.check(r5.pc, phd == PH[nm]) == z3.sat:
                            x2n[nm] += 1
else:
    ck.inconclusive.append('X2: initial open failed')
if x2n['Prepared'] == 0 or x2n['Aborting'] == 0:
    ck.inconclusive.append(f'vacuous: X2 reached Prepared on {x2n["Prepared"]} paths and Aborting on {x2n["Aborting"]}')
ck.notes.append(f'X2: {x2n}')
# ------------------------------------------------------------------ X3: recover_from_wal rebuilds the pending table the log describes
# A fresh coordinator over a log file (real TxWal) runs the real recover_from_wal (from_wal + restore_tx + orphan release):
#   history H1 = begin, Yes vote, Prepared                      -> pending holds the transaction, phase Prepared, with its vote and
#                                                                   handle; commit() on the recovered coordinator then succeeds
#   history H2 = H1 + Committing + TxComplete(Committed|Aborted) -> pending is empty (a completed transaction is never resurrected)
#                                                                   and its Yes-handle is released as an orphan
#   every byte-cut of the last record of H1                      -> the transaction is not pending (its Prepared record is not whole)
ck.declare('X3_recovered_pending_table', 'recover_from_wal on logs H1 / H2 (ids, shard, handle, outcome symbolic) and on H1 cut at every byte of its last record',
           'Prepared-and-undecided => pending with phase Prepared, the logged vote and handle, and commit() succeeds; completed => not pending, handle released; Prepared record torn => not pending')
exd.extra_models['DeltaVector::zero'] = lambda c: Struct('DeltaVector', {}, lazy=c.st.fresh_name('dz'))
exd.extra_models['consensus::DeltaVector::zero'] = exd.extra_models['DeltaVector::zero']
for nm_ in ('generate_tx_id', 'distributed_tx::generate_tx_id'):
    exd.extra_models[nm_] = lambda c: Int(z3.BitVec(c.st.fresh_name('new_tx_id'), 64), False)      # clock/counter based id: arbitrary
x3 = 0


def x3_coordinator(st):
    walobj = st.roots['wal'].load(st)
    co = Struct('DistributedTxCoordinator', {
        F13('DistributedTxCoordinator', 'pending'): Struct('RwLock', {'data': Cell(val=Map('u64', 'DistributedTransaction', [], []))}),
        F13('DistributedTxCoordinator', 'wal'): _some(Struct('RwLock', {'data': Cell(val=walobj)}), 'std::option::Option<RwLock<TxWal>>'),
    }, lazy='CO')
    st.roots['co'] = co
    return co


for hist in ('H1', 'H2'):
    st = exd.new_state()
    st.env['codec_len'] = 2
    st.env['crc_nonzero'] = True
    txid, shard, handle = (z3.BitVec(n_, 64) for n_ in ('txid', 'shard', 'handle'))
    opened = scd.open(st, 'tx log (X3)')
    if len(opened) != 1 or opened[0][1] is None:
        ck.inconclusive.append('X3: initial open failed')
        continue
    st = opened[0][0]
    recs = [E('TxBegin', Int(txid, False), Seq('usize', [Int(shard, False)])),
            E('PrepareVote', Int(txid, False), Int(shard, False), Enum('PrepareVoteKind', 0, {('Yes', 0): Int(handle, False)}, variant='Yes')),
            E('PhaseChange', Int(txid, False), Enum('TxPhase', PH['Preparing'], {}), Enum('TxPhase', PH['Prepared'], {}))]
    if hist == 'H2':
        recs += [E('PhaseChange', Int(txid, False), Enum('TxPhase', PH['Prepared'], {}), Enum('TxPhase', PH['Committing'], {})),
                 E('TxComplete', Int(txid, False), outcome('x3_outcome', st))]
    lens = [len(scd.file(st).data)]
    okk = True
    for i, rc in enumerate(recs):
        outs = [o for o in scd.append(st, rc, f'X3 history record {i}') if o[1] is None]
        if len(outs) != 1:
            okk = False
            break
        st = outs[0][0]
        lens.append(len(scd.file(st).data))
    if not okk:
        ck.inconclusive.append('X3: could not write the history')
        continue
    cuts = [lens[-1]] if hist == 'H2' else list(range(lens[-2], lens[-1] + 1))
    for cut in cuts:
        whole = cut == lens[-1]
        crashed = scd.crash(st, cut)
        for (s1, wp, e1) in scd.open(crashed, f'X3 reopen {hist} cut={cut - lens[-2]}'):
            wit0 = {'recover': hist, 'cut_offset': cut - lens[-2], 'frame_len': lens[-1] - lens[-2]}
            if wp is None:
                ck.require(exd, 'X3_recovered_pending_table', s1.pc, None, z3.BoolVal(False), lambda m, w=dict(wit0, outcome=e1): w, lambda m, w: 'recover-reopen')
                continue
            co = x3_coordinator(s1)
            ov_rel = lambda c: (c.st.notes.append(('orphan_release', c.args[1].v)), UNIT)[1]
            exd.extra_models['LockManager::release_by_handle_with_wait_cleanup'] = ov_rel
            try:
                rr = scd.run(s1, 'DistributedTxCoordinator::recover_from_wal', [ref(co)])
            finally:
                exd.extra_models['LockManager::release_by_handle_with_wait_cleanup'] = lambda c: UNIT
            ck.note_path_problem(rr, f'X3 recover_from_wal {hist}')
            for r in rr:
                if r.status == 'panic' or (r.status == 'return' and r.retval.variant != 'Ok'):
                    ck.require(exd, 'X3_recovered_pending_table', r.pc, None, z3.BoolVal(False), lambda m, w=dict(wit0, outcome=str(r.status)): w, lambda m, w: 'recover-failed')
                    continue
                if r.status != 'return':
                    continue
                f = r.st
                pend = f.roots['co'].fields[F13('DistributedTxCoordinator', 'pending')].fields['data'].val
                released = [x[1] for x in f.notes if x[0] == 'orphan_release']
                if hist == 'H2':
                    concl = z3.And(z3.BoolVal(len(pend.keys) == 0), z3.Or([h_ == handle for h_ in released] + [z3.BoolVal(False)]))
                    ck.require(exd, 'X3_recovered_pending_table', r.pc, None, concl, lambda m, w=dict(wit0, pending=len(pend.keys), released=len(released)): w, lambda m, w: 'completed-tx-resurrected')
                    x3 += 1
                    continue
                if not whole:
                    ck.require(exd, 'X3_recovered_pending_table', r.pc, None, z3.BoolVal(len(pend.keys) == 0), lambda m, w=dict(wit0, pending=len(pend.keys)): w, lambda m, w: 'unprepared-tx-pending')
                    x3 += 1
                    continue
                cs = [z3.BoolVal(len(pend.keys) == 1)]
                if len(pend.keys) == 1:
                    t = pend.vals[0]
                    ph = t.load(F13('DistributedTransaction', 'phase'), None, f)
                    phd = ph.disc if not isinstance(ph.disc, int) else z3.BitVecVal(ph.disc, 64)
                    votes = t.load(F13('DistributedTransaction', 'votes'), None, f)
                    cs += [pend.keys[0].v == txid, t.load(F13('DistributedTransaction', 'tx_id'), 'u64', f).v == txid, phd == PH['Prepared'], z3.BoolVal(len(votes.keys) == 1)]
                    if len(votes.keys) == 1:
                        v0 = votes.load(0, None, f)
                        cs += [votes.keys[0].v == shard, z3.BoolVal(v0.variant == 'Yes')]
                        if v0.variant == 'Yes':
                            cs.append(v0.fields[('Yes', 0)].v == handle)
                ck.require(exd, 'X3_recovered_pending_table', r.pc, None, z3.And(cs), lambda m, w=dict(wit0, pending=len(pend.keys)): w, lambda m, w: 'prepared-tx-not-restored')
                x3 += 1
                # ... and it can be driven to completion
                rc_ = scd.run(f, 'DistributedTxCoordinator::commit', [ref(f.roots['co']), Int(txid, False)])
                ck.note_path_problem(rc_, 'X3 commit after recovery')
                for r2 in rc_:
                    if r2.status != 'return':
                        continue
                    ck.require(exd, 'X3_recovered_pending_table', r2.pc, None, z3.BoolVal(r2.retval.variant == 'Ok'), lambda m, w=dict(wit0, stage='commit after recovery'): w, lambda m, w: 'recovered-tx-cannot-commit')
if x3 == 0:
    ck.inconclusive.append('vacuous: X3 never instantiated')
ck.functions += ['DistributedTxCoordinator::record_vote', 'DistributedTxCoordinator::commit', 'DistributedTxCoordinator::abort', 'DistributedTxCoordinator::log_wal_entry', 'TxRecoveryState::from_wal', 'DistributedTxCoordinator::recover_from_wal']
