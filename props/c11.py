"""C11 — concurrent store operations, the durability-order clause only: "the order in which concurrent writes become durable is
the order in which they took effect in memory".  SlabRouter::{put_durable, delete_durable} are executed from tensor_store's MIR
with the real TensorWal (file model) behind `self.wal`; decided: the in-memory apply of a durable write happens while the log lock
taken for its append is still held, so no other durable write can be logged and applied in between (which would make the log
order and the apply order of the two writes differ).  Linearizability of the sharded maps themselves is NOT decided."""
import sys
import os
sys.path.insert(0, os.path.dirname(os.path.dirname(os.path.abspath(__file__))))
from props.common import *
from props.walcommon import *
from mirsym.models import some as _some, none as _none, deref

ck = Check('C11')
T = ck.tier
ex = ck.executor('tensor_store', unroll=40, default_maxlen=1, max_paths=50000)
P = ex.prog
KC = {n: P.variant_index('KeyClass', n) for n in P.variants('KeyClass')}
ck.bounds = {'operation': 'one put_durable / delete_durable, key class symbolic (every class), value with or without an embedding, WAL configured',
             'schedules ruled out by the obligation': 'any second durable write logged and applied between this write\'s log append and its in-memory apply'}
ck.assumptions = [
    'SlabRouter::put / delete (the in-memory apply), EntityIndex and classify_key are stubs; the WAL is the real TensorWal on the file model; parking_lot::Mutex as a lock whose guard is released by the MIR\'s own drop',
    'sufficient condition, not the property itself: if every durable write applies under the log lock, log order = apply order for durable writes; non-durable put/delete racing a durable write, and the maps\' own linearizability (single-shard lock per key operation), are NOT decided',
]


def ov_classify(c):
    d = z3.BitVec('keyclass', 64)
    c.st.assume(z3.Or([d == v for v in KC.values()]))
    c.st.env['keyclass'] = d
    return Enum('KeyClass', d, {})


def wal_mutex(st):
    w = st.roots['router'].fields[P.field('SlabRouter', 'wal')]
    return w.fields[('Some', 0)]


def ov_apply(kind):
    def f(c):
        mx = wal_mutex(c.st)
        c.st.notes.append(('apply', kind, bool(getattr(mx, 'held', [])), len(fs(c.st).get('wal', FileObj()).data)))
        return ok(UNIT, 'Result<(), SlabRouterError>')
    return f


def ov_index(kind, ty):
    def f(c):
        c.st.notes.append(('index', kind, bool(getattr(wal_mutex(c.st), 'held', []))))
        return c.st.fresh(ty, c.st.fresh_name('idx' + kind))
    return f


ex.extra_models.update({'SlabRouter::classify_key': ov_classify, 'SlabRouter::put': ov_apply('put'), 'SlabRouter::delete': ov_apply('delete'),
                        'EntityIndex::get_or_create': ov_index('get_or_create', 'EntityId'),
                        'EntityIndex::get': ov_index('get', 'std::option::Option<EntityId>'),
                        '<TensorData as Clone>::clone': lambda c: c.args[0].load(c.st)})


def cfg_for(st):
    sub = st.clone()
    sub.frames = []
    ex.call(sub, '<WalConfig as Default>::default', [])
    return ex.run(sub)[0].retval


scl = WalScenario(ck, ex, 'TensorWal::open', 'TensorWal::append', 'TensorWal::replay', 'WalEntry', open_args=lambda st: [cfg_for(st)])
ck.declare('D3_log_content_decided_under_the_log_lock', 'same',
           'every entity-index lookup that decides which records a durable write logs (EntityIndex::get / get_or_create) happens while the log lock is held: what is logged describes the state the write is applied to')
ck.declare('D4_nothing_logged_after_the_apply', 'same', 'the log file does not grow between the in-memory apply and the return: every record of the write was appended before it took effect')
ck.declare('D1_apply_under_the_log_lock', 'put_durable / delete_durable on every key class',
           'a durable key: the slab is touched exactly once, after the record is in the log, and while the log lock of that append is still held; cache keys are applied without logging')
logged = 0
for op in ('put_durable', 'delete_durable'):
    st = ex.new_state()
    st.env['codec_len'] = 2
    good = [o for o in scl.open(st, 'router wal') if o[1] is not None]
    if len(good) != 1:
        ck.inconclusive.append('wal open failed')
        continue
    st = good[0][0]
    walobj = st.roots['wal'].load(st)
    router = Struct('SlabRouter', {P.field('SlabRouter', 'wal'): _some(Struct('Mutex', {'data': Cell(val=walobj)}), 'Option<Mutex<TensorWal>>')}, lazy='R')
    st.roots['router'] = router
    key = Str(z3.BitVec('key', 64))
    args = [ref(router), ref(key)] + ([st.fresh('TensorData', 'value')] if op == 'put_durable' else [])
    res = scl.run(st, 'SlabRouter::' + op, args)
    ck.note_path_problem(res, op)
    for r in res:
        wit = lambda m, op=op, r=r: {'router_op': op, 'key_class': {v_: k_ for k_, v_ in KC.items()}.get(mval(m, r.st.env['keyclass']), 'Metadata') if 'keyclass' in r.st.env else 'Metadata'}
        if r.status == 'panic':
            ck.require(ex, 'D1_apply_under_the_log_lock', r.pc, None, z3.BoolVal(False), wit, lambda m, w: 'durable-op-panic')
            continue
        if r.status != 'return' or r.retval.variant != 'Ok':
            continue
        apps = [x for x in r.st.notes if x[0] == 'apply']
        is_cache = r.st.env['keyclass'] == KC['Cache']
        if len(apps) != 1:
            ck.require(ex, 'D1_apply_under_the_log_lock', r.pc, None, z3.BoolVal(False), wit, lambda m, w: 'apply-count')
            continue
        _, _, held, flen = apps[0]
        if flen > 0:
            logged += 1
        ck.require(ex, 'D1_apply_under_the_log_lock', r.pc, z3.Not(is_cache), z3.BoolVal(bool(held and flen > 0)), wit, lambda m, w: 'apply-outside-log-lock')
        ck.require(ex, 'D1_apply_under_the_log_lock', r.pc, is_cache, z3.BoolVal(flen == 0), wit, lambda m, w: 'cache-key-logged')
        # D4: the whole log image of the write exists before the apply - nothing is appended afterwards
        final_len = len(scl.file(r.st).data)
        ck.require(ex, 'D4_nothing_logged_after_the_apply', r.pc, z3.Not(is_cache), z3.BoolVal(final_len == flen),
                   lambda m, op=op: {'router_op': op, 'key_class': 'Embedding', 'embedding': True, 'attempts': 40}, lambda m, w: 'record-logged-after-apply')
        idx = [x for x in r.st.notes if x[0] == 'index']
        ck.require(ex, 'D3_log_content_decided_under_the_log_lock', r.pc, z3.Not(is_cache), z3.BoolVal(all(x[2] for x in idx)),
                   lambda m, op=op: {'router_op': op, 'key_class': 'Embedding', 'window': 'before_lock'}, lambda m, w: 'index-read-outside-log-lock')
if logged == 0:
    ck.inconclusive.append('vacuous: no path logged a durable write')

# ------------------------------------------------------------------ D5: replay applies every record to the slab it describes
ck.declare('D5_replay_applies_every_record', 'SlabRouter::apply_wal_entry on each record kind production code logs (MetadataSet with and without a vector, MetadataDelete, EmbeddingSet, EmbeddingDelete, EntityCreate, EntityRemove); slab operations are recording stubs, what they answer is symbolic',
           'MetadataSet: the metadata is set for the key and, when the value carries a vector, that vector is stored for the key\'s entity - unconditionally; each other record performs exactly its one slab operation')
WE = {n: P.variant_index('WalEntry', n) for n in P.variants('WalEntry')}


def slab_rec(kind, ret):
    def f(c):
        c.st.notes.append((kind, tuple(c.args[1:])))
        return ret(c) if callable(ret) else ret
    return f


d5_saved = dict(ex.extra_models)
ex.extra_models.update({
    'MetadataSlab::set': slab_rec('meta_set', UNIT), 'MetadataSlab::delete': slab_rec('meta_delete', lambda c: z3.Bool('meta_deleted')),
    'EntityIndex::get_or_create': slab_rec('index_get_or_create', lambda c: Struct('EntityId', {0: Int(z3.BitVec('entity_of_key', 64), False)})),
    'EntityIndex::remove': slab_rec('index_remove', lambda c: c.st.fresh('std::option::Option<EntityId>', 'idx_removed')),
    'EmbeddingSlab::set': slab_rec('emb_set', lambda c: ok(UNIT, 'Result<(), EmbeddingError>')), 'EmbeddingSlab::delete': slab_rec('emb_delete', lambda c: z3.Bool('emb_deleted')),
    'EmbeddingSlab::contains': lambda c: z3.Bool('emb_contains'), 'EmbeddingSlab::get': lambda c: c.st.fresh('std::option::Option<Vec<f32>>', 'emb_get'),
    'EntityIndex::get': lambda c: c.st.fresh('std::option::Option<EntityId>', 'idx_get'), 'EntityIndex::contains': lambda c: z3.Bool('idx_contains'),
    '<TensorData as Clone>::clone': lambda c: c.args[0].load(c.st),
})
replayed = 0
try:
    for kind in ('MetadataSet', 'MetadataDelete', 'EmbeddingSet', 'EmbeddingDelete', 'EntityCreate', 'EntityRemove'):
        st = ex.new_state()
        rtr = Struct('SlabRouter', {}, lazy='RR')
        ent = st.fresh('WalEntry', 'rec')
        st.assume(ent.disc == z3.BitVecVal(WE[kind], 64) if not isinstance(ent.disc, int) else z3.BoolVal(ent.disc == WE[kind]))
        st.frames = []
        ex.call(st, 'SlabRouter::apply_wal_entry', [ref(rtr), ref(ent)])
        res = ex.run(st)
        ck.note_path_problem(res, f'apply_wal_entry {kind}')
        for r in res:
            wit = lambda m, kind=kind: {'router_op': 'replay', 'key_class': 'Embedding', 'record': kind}
            if r.status == 'panic':
                ck.require(ex, 'D5_replay_applies_every_record', r.pc, None, z3.BoolVal(False), wit, lambda m, w: 'replay-panic')
                continue
            if r.status != 'return':
                continue
            replayed += 1
            ops = [x[0] for x in r.st.notes if x[0] in ('meta_set', 'meta_delete', 'index_get_or_create', 'index_remove', 'emb_set', 'emb_delete')]
            if kind == 'MetadataSet':
                # whether the value carries a vector is decided on the path: the vector lookup found a Vector exactly when an entity was resolved
                has_vec = 'index_get_or_create' in ops or 'emb_set' in ops
                found = [c_ for c_ in r.pc if 'Vector' in str(c_) or '_embedding' in str(c_)]
                good = ops[:1] == ['meta_set'] and (ops[1:] in ([], ['index_get_or_create', 'emb_set']))
                # a path that resolved the entity must also store the vector
                good = good and (('index_get_or_create' in ops) == ('emb_set' in ops))
                ck.require(ex, 'D5_replay_applies_every_record', r.pc, None, z3.BoolVal(bool(good)), wit, lambda m, w: 'replayed-vector-not-stored')
            else:
                want = {'MetadataDelete': ['meta_delete'], 'EmbeddingSet': ['emb_set'], 'EmbeddingDelete': ['emb_delete'], 'EntityCreate': ['index_get_or_create'], 'EntityRemove': ['index_remove']}[kind]
                ck.require(ex, 'D5_replay_applies_every_record', r.pc, None, z3.BoolVal(ops == want), wit, lambda m, w: 'replay-wrong-operation')
finally:
    ex.extra_models.clear()
    ex.extra_models.update(d5_saved)
if replayed == 0:
    ck.inconclusive.append('D5 vacuous: apply_wal_entry never returned')

# ------------------------------------------------------------------ D2: a checkpoint snapshots and truncates under one hold of the log lock
ck.declare('D2_checkpoint_snapshot_under_the_log_lock', 'checkpoint(path) with the WAL configured, log holding 0..1 records',
           'the state is saved while the log lock is held, and that hold lasts until the log has been truncated: no durable write can be logged and applied after the snapshot was taken and then be cut off by the truncation')


def ov_save(c):
    mx = wal_mutex(c.st)
    c.st.notes.append(('save', bool(getattr(mx, 'held', [])), id(mx)))
    return ok(UNIT, 'Result<(), SnapshotFormatError>')


def ov_mutex_lock(c):
    from mirsym.models_std import m_lock_w
    c.st.notes.append(('wal_lock_acquired',))
    return m_lock_w(c)


ex.extra_models['SlabRouter::save_to_file'] = ov_save
ex.extra_models['Mutex::lock'] = ov_mutex_lock
cps = 0
for nrec in (0, 1):
    st = ex.new_state()
    st.env['codec_len'] = 2
    states = [o[0] for o in scl.open(st, 'checkpoint wal') if o[1] is not None]
    for i in range(nrec):
        nxt = []
        for s_ in states:
            nxt += [a[0] for a in scl.append(s_, s_.fresh('WalEntry', f'pre{i}'), 'pre-record') if a[1] is None]
        states = nxt
    for s_ in states:
        walobj = s_.roots['wal'].load(s_)
        router = Struct('SlabRouter', {P.field('SlabRouter', 'wal'): _some(Struct('Mutex', {'data': Cell(val=walobj)}), 'Option<Mutex<TensorWal>>')}, lazy='R')
        s_.roots['router'] = router
        pre_len = len(scl.file(s_).data)
        # record every release of the log lock between the save and the truncation
        res = scl.run(s_, 'SlabRouter::checkpoint', [ref(router), ref(Str(text='snap'))])
        ck.note_path_problem(res, f'checkpoint records={nrec}')
        for r in res:
            wit = lambda m, nrec=nrec: {'router_op': 'checkpoint', 'key_class': 'Metadata', 'records': nrec}
            if r.status != 'return' or r.retval.variant != 'Ok':
                continue
            cps += 1
            saves = [x for x in r.st.notes if x[0] == 'save']
            good = len(saves) == 1 and saves[0][1]
            # one continuous hold: the lock is taken exactly once on the path (a second acquisition would mean it was released in between)
            good = good and len([x for x in r.st.notes if x[0] == 'wal_lock_acquired']) <= 1
            ck.require(ex, 'D2_checkpoint_snapshot_under_the_log_lock', r.pc, None, z3.BoolVal(bool(good)), wit, lambda m, w: 'snapshot-outside-log-lock')
if cps == 0:
    ck.inconclusive.append('D2 vacuous: checkpoint never succeeded')

for v in ck.violations:
    w = v['witness']
    if w['router_op'] == 'replay':
        rep = Replay.call({'op': 'durable_replay_embedding'})
        v['native'] = rep
        v['replayed'] = rep.get('violates')
        continue
    if w.get('window') == 'before_lock':
        # the other thread creates the embedding key just before this write takes the log lock
        rep = Replay.call({'op': 'durable_order', 'router_op': w['router_op'], 'key_class': 'Embedding', 'window': 'before_lock', 'embedding': True, 'fresh_key': True})
    else:
        rep = Replay.call({'op': 'checkpoint_race', 'records': w.get('records', 1)} if w['router_op'] == 'checkpoint' else
                          {'op': 'durable_order', 'router_op': w['router_op'], 'key_class': w['key_class'], 'embedding': w.get('embedding', False), 'attempts': w.get('attempts', 1)})
        if not rep.get('violates') and w.get('embedding') and w['router_op'] == 'put_durable':
            # no schedule point at this window in the code under test.  D4's own statement is observable single-threaded: the hook
            # fires right before the apply, and the log must not grow between that moment and the return
            if v['obligation'].startswith('D4'):
                rep = Replay.call({'op': 'durable_log_growth', 'router_op': w['router_op']})
            if not rep.get('violates'):
                rep = Replay.call({'op': 'durable_stress', 'rounds': 60})
    v['native'] = rep
    v['replayed'] = rep.get('violates')
ck.functions += ['SlabRouter::put_durable', 'SlabRouter::delete_durable', 'TensorWal::append']
if __name__ == '__main__':
    ck.finish()
