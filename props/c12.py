"""C12 — 2PC key locks: one holder at a time, none left behind (sequential lock-table and wait-graph bookkeeping).
LockManager::{try_lock, release, release_by_handle, cleanup_expired, lock_holder} and WaitForGraph::{add_wait,
remove_wait, remove_transaction}, DeadlockDetector::select_victim executed from tensor_chain's MIR."""
import sys
import os
import itertools
sys.path.insert(0, os.path.dirname(os.path.dirname(os.path.abspath(__file__))))
from props.common import *
from mirsym.models import some, none
from mirsym.models_std import now_ms

ck = Check('C12')
T = ck.tier
ex = ck.executor('tensor_chain', unroll=16, default_maxlen=2, max_paths=200000)
P = ex.prog
F = P.field
NL = 2
NT = 2
NV = 1 if T == 'quick' else 2
NK = 2
ck.bounds = {'lock table': f'0..{NL} entries', 'reverse index (tx -> keys)': f'0..{NT} transactions with 0..{NV} keys each', 'requested keys': f'0..{NK}',
             'ids, handles, timestamps, timeouts': '64-bit symbolic; clock readings non-decreasing, < 2^62', 'wait-for graph': '0..2 waiters with 0..2 holders each'}
ck.assumptions = [
    'one operation from an arbitrary table satisfying the representation invariant I: every lock entry (expired or not) is listed under its transaction in the reverse index',
    'next_lock_handle returns a handle different from every handle in the table (the counter is monotonic)',
    'K11: two lock entries with the same handle belong to the same transaction (a handle is issued by one try_lock call)',
    'now_epoch_millis / SystemTime::now: fresh non-decreasing readings (each is_expired call may see a later clock)',
    'HashMap iteration: insertion order (quick) / all orders (thorough)',
    'NOT decided: thread interleavings (the "schedules" half), detect_cycles = "cycle exists" (would be graph enumeration), release_orphaned_locks, serialize/restore',
]
if T == 'thorough':
    ex.all_orders = True
U64 = lambda v: z3.BitVecVal(v, 64)


def ov_next_handle(c):
    h = Int(z3.BitVec(c.st.fresh_name('new_handle'), 64), False)
    for ex_h in c.st.env.get('known_handles', []):
        c.st.assume(h.v != ex_h)
    c.st.env['new_handle'] = h.v
    return h


def ov_now(c):
    return Int(now_ms(c.st), False)


ex.extra_models.update({'next_lock_handle': ov_next_handle, 'distributed_tx::next_lock_handle': ov_next_handle,
                        'now_epoch_millis': ov_now, 'distributed_tx::now_epoch_millis': ov_now})


def static_atomic(root, sym):
    # the process-wide counters: created on first use with a symbolic value unless a scenario set them (K13)
    def h(st):
        if root not in st.roots:
            st.roots[root] = Struct('AtomicU64', {'data': Cell(val=Int(z3.BitVec(sym, 64), False))})
        return ref(st.roots[root])
    return h


ex.extra_models['static LOCK_COUNTER'] = static_atomic('LOCK_COUNTER', 'lock_counter')
ex.extra_models['static LOCK_HIGH_WATER_WARNINGS'] = static_atomic('LOCK_WARN', 'warnings')


class Table:
    def __init__(self, st, nl, tvecs):
        """nl lock entries; tvecs = list of vec lengths, one per transaction in the reverse index"""
        self.st = st
        self.keys = [Str(z3.BitVec(f'k{i}', 64)) for i in range(nl)]
        self.tx = [z3.BitVec(f'ltx{i}', 64) for i in range(nl)]
        self.h = [z3.BitVec(f'lh{i}', 64) for i in range(nl)]
        self.acq = [z3.BitVec(f'lacq{i}', 64) for i in range(nl)]
        self.tmo = [z3.BitVec(f'ltmo{i}', 64) for i in range(nl)]
        for i in range(nl):
            st.assume(z3.ULT(self.acq[i], U64(1 << 62)))
            for j in range(i + 1, nl):
                st.assume(self.keys[i].id != self.keys[j].id)
        vals = []
        for i in range(nl):
            vals.append(Struct('KeyLock', {F('KeyLock', 'key'): self.keys[i], F('KeyLock', 'tx_id'): Int(self.tx[i], False), F('KeyLock', 'lock_handle'): Int(self.h[i], False),
                                           F('KeyLock', 'acquired_at_ms'): Int(self.acq[i], False), F('KeyLock', 'timeout_ms'): Int(self.tmo[i], False)}))
        self.locks = Map('std::string::String', 'KeyLock', list(self.keys), vals)
        self.ttx = [z3.BitVec(f'ttx{j}', 64) for j in range(len(tvecs))]
        for a, b in itertools.combinations(self.ttx, 2):
            st.assume(a != b)
        self.tvec = [[Str(z3.BitVec(f'tk{j}_{m}', 64)) for m in range(n)] for j, n in enumerate(tvecs)]
        self.txlocks = Map('u64', 'std::vec::Vec<std::string::String>', [Int(t, False) for t in self.ttx], [Seq('std::string::String', list(v)) for v in self.tvec])
        lm = Struct('LockManager', {F('LockManager', 'locks'): Struct('RwLock', {'data': Cell(val=self.locks)}),
                                    F('LockManager', 'tx_locks'): Struct('RwLock', {'data': Cell(val=self.txlocks)})}, lazy='LM')
        st.roots['lm'] = lm
        st.env['known_handles'] = list(self.h)
        # representation invariant I
        for i in range(nl):
            alts = []
            for j in range(len(tvecs)):
                for s in self.tvec[j]:
                    alts.append(z3.And(self.ttx[j] == self.tx[i], s.id == self.keys[i].id))
            st.assume(z3.Or(alts) if alts else z3.BoolVal(False))

    def dump(self, m):
        return {'locks': [{'key': mval(m, k.id), 'tx': mval(m, t), 'handle': mval(m, h), 'acquired': mval(m, a), 'timeout': mval(m, o)}
                          for k, t, h, a, o in zip(self.keys, self.tx, self.h, self.acq, self.tmo)],
                'tx_locks': [{'tx': mval(m, t), 'keys': [mval(m, s.id) for s in v]} for t, v in zip(self.ttx, self.tvec)]}


def post_tables(st):
    lm = st.roots['lm']
    locks = lm.fields[F('LockManager', 'locks')].fields['data'].val
    txl = lm.fields[F('LockManager', 'tx_locks')].fields['data'].val
    L = []
    for i, k in enumerate(locks.keys):
        v = locks.load(i, None, st)
        L.append((k.id, v.load(F('KeyLock', 'tx_id'), 'u64', st).v, v.load(F('KeyLock', 'lock_handle'), 'u64', st).v,
                  v.load(F('KeyLock', 'acquired_at_ms'), 'u64', st).v, v.load(F('KeyLock', 'timeout_ms'), 'u64', st).v))
    Tm = []
    for j, k in enumerate(txl.keys):
        Tm.append((k.v, [s.id for s in txl.load(j, None, st).items(st)]))
    return L, Tm


def invariant(L, Tm):
    cs = []
    for (k, t, h, a, o) in L:
        alts = [z3.And(tt == t, sid == k) for tt, ks in Tm for sid in ks]
        cs.append(z3.Or(alts) if alts else z3.BoolVal(False))
    return z3.And(cs) if cs else z3.BoolVal(True)


def lookup(L, kid):
    """(present, tx, handle) of key kid in lock list L as z3 terms"""
    present = z3.BoolVal(False)
    tx = U64(0)
    h = U64(0)
    for (k, t, hh, a, o) in L:
        present = z3.Or(present, k == kid)
        tx = z3.If(k == kid, t, tx)
        h = z3.If(k == kid, hh, h)
    return present, tx, h


def expired_at_some(st, acq, tmo):
    rs = st.env.get('clock_readings', [])
    # the instant age == timeout may count either way (the property does not fix the boundary): expired means age >= timeout here,
    # unexpired means age <= timeout below
    return z3.Or([z3.UGE(z3.If(z3.UGE(r, acq), r - acq, U64(0)), tmo) for r in rs]) if rs else z3.BoolVal(False)


def unexpired_at_some(st, acq, tmo):
    rs = st.env.get('clock_readings', [])
    return z3.Or([z3.ULE(z3.If(z3.UGE(r, acq), r - acq, U64(0)), tmo) for r in rs]) if rs else z3.BoolVal(False)


def run(st, fname, args):
    st.frames = []
    ex.call(st, fname, args)
    return ex.run(st)


def shapes():
    for nl in range(NL + 1):
        for nt in range(NT + 1):
            for tv in itertools.product(range(NV + 1), repeat=nt):
                if nl > 0 and sum(tv) == 0:
                    continue        # invariant I unsatisfiable
                yield nl, list(tv)


ck.declare('K1_conflict_refused_nothing_acquired', 'try_lock', 'Err(h) => some requested key is held by an unexpired lock of another transaction h, and both tables are unchanged')
ck.declare('K2_grant_all_or_nothing', 'try_lock', 'Ok(handle) => every requested key is owned by the requester under the new handle, every other entry is unchanged, and no requested key was held by an unexpired lock of another transaction')
ck.declare('K3_release_leaves_nothing', 'release / release_by_handle / cleanup_expired', 'after release(tx) no entry of tx remains in either table; after release_by_handle(h) no lock with handle h remains; cleanup removes only expired locks; other entries untouched')
ck.declare('K4_invariant_preserved', 'every operation', 'the representation invariant I holds again afterwards')
ck.declare('K11_released_tx_leaves_graph', 'release_by_handle_with_wait_cleanup / cleanup_expired_with_wait_cleanup (WaitForGraph::remove_transaction recorded)',
           'exactly the locks of the handle / the expired locks are removed, every transaction that lost a lock is removed from the wait-for graph, and no other transaction is')
ck.declare('K6_holder_reports_truth', 'lock_holder', 'Some(t) => the key has an unexpired entry of transaction t; None => no unexpired entry')
granted = conflicts = 0
for nl, tv in shapes():
    # ---------------- try_lock and try_lock_with_wait_tracking (graph calls recorded)
    for entry, nk in itertools.product(('try_lock', 'try_lock_with_wait_tracking'), range(NK + 1)):
        st = ex.new_state()
        tb = Table(st, nl, tv)
        tx = Int(z3.BitVec('req_tx', 64), False)
        rk = [Str(z3.BitVec(f'rk{i}', 64)) for i in range(nk)]
        tracked = entry.endswith('tracking')
        if tracked:
            args = [ref(st.roots['lm']), tx, ref(Seq('std::string::String', list(rk))), ref(Struct('WaitForGraph', {}, lazy='WG')), none('Option<u32>')]
            ex.extra_models['WaitForGraph::remove_transaction'] = lambda c: (c.st.notes.append(('graph_remove', c.args[1].v)), UNIT)[1]
            ex.extra_models['WaitForGraph::add_wait'] = lambda c: (c.st.notes.append(('graph_wait', c.args[1].v, c.args[2].v)), UNIT)[1]
        else:
            args = [ref(st.roots['lm']), tx, ref(Seq('std::string::String', list(rk)))]
        try:
            res = run(st, 'LockManager::' + entry, args)
        finally:
            ex.extra_models.pop('WaitForGraph::remove_transaction', None)
            ex.extra_models.pop('WaitForGraph::add_wait', None)
        ck.note_path_problem(res, f'{entry} locks={nl} tx_locks={tv} keys={nk}')
        for r in res:
            wit = lambda m, tb=tb, rk=rk, entry=entry: {'op': entry, 'tx': mval(m, tx.v), 'keys': [mval(m, k.id) for k in rk], 'table': tb.dump(m),
                                                         'clock': [mval(m, c) for c in r.st.env.get('clock_readings', [])]}
            if r.status == 'panic':
                ck.require(ex, 'K2_grant_all_or_nothing', r.pc, None, z3.BoolVal(False), wit, lambda m, w: 'try-lock-panic')
                continue
            if r.status != 'return':
                continue
            L, Tm = post_tables(r.st)
            unchanged = z3.And([z3.BoolVal(len(L) == nl and len(Tm) == len(tv))] +
                               [z3.And(a[0] == k.id, a[1] == t, a[2] == h) for a, k, t, h in zip(L, tb.keys, tb.tx, tb.h)] +
                               [z3.And([z3.BoolVal(len(ks) == len(v))] + [x == s.id for x, s in zip(ks, v)]) for (tt, ks), v in zip(Tm, tb.tvec)])
            waits = [(x[1], x[2]) for x in r.st.notes if x[0] == 'graph_wait']
            forgets = [x[1] for x in r.st.notes if x[0] == 'graph_remove']
            if r.retval.variant == 'Err':
                conflicts += 1
                e0 = r.retval.fields[('Err', 0)]
                holder = e0.v if isinstance(e0, Int) else e0.load(P.field('WaitInfo', 'blocking_tx_id'), 'u64', r.st).v
                live_foreign = lambda i: z3.And(tb.tx[i] != tx.v, unexpired_at_some(r.st, tb.acq[i], tb.tmo[i]), z3.Or([tb.keys[i].id == k.id for k in rk]) if rk else z3.BoolVal(False))
                just = z3.Or([z3.And(live_foreign(i), tb.tx[i] == holder) for i in range(nl)]) if nl and nk else z3.BoolVal(False)
                cs = [just, unchanged]
                if tracked:
                    # every recorded wait is (requester -> a live foreign holder of a requested key) and the reported blocker is among them
                    cs.append(z3.BoolVal(len(waits) >= 1 and not forgets))
                    for (w_, h_) in waits:
                        cs.append(z3.And(w_ == tx.v, z3.Or([z3.And(live_foreign(i), tb.tx[i] == h_) for i in range(nl)] + [z3.BoolVal(False)])))
                    cs.append(z3.Or([h_ == holder for (_, h_) in waits] + [z3.BoolVal(False)]))
                    # ... and no live foreign holder of a requested key is left out
                    for i in range(nl):
                        cs.append(z3.Implies(z3.And(live_foreign(i), z3.Not(expired_at_some(r.st, tb.acq[i], tb.tmo[i]))), z3.Or([h_ == tb.tx[i] for (_, h_) in waits] + [z3.BoolVal(False)])))
                ck.require(ex, 'K1_conflict_refused_nothing_acquired', r.pc, None, z3.And(cs), wit, lambda m, w: 'conflict')
            else:
                granted += 1
                handle = r.retval.fields[('Ok', 0)].v
                cs = []
                for k in rk:
                    pres, t, h = lookup(L, k.id)
                    cs.append(z3.And(pres, t == tx.v, h == handle))
                for i in range(nl):
                    requested = z3.Or([tb.keys[i].id == k.id for k in rk]) if rk else z3.BoolVal(False)
                    pres, t, h = lookup(L, tb.keys[i].id)
                    cs.append(z3.Implies(z3.Not(requested), z3.And(pres, t == tb.tx[i], h == tb.h[i])))
                    cs.append(z3.Implies(z3.And(requested, tb.tx[i] != tx.v), expired_at_some(r.st, tb.acq[i], tb.tmo[i])))
                if tracked:
                    # the requester stops waiting (it is removed from the graph), nobody else is touched
                    cs.append(z3.BoolVal(not waits))
                    cs.append(z3.And([g == tx.v for g in forgets] + [z3.BoolVal(len(forgets) == 1)]))
                ck.require(ex, 'K2_grant_all_or_nothing', r.pc, None, z3.And(cs) if cs else z3.BoolVal(True), wit, lambda m, w: 'grant')
            ck.require(ex, 'K4_invariant_preserved', r.pc, None, invariant(L, Tm), wit, lambda m, w: 'invariant-try-lock')
    # ---------------- release(tx)
    st = ex.new_state()
    tb = Table(st, nl, tv)
    tx = Int(z3.BitVec('rel_tx', 64), False)
    res = run(st, 'LockManager::release', [ref(st.roots['lm']), tx])
    ck.note_path_problem(res, f'release locks={nl} tx_locks={tv}')
    for r in res:
        wit = lambda m, tb=tb: {'op': 'release', 'tx': mval(m, tx.v), 'table': tb.dump(m)}
        if r.status != 'return':
            if r.status == 'panic':
                ck.require(ex, 'K3_release_leaves_nothing', r.pc, None, z3.BoolVal(False), wit, lambda m, w: 'release-panic')
            continue
        L, Tm = post_tables(r.st)
        cs = [t != tx.v for (k, t, h, a, o) in L] + [tt != tx.v for tt, ks in Tm]
        for i in range(nl):
            pres, t, h = lookup(L, tb.keys[i].id)
            cs.append(z3.Implies(tb.tx[i] != tx.v, z3.And(pres, t == tb.tx[i], h == tb.h[i])))
        ck.require(ex, 'K3_release_leaves_nothing', r.pc, None, z3.And(cs) if cs else z3.BoolVal(True), wit, lambda m, w: 'release')
        ck.require(ex, 'K4_invariant_preserved', r.pc, None, invariant(L, Tm), wit, lambda m, w: 'invariant-release')
    # ---------------- release_by_handle(h)
    st = ex.new_state()
    tb = Table(st, nl, tv)
    hh = Int(z3.BitVec('rel_h', 64), False)
    res = run(st, 'LockManager::release_by_handle', [ref(st.roots['lm']), hh])
    ck.note_path_problem(res, f'release_by_handle locks={nl} tx_locks={tv}')
    for r in res:
        wit = lambda m, tb=tb: {'op': 'release_by_handle', 'handle': mval(m, hh.v), 'table': tb.dump(m)}
        if r.status != 'return':
            if r.status == 'panic':
                ck.require(ex, 'K3_release_leaves_nothing', r.pc, None, z3.BoolVal(False), wit, lambda m, w: 'release-handle-panic')
            continue
        L, Tm = post_tables(r.st)
        cs = [h != hh.v for (k, t, h, a, o) in L]
        for i in range(nl):
            pres, t, h = lookup(L, tb.keys[i].id)
            cs.append(z3.Implies(tb.h[i] != hh.v, z3.And(pres, t == tb.tx[i], h == tb.h[i])))
        ck.require(ex, 'K3_release_leaves_nothing', r.pc, None, z3.And(cs) if cs else z3.BoolVal(True), wit, lambda m, w: 'release-handle')
        ck.require(ex, 'K4_invariant_preserved', r.pc, None, invariant(L, Tm), wit, lambda m, w: 'invariant-release-handle')
    # ---------------- cleanup_expired
    st = ex.new_state()
    tb = Table(st, nl, tv)
    res = run(st, 'LockManager::cleanup_expired', [ref(st.roots['lm'])])
    ck.note_path_problem(res, f'cleanup_expired locks={nl} tx_locks={tv}')
    for r in res:
        wit = lambda m, tb=tb: {'op': 'cleanup_expired', 'table': tb.dump(m), 'clock': [mval(m, c) for c in r.st.env.get('clock_readings', [])]}
        if r.status != 'return':
            if r.status == 'panic':
                ck.require(ex, 'K3_release_leaves_nothing', r.pc, None, z3.BoolVal(False), wit, lambda m, w: 'cleanup-panic')
            continue
        L, Tm = post_tables(r.st)
        cs = []
        for i in range(nl):
            pres, t, h = lookup(L, tb.keys[i].id)
            cs.append(z3.Implies(z3.Not(pres), expired_at_some(r.st, tb.acq[i], tb.tmo[i])))
            cs.append(z3.Implies(pres, z3.And(t == tb.tx[i], h == tb.h[i], unexpired_at_some(r.st, tb.acq[i], tb.tmo[i]))))
        cs.append(r.retval.v == U64(nl - len(L)))
        ck.require(ex, 'K3_release_leaves_nothing', r.pc, None, z3.And(cs), wit, lambda m, w: 'cleanup')
        ck.require(ex, 'K4_invariant_preserved', r.pc, None, invariant(L, Tm), wit, lambda m, w: 'invariant-cleanup')
    # ---------------- lock_holder
    st = ex.new_state()
    tb = Table(st, nl, tv)
    qk = Str(z3.BitVec('qk', 64))
    res = run(st, 'LockManager::lock_holder', [ref(st.roots['lm']), ref(qk)])
    ck.note_path_problem(res, f'lock_holder locks={nl}')
    for r in res:
        wit = lambda m, tb=tb: {'op': 'lock_holder', 'key': mval(m, qk.id), 'table': tb.dump(m)}
        if r.status != 'return':
            continue
        rv = r.retval
        if isinstance(rv.disc, int) and rv.disc == 1:
            t = rv.fields[('Some', 0)].v
            ck.require(ex, 'K6_holder_reports_truth', r.pc, None,
                       z3.Or([z3.And(tb.keys[i].id == qk.id, tb.tx[i] == t, unexpired_at_some(r.st, tb.acq[i], tb.tmo[i])) for i in range(nl)]) if nl else z3.BoolVal(False),
                       wit, lambda m, w: 'holder')
        else:
            ck.require(ex, 'K6_holder_reports_truth', r.pc, None,
                       z3.And([z3.Implies(tb.keys[i].id == qk.id, expired_at_some(r.st, tb.acq[i], tb.tmo[i])) for i in range(nl)]) if nl else z3.BoolVal(True),
                       wit, lambda m, w: 'holder-none')
if granted == 0 or conflicts == 0:
    ck.inconclusive.append(f'vacuous: try_lock granted on {granted} paths, refused on {conflicts}')
ck.notes.append(f'try_lock: granted on {granted} paths, refused on {conflicts} paths')

# the reverse index may list keys a transaction no longer owns (taken over after expiry), and one transaction may own two
# locks of different age: shapes with two listed keys also in quick
K11_SHAPES = list(shapes()) + [s_ for s_ in [(1, [2]), (2, [2]), (2, [2, 1])] if s_ not in [(a_, b_) for a_, b_ in shapes()]]
# ---------------- serialize / restore
ck.declare('K12_serialize_restore_identity', 'from_serializable(to_serializable(lm)) over every table shape (incl. one owner of two locks)', 'every lock that is not past its TTL comes back unchanged (key, owner, handle, times), nothing is invented, and every restored lock is listed under its owner (invariant I)')
for nl, tv in K11_SHAPES:
    st = ex.new_state()
    tb = Table(st, nl, tv)
    dflt = st.roots['lm'].load(F('LockManager', 'default_timeout'), 'std::time::Duration', st)
    rs = run(st, 'LockManager::to_serializable', [ref(st.roots['lm'])])
    ck.note_path_problem(rs, f'to_serializable locks={nl} tx_locks={tv}')
    for r in rs:
        if r.status != 'return':
            continue
        rs2 = run(r.st, 'LockManager::from_serializable', [r.retval])
        ck.note_path_problem(rs2, f'from_serializable locks={nl} tx_locks={tv}')
        for r2 in rs2:
            wit = lambda m, tb=tb, r2=r2: {'op': 'serialize_restore', 'table': tb.dump(m), 'clock': [mval(m, c_) for c_ in r2.st.env.get('clock_readings', [])]}
            if r2.status != 'return':
                continue
            r2.st.roots['lm'] = r2.retval
            L, Tm = post_tables(r2.st)
            # a restore may shed locks that are already past their TTL; everything else comes back as it was
            cs = [z3.BoolVal(len(L) <= nl)]
            for i in range(nl):
                same = z3.Or([z3.And(k == tb.keys[i].id, t == tb.tx[i], h == tb.h[i], a == tb.acq[i], o == tb.tmo[i]) for (k, t, h, a, o) in L] + [z3.BoolVal(False)])
                absent = z3.And([k != tb.keys[i].id for (k, t, h, a, o) in L] + [z3.BoolVal(True)])
                cs.append(z3.Or(same, z3.And(absent, expired_at_some(r2.st, tb.acq[i], tb.tmo[i]))))
            for (k, t, h, a, o) in L:
                cs.append(z3.Or([z3.And(k == tb.keys[i].id, t == tb.tx[i], h == tb.h[i]) for i in range(nl)] + [z3.BoolVal(False)]))
            for tt, ks in Tm:
                # the reverse index invents nothing
                cs.append(z3.Or([z3.And(tt == tb.ttx[j], *[z3.Or([x == s_.id for s_ in tb.tvec[j]] + [z3.BoolVal(False)]) for x in ks]) for j in range(len(tv))] + [z3.BoolVal(False)]))
            cs.append(invariant(L, Tm))
            ck.require(ex, 'K12_serialize_restore_identity', r2.pc, None, z3.And(cs), wit, lambda m, w: 'serialize-restore')

# ---------------- K13: handles stay unique (the assumption behind K2/K3/K11), also across a restart
# next_lock_handle is executed from its MIR against the process-wide counter LOCK_COUNTER (a static; its initial value is read
# from the static's initialiser in the dump).  J: every handle in the table is below the counter.
ck.declare('K13_issued_handle_is_fresh', 'next_lock_handle with the counter at any value < 2^62', 'returns the counter value and advances the counter by one: under J (every handle in the table is below the counter) the new handle differs from every handle in the table, and J holds again')
ck.declare('K13_restored_table_keeps_handles_unique', 'a table serialised by one process and restored by from_serializable in a freshly started process (LOCK_COUNTER at its initial value), then try_lock of a new transaction on a free key',
           'the handle issued to the new transaction differs from the handle of every restored lock (otherwise release_by_handle of one transaction releases the other\'s locks)')
_ov = {k: ex.extra_models.pop(k) for k in ('next_lock_handle', 'distributed_tx::next_lock_handle')}


def counter_roots(st, value):
    st.roots['LOCK_COUNTER'] = Struct('AtomicU64', {'data': Cell(val=Int(value, False))})
    st.roots['LOCK_WARN'] = Struct('AtomicU64', {'data': Cell(val=Int(z3.BitVec('warnings', 64), False))})


try:
    st = ex.new_state()
    c0 = z3.BitVec('counter0', 64)
    st.assume(z3.ULT(c0, U64(1 << 62)))
    counter_roots(st, c0)
    res = run(st, 'next_lock_handle', [])
    ck.note_path_problem(res, 'next_lock_handle')
    n13 = 0
    for r in res:
        if r.status == 'panic':
            ck.require(ex, 'K13_issued_handle_is_fresh', r.pc, None, z3.BoolVal(False), lambda m: {'op': 'next_lock_handle', 'counter': mval(m, c0)}, lambda m, w: 'handle-panic')
            continue
        if r.status != 'return':
            continue
        n13 += 1
        c1 = r.st.roots['LOCK_COUNTER'].fields['data'].load(0, None, r.st).v
        ck.require(ex, 'K13_issued_handle_is_fresh', r.pc, None, z3.And(r.retval.v == c0, c1 == c0 + 1), lambda m: {'op': 'next_lock_handle', 'counter': mval(m, c0)}, lambda m, w: 'handle-not-counter')
    if n13 == 0:
        ck.inconclusive.append('K13: next_lock_handle never returned')
    INIT = P.static_init.get('LOCK_COUNTER')
    if INIT is None:
        ck.inconclusive.append('K13: initial value of LOCK_COUNTER not found in the dump')
    else:
        for nl, tv in [(1, [1]), (2, [1, 1])]:
            st = ex.new_state()
            tb = Table(st, nl, tv)
            counter_roots(st, z3.BitVec('old_counter', 64))
            for h in tb.h:      # J in the process that issued them; handles start at the initial counter value
                st.assume(z3.And(z3.ULT(h, z3.BitVec('old_counter', 64)), z3.UGE(h, U64(INIT))))
            for r in run(st, 'LockManager::to_serializable', [ref(st.roots['lm'])]):
                if r.status != 'return':
                    ck.note_path_problem([r], 'K13 to_serializable')
                    continue
                counter_roots(r.st, U64(INIT))          # restart: statics are re-initialised
                for r2 in run(r.st, 'LockManager::from_serializable', [r.retval]):
                    if r2.status != 'return':
                        ck.note_path_problem([r2], 'K13 from_serializable')
                        continue
                    r2.st.roots['lm'] = r2.retval
                    tx = Int(z3.BitVec('req_tx', 64), False)
                    rk = Str(z3.BitVec('rk0', 64))
                    r2.st.assume(z3.And([tx.v != t for t in tb.tx] + [rk.id != k.id for k in tb.keys]))
                    res3 = run(r2.st, 'LockManager::try_lock', [ref(r2.st.roots['lm']), tx, ref(Seq('std::string::String', [rk]))])
                    ck.note_path_problem(res3, 'K13 try_lock after restore')
                    for r3 in res3:
                        if r3.status != 'return' or r3.retval.variant != 'Ok':
                            continue
                        L, Tm = post_tables(r3.st)
                        nh = r3.retval.fields[('Ok', 0)].v
                        # restored locks still in the table keep a handle different from the new one
                        cs = [z3.Implies(k != rk.id, h != nh) for (k, t, h, a, o) in L]
                        wit = lambda m, tb=tb, r3=r3: {'op': 'restore_then_lock', 'table': tb.dump(m), 'clock': [mval(m, c_) for c_ in r3.st.env.get('clock_readings', [])]}
                        ck.require(ex, 'K13_restored_table_keeps_handles_unique', r3.pc, None, z3.And(cs) if cs else z3.BoolVal(True), wit, lambda m, w: 'handle-reused-after-restart',
                                   prefer=z3.And([h == U64(INIT + i) for i, h in enumerate(tb.h)]))
finally:
    ex.extra_models.update(_ov)

for nl, tv in K11_SHAPES:
    # ---------------- the wait-graph flavours: whoever loses its locks here also leaves the wait-for graph
    for call in ('release_by_handle_with_wait_cleanup', 'cleanup_expired_with_wait_cleanup'):
        st = ex.new_state()
        tb = Table(st, nl, tv)
        hh = Int(z3.BitVec('rel_h', 64), False)
        graph = Struct('WaitForGraph', {}, lazy='WG')
        # a handle is issued by one try_lock call, i.e. to one transaction
        for i, j in itertools.combinations(range(nl), 2):
            st.assume(z3.Implies(tb.h[i] == tb.h[j], tb.tx[i] == tb.tx[j]))
        args = [ref(st.roots['lm'])] + ([hh] if call.startswith('release') else []) + [ref(graph)]
        # the graph itself is decided by K7-K10; here its remove_transaction only records who it was told to forget
        ex.extra_models['WaitForGraph::remove_transaction'] = lambda c: (c.st.notes.append(('graph_remove', c.args[1].v)), UNIT)[1]
        try:
            res = run(st, 'LockManager::' + call, args)
        finally:
            del ex.extra_models['WaitForGraph::remove_transaction']
        ck.note_path_problem(res, f'{call} locks={nl} tx_locks={tv}')
        for r in res:
            wit = lambda m, tb=tb, call=call, r=r: {'op': call, 'handle': mval(m, hh.v), 'table': tb.dump(m), 'clock': [mval(m, c) for c in r.st.env.get('clock_readings', [])]}
            if r.status != 'return':
                if r.status == 'panic':
                    ck.require(ex, 'K11_released_tx_leaves_graph', r.pc, None, z3.BoolVal(False), wit, lambda m, w: 'wait-cleanup-panic')
                continue
            L, Tm = post_tables(r.st)
            removed_from_graph = [x[1] for x in r.st.notes if x[0] == 'graph_remove']
            cs = []
            for i in range(nl):
                pres, t, h = lookup(L, tb.keys[i].id)
                gone = z3.Not(pres)
                told = z3.Or([g == tb.tx[i] for g in removed_from_graph]) if removed_from_graph else z3.BoolVal(False)
                if call.startswith('release'):
                    cs.append(gone == (tb.h[i] == hh.v))
                else:
                    cs.append(z3.Implies(gone, expired_at_some(r.st, tb.acq[i], tb.tmo[i])))
                    cs.append(z3.Implies(pres, unexpired_at_some(r.st, tb.acq[i], tb.tmo[i])))
                cs.append(z3.Implies(gone, told))
                cs.append(z3.Implies(pres, z3.And(t == tb.tx[i], h == tb.h[i])))
            # nobody else is thrown out of the graph
            for g in removed_from_graph:
                cs.append(z3.Or([z3.And(g == tb.tx[i], z3.Not(lookup(L, tb.keys[i].id)[0])) for i in range(nl)] + [z3.BoolVal(False)]))
            ck.require(ex, 'K11_released_tx_leaves_graph', r.pc, None, z3.And(cs) if cs else z3.BoolVal(True), wit, lambda m, w: 'wait-cleanup')
            ck.require(ex, 'K4_invariant_preserved', r.pc, None, invariant(L, Tm), wit, lambda m, w: 'invariant-wait-cleanup')

exec(open(os.path.join(os.path.dirname(os.path.abspath(__file__)), 'c12_graph.py')).read())

# ------------------------------------------------------------------ native replay (tables built through from_serializable)
def _expired(l, clock):
    rs = clock or [0]
    return all(max(r - l['acquired'], 0) > l['timeout'] for r in rs)


def _concrete_violation(w, rep):
    """re-evaluate the obligations on the real before/after tables"""
    if 'after' not in rep:
        return bool(rep.get('panic'))
    kn = lambda x: f'k{x}'
    before = {l['key']: l for l in rep['before']['locks']}
    after = {l['key']: l for l in rep['after']['locks']}
    txl = {t['tx']: t['keys'] for t in rep['after']['tx_locks']}
    bad = False
    for k, l in after.items():                       # invariant I
        if k not in txl.get(l['tx'], []):
            bad = True
    op = w['op']
    if op == 'release':
        bad = bad or any(l['tx'] == w['tx'] for l in after.values()) or w['tx'] in txl
        bad = bad or any(k not in after or after[k] != l for k, l in before.items() if l['tx'] != w['tx'])
    elif op == 'release_by_handle':
        bad = bad or any(l['handle'] == w['handle'] for l in after.values())
        bad = bad or any(k not in after or after[k] != l for k, l in before.items() if l['handle'] != w['handle'])
    elif op == 'cleanup_expired':
        exp = {kn(l['key']) for l in w['table']['locks'] if l.get('expired')}
        bad = bad or set(after) != set(before) - exp
    elif op in ('try_lock', 'try_lock_with_wait_tracking'):
        keys = [kn(k) for k in w['keys']]
        live_other = {kn(l['key']): l['tx'] for l in w['table']['locks'] if not l.get('expired') and l['tx'] != w['tx']}
        res = rep['result']
        if 'ok' in res:
            bad = bad or any(k in live_other for k in keys) or any(after.get(k, {}).get('tx') != w['tx'] or after[k]['handle'] != res['ok'] for k in keys)
            bad = bad or any(k not in after or after[k] != l for k, l in before.items() if k not in keys)
        else:
            bad = bad or not any(live_other.get(k) == res.get('err') for k in keys) or rep['after'] != rep['before']
        if op.endswith('tracking'):
            outside = (1 << 64) - 2
            if 'ok' in res:
                bad = bad or res.get('waits') != []
            else:
                bad = bad or sorted(set(res.get('waits', [])) - {outside}) != sorted({live_other[k] for k in keys if k in live_other})
    elif op == 'lock_holder':
        live = {kn(l['key']): l['tx'] for l in w['table']['locks'] if not l.get('expired')}
        bad = bad or rep['result'].get('holder') != live.get(kn(w['key']))
    elif op == 'serialize_restore':
        exp = {kn(l['key']) for l in w['table']['locks'] if l.get('expired')}
        bad = bad or any(k not in after for k in before if k not in exp) or any(k not in before or after[k] != before[k] for k in after)
    elif op in ('release_by_handle_with_wait_cleanup', 'cleanup_expired_with_wait_cleanup'):
        if op.startswith('release'):
            lost = {l['tx'] for l in before.values() if l['handle'] == w['handle']}
            bad = bad or any(l['handle'] == w['handle'] for l in after.values())
        else:
            exp = {kn(l['key']) for l in w['table']['locks'] if l.get('expired')}
            lost = {l['tx'] for k, l in before.items() if k in exp}
            bad = bad or set(after) != set(before) - exp
        in_graph = set(rep['result'].get('still_in_graph', []))
        everyone = {l['tx'] for l in before.values()}
        # whoever lost a lock is out of the wait-for graph, everybody else is still in it
        bad = bad or bool(lost & in_graph) or bool((everyone - lost) - in_graph)
    return bad


for v in ck.violations:
    w = v['witness']
    if w.get('op') == 'restore_then_lock':
        # two child processes of the driver: the first takes the locks and serialises, the second (fresh counter) restores and locks
        rep = Replay.call({'op': 'lock_handle_restart', 'locks': len(w['table']['locks']), 'expired': [bool(_expired(l, w.get('clock'))) for l in w['table']['locks']]})
        v['native'] = rep
        v['replayed'] = rep.get('violates')
    elif w.get('op') == 'next_lock_handle':
        v['native'], v['replayed'] = None, None
    elif 'table' in w:
        for l in w['table']['locks']:
            l['expired'] = _expired(l, w.get('clock'))
        rep = Replay.call({**w, 'op': 'lock_manager_step', 'lockop': w['op']})
        v['native'] = rep
        v['replayed'] = _concrete_violation(w, rep)
    else:
        extra = {}
        if w.get('graph_op') == 'detect_cycles':
            extra['expect'] = has_cycle([tuple(e) for e in w['edges']], GN)
        elif w.get('graph_op') == 'would_create_cycle':
            R_ = reach([tuple(e) for e in w['edges']], GN)
            ix = {n: i for i, n in enumerate(w['nodes'])}
            extra['expect'] = w['w'] == w['h'] or (w['h'] in ix and w['w'] in ix and R_[ix[w['h']]][ix[w['w']]])
        rep = Replay.call({'op': 'wait_graph_step', **w, **extra})
        v['native'] = rep
        v['replayed'] = rep.get('violates')
ck.functions += ['LockManager::try_lock', 'LockManager::release', 'LockManager::release_by_handle', 'LockManager::cleanup_expired', 'LockManager::lock_holder', 'KeyLock::is_expired']
if __name__ == '__main__':
    ck.finish()
