# native replay of counterexamples on the real build, through RaftNode::with_state + handle_message
for v in ck.violations:
    w = v['witness']
    if w.get('handler') == 'append_entries':
        rep = Replay.call({'op': 'raft_append_entries', 'pre': w['pre'], 'ae': w['ae']})
        v['native'] = rep
        if rep.get('panic') or 'after' not in rep:
            v['replayed'] = bool(rep.get('panic')) and v['key'] == 'ae-panic'
            continue
        resp = rep.get('response') or {}
        upto = rep['sent_upto']
        if v['obligation'] == 'A1_ack_bound':
            v['replayed'] = bool(resp.get('success')) and resp.get('match_index', 0) > upto
        elif v['obligation'] == 'A1_commit_bound':
            c0, c1 = rep['before']['commit_index'], rep['after']['commit_index']
            v['replayed'] = c1 < c0 or (c1 != c0 and (c1 > w['ae']['leader_commit'] or c1 > upto))
        elif v['obligation'] == 'A2_reject_is_noop':
            v['replayed'] = (not resp.get('success')) and (rep['after']['log_length'] != rep['before']['log_length'] or rep['after']['commit_index'] != rep['before']['commit_index'])
        elif v['obligation'] == 'A1_log_matches':
            prev = w['ae']['prev_log_index']
            et = w['ae']['entry_terms']
            log1 = rep['after'].get('log', [])
            log0 = rep['before'].get('log', [])
            bad = False
            if resp.get('success'):
                bad = log1[:prev] != log0[:prev]
                for j, t in enumerate(et):
                    pos = prev + j
                    if pos >= len(log1) or log1[pos] != [t, pos + 1]:
                        bad = True
            v['replayed'] = bad
        else:
            v['replayed'] = None
    elif w.get('handler') == 'request_vote':
        rep = Replay.call({'op': 'raft_vote_compacted' if w['pre'].get('base') else 'raft_request_vote', 'pre': w['pre'], 'rv': w['rv']})
        v['native'] = rep
        resp = rep.get('response') or {}
        if v['obligation'] == 'V2_one_vote_per_term':
            v['replayed'] = bool(resp.get('vote_granted')) and bool(rep.get('second_candidate_granted'))
        elif v['obligation'] == 'V3_up_to_date':
            b = rep.get('before', {})
            v['replayed'] = bool(resp.get('vote_granted')) and (w['rv']['last_log_term'], rep.get('candidate_last_log_index', w['rv']['last_log_index'])) < (b.get('last_log_term', 0), b.get('last_log_index', 0))
        elif v['obligation'] == 'V1_term_monotone':
            v['replayed'] = rep.get('after', {}).get('term', 0) < rep.get('before', {}).get('term', 0)
        else:
            v['replayed'] = None
    elif w.get('handler') == 'append_entries_response' and v['obligation'] == 'L3_stale_response_ignored':
        rep = Replay.call({'op': 'raft_leader_response', 'pre': w['pre'], 'peers': w['peers'], 'aer': w['aer']})
        v['native'] = rep
        if 'after' in rep:
            v['replayed'] = (rep['after']['commit_index'] != rep['before']['commit_index'] or
                             rep['replication_after'] != rep['replication_before'])
    elif v['obligation'] in ('L1_commit_rule', 'L1_commit_rule_via_response'):
        peers = w.get('peers') or [f'p{i}' for i in range(len(w['match_index']))]
        rep = Replay.call({'op': 'raft_leader_commit', 'pre': w['pre'], 'peers': peers, 'match_index': w['match_index'], 'aer': w.get('aer')})
        v['native'] = rep
        bad = False
        term = w['pre']['term']
        lt = w['pre']['log_terms']
        prev = 0
        for stp in rep.get('steps', []):
            c = stp['commit_index']
            if c < prev:
                bad = True
            if c > prev:
                have = 1 + sum(1 for r_ in stp['replication'] if r_ is not None and r_[1] >= c)
                need = (len(peers) + 1) // 2 + 1
                if c > len(lt) or lt[c - 1] != term or have < need:
                    bad = True
            prev = c
        v['replayed'] = bad
    elif v['obligation'] == 'E2_leader_state_reinitialised':
        rep = Replay.call({'op': 'raft_become_leader_twice', 'pre': w['pre'], 'peers': [f'p{i}' for i in range(w['peers'])], 'old_match': w.get('old_match', [])})
        v['native'] = rep
        v['replayed'] = rep.get('violates')
    elif v['obligation'] == 'T0_vote_stable_within_term':
        rep = Replay.call({'op': 'raft_vote_stability', 'pre': w['pre'], 'handler': w['handler'], 'msg': w['msg'], 'peers': ['p1', 'p2']})
        v['native'] = rep
        v['replayed'] = rep.get('violates')
