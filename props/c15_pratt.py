# C15, second half: the real Pratt loops (ExprParser::parse_expr_bp and Parser::parse_expr_bp) on a symbolic token stream.
# exec()'d from c15.py.
from mirsym.models import model as _model
import itertools

F = P.field
OPTOK = {}     # TokenKind variant index -> name, for the operator tokens


def _next_token(c):
    """Lexer::next_token: pop the next token of the symbolic stream (Eof afterwards)"""
    toks = c.st.env['tokens']
    pos = c.st.env.get('tokpos', 0)
    c.st.env['tokpos'] = pos + 1
    if pos < len(toks):
        return toks[pos]
    return mk_token(c.st, Enum('token::TokenKind', P.variant_index('TokenKind', 'Eof'), {}, variant='Eof'), 1000 + pos)


def _discriminant(c):
    e = c.args[0].load(c.st) if isinstance(c.args[0], Ptr) else c.args[0]
    d = e.disc if not isinstance(e.disc, int) else z3.BitVecVal(e.disc, 64)
    return Struct('Discriminant', {0: Int(d, True)})


def _disc_eq(c):
    a = c.args[0].load(c.st) if isinstance(c.args[0], Ptr) else c.args[0]
    b = c.args[1].load(c.st) if isinstance(c.args[1], Ptr) else c.args[1]
    r = a.fields[0].v == b.fields[0].v
    return z3.simplify(z3.Not(r) if c.canon.endswith('ne') else r)


ex.extra_models.update({
    'Lexer::next_token': _next_token,
    'std::mem::discriminant': _discriminant, 'mem::discriminant': _discriminant, 'discriminant': _discriminant,
    '<Discriminant as PartialEq>::eq': _disc_eq, '<Discriminant as PartialEq>::ne': _disc_eq,
})


def mk_span(i):
    return Struct('span::Span', {F('Span', 'start'): Struct('BytePos', {0: Int(z3.BitVecVal(2 * i, 32), False)}),
                                 F('Span', 'end'): Struct('BytePos', {0: Int(z3.BitVecVal(2 * i + 1, 32), False)})})


def mk_token(st, kind, i):
    return Struct('token::Token', {F('Token', 'kind'): kind, F('Token', 'span'): mk_span(i)})


def int_token(st, n, i):
    k = Enum('token::TokenKind', P.variant_index('TokenKind', 'Integer'), {('Integer', 0): Int(z3.BitVecVal(n, 64), True)}, variant='Integer')
    return mk_token(st, k, i)


# which token kinds are binary operators, and to which operator they map: read from the real current_binary_op
def binop_map(owner, parser_struct):
    st = ex.new_state()
    kind = st.fresh('token::TokenKind', 'tk')
    p = Struct(parser_struct, {}, lazy='P')
    p.fields[F(parser_struct, 'current')] = mk_token(st, kind, 0)
    res = run(st, f'{owner}::current_binary_op', [ref(p)])
    ck.note_path_problem(res, f'{owner}::current_binary_op')
    out = {}
    for r in res:
        if r.status != 'return' or not (isinstance(r.retval.disc, int) and r.retval.disc == 1):
            continue
        op = r.retval.fields[('Some', 0)]
        rr, m = ex.solver.model(r.pc)
        out[mval(m, kind.disc, True)] = op.variant or op.disc
    return out


ck.declare('G0_token_map_injective', 'all token kinds', 'each of the operators is produced by exactly one token kind, and the two parsers agree')
ck.declare('G1_grouping', 'a OP1 b OP2 c, all operator pairs; both Pratt loops', 'the parse is (a OP1 b) OP2 c when level(OP1) >= level(OP2) and a OP1 (b OP2 c) otherwise; operands and operators keep their order')
if T == 'thorough':
    ck.declare('G2_grouping3', 'a OP1 b OP2 c OP3 d, all operator triples; both Pratt loops', 'in-order traversal preserved and every node binds at least as tightly as its parent on the left spine, strictly tighter on the right')
maps = {'ExprParser': binop_map('ExprParser', 'ExprParser'), 'Parser': binop_map('Parser', 'Parser')}
for who, mp in maps.items():
    ops_hit = sorted(str(v) for v in mp.values())
    ck.require(ex, 'G0_token_map_injective', [], None, z3.BoolVal(len(mp) == len(OPS) and ops_hit == sorted(OPS) and mp == maps['ExprParser']),
               lambda m, who=who, mp=mp: {'parser': who, 'map': {str(k): str(v) for k, v in mp.items()}}, lambda m, w: 'token-map')
OPTOK = maps['ExprParser']
EXPRK = {n: P.variant_index('ExprKind', n) for n in ('Binary', 'Literal')}


def tree(e, st):
    """Expr -> nested (op_variant, left, right) | int literal"""
    k = e.load(F('Expr', 'kind'), None, st)
    if k.variant == 'Binary':
        l = k.fields[('Binary', 0)].load(st)
        op = k.fields[('Binary', 1)]
        r = k.fields[('Binary', 2)].load(st)
        return (op.variant, tree(l, st), tree(r, st))
    if k.variant == 'Literal':
        lit = k.fields[('Literal', 0)]
        v = z3.simplify(lit.fields[('Integer', 0)].v)
        return v.as_long()
    return ('?', str(k))


def inorder(t):
    if isinstance(t, int):
        return [t]
    return inorder(t[1]) + [t[0]] + inorder(t[2])


def well_grouped(t):
    """precedence-correct tree: on the left child an operator of lower level is not allowed,
    on the right child the operator must be of strictly higher level (left associativity)"""
    if isinstance(t, int):
        return True
    op, l, r = t
    okk = True
    if not isinstance(l, int):
        okk = okk and level_of[l[0]] >= level_of[op]
    if not isinstance(r, int):
        okk = okk and level_of[r[0]] > level_of[op]
    return okk and well_grouped(l) and well_grouped(r)


def pratt(owner, parser_struct, nops, oblig, first=None):
    st = ex.new_state()
    kinds = []
    toks = []
    for i in range(nops + 1):
        toks.append(int_token(st, i, 2 * i))
        if i < nops:
            k = st.fresh('token::TokenKind', f'op{i}')
            st.assume(z3.Or([k.disc == z3.BitVecVal(d, 64) for d in OPTOK]))
            kinds.append(k)
            toks.append(mk_token(st, k, 2 * i + 1))
    if first is not None:
        st.assume(kinds[0].disc == z3.BitVecVal(first, 64))       # one worker per first operator; together they cover OPTOK
    st.env['tokens'] = toks[1:]
    st.env['tokpos'] = 0
    p = Struct(parser_struct, {}, lazy='P')
    p.fields[F(parser_struct, 'current')] = toks[0]
    p.fields[F(parser_struct, 'peeked')] = none('Option<Token>')
    if parser_struct == 'ExprParser':
        p.fields[F(parser_struct, 'depth')] = Int(z3.BitVecVal(0, 64), False)
    res = run(st, f'{owner}::parse_expr_bp', [ref(p), Int(z3.BitVecVal(0, 8), False)])
    ck.note_path_problem(res, f'{owner}::parse_expr_bp with {nops} operators')
    n_ok = 0
    for r in res:
        rr, m = ex.solver.model(r.pc)
        if m is None:
            continue
        opnames = [OPTOK[mval(m, k.disc, True)] for k in kinds]
        wit = lambda mm, opnames=opnames, owner=owner: {'parser': owner, 'ops': opnames}
        if r.status != 'return' or r.retval.variant != 'Ok':
            ck.require(ex, oblig, r.pc, None, z3.BoolVal(False), lambda mm, w=dict(wit(None), outcome=r.status + ' ' + str(r.msg or getattr(r.retval, 'variant', ''))): w, lambda mm, w: 'parse-failed')
            continue
        t = tree(r.retval.fields[('Ok', 0)], r.st)
        expect_seq = []
        for i in range(nops + 1):
            expect_seq.append(i)
            if i < nops:
                expect_seq.append(opnames[i])
        good = inorder(t) == expect_seq and well_grouped(t)
        # the path pins every operator (current_binary_op switched on it): the verdict holds for all models of the path
        pinned = all(ex.solver.check(r.pc, k.disc != z3.BitVecVal(mval(m, k.disc, True), 64)) == z3.unsat for k in kinds)
        if not pinned:
            ck.inconclusive.append(f'{owner}: a path leaves an operator token unconstrained')
        ck.require(ex, oblig, r.pc, None, z3.BoolVal(good), lambda mm, w=dict(wit(None), tree=str(t)): w, lambda mm, w: 'grouping')
        n_ok += 1
        if n_ok == 1:
            ck.sample({'obligation': oblig, 'tokens': expect_seq, 'tree': str(t)})
    if first is None:
        ck.notes.append(f'{owner}::parse_expr_bp, {nops} operators: {len(res)} paths')
    return len(res)


var2sym_prefix = {'Minus': '-', 'Not': 'NOT', 'Tilde': '~'}
ck.declare('G3_prefix_binds_tighter', 'PREFIX a OP b for the three prefix operators and every infix operator; both Pratt loops', 'parses as (PREFIX a) OP b')


def pratt_prefix(owner, parser_struct):
    for pre in var2sym_prefix:
        st = ex.new_state()
        k = st.fresh('token::TokenKind', 'op0')
        allowed = [d for d in OPTOK]
        st.assume(z3.Or([k.disc == z3.BitVecVal(d, 64) for d in allowed]))
        ptok = mk_token(st, Enum('token::TokenKind', P.variant_index('TokenKind', pre), {}, variant=pre), 0)
        toks = [ptok, int_token(st, 0, 1), mk_token(st, k, 2), int_token(st, 1, 3)]
        st.env['tokens'] = toks[1:]
        st.env['tokpos'] = 0
        p = Struct(parser_struct, {}, lazy='P')
        p.fields[F(parser_struct, 'current')] = toks[0]
        p.fields[F(parser_struct, 'peeked')] = none('Option<Token>')
        if parser_struct == 'ExprParser':
            p.fields[F(parser_struct, 'depth')] = Int(z3.BitVecVal(0, 64), False)
        res = run(st, f'{owner}::parse_expr_bp', [ref(p), Int(z3.BitVecVal(0, 8), False)])
        ck.note_path_problem(res, f'{owner}::parse_expr_bp prefix {pre}')
        for r in res:
            rr, m = ex.solver.model(r.pc)
            if m is None:
                continue
            opn = OPTOK[mval(m, k.disc, True)]
            w0 = {'parser': owner, 'prefix': pre, 'ops': [opn]}
            if r.status != 'return' or r.retval.variant != 'Ok':
                ck.require(ex, 'G3_prefix_binds_tighter', r.pc, None, z3.BoolVal(False), lambda mm, w=dict(w0, outcome=str(r.status) + ' ' + str(r.msg)): w, lambda mm, w: 'prefix-parse-failed')
                continue
            e = r.retval.fields[('Ok', 0)]
            kk = e.load(F('Expr', 'kind'), None, r.st)
            good = False
            if kk.variant == 'Binary':
                l = kk.fields[('Binary', 0)].load(r.st).load(F('Expr', 'kind'), None, r.st)
                rgt = kk.fields[('Binary', 2)].load(r.st).load(F('Expr', 'kind'), None, r.st)
                good = l.variant == 'Unary' and rgt.variant == 'Literal' and kk.fields[('Binary', 1)].variant == opn
            ck.require(ex, 'G3_prefix_binds_tighter', r.pc, None, z3.BoolVal(good), lambda mm, w=dict(w0, top=str(kk.variant)): w, lambda mm, w: 'prefix-grouping')


# the documented meaning of the prefix symbols (ast.rs doc comments on UnaryOp: NOT, `-`, `~`)
PREFIX_OP = {'Minus': 'Neg', 'Not': 'Not', 'Bang': 'Not', 'Tilde': 'BitNot'}
ck.declare('G4_prefix_chain_nests_in_order', 'P1 P2 a for every ordered pair of prefix tokens (-, NOT, !, ~); both Pratt loops',
           'parses as P1 (P2 a): the operator written first is the outermost, each token maps to its documented unary operator')


def pratt_prefix_chain(owner, parser_struct):
    for p1 in PREFIX_OP:
        for p2 in PREFIX_OP:
            st = ex.new_state()
            t1 = mk_token(st, Enum('token::TokenKind', P.variant_index('TokenKind', p1), {}, variant=p1), 0)
            t2 = mk_token(st, Enum('token::TokenKind', P.variant_index('TokenKind', p2), {}, variant=p2), 1)
            toks = [t1, t2, int_token(st, 0, 2)]
            st.env['tokens'] = toks[1:]
            st.env['tokpos'] = 0
            p = Struct(parser_struct, {}, lazy='P')
            p.fields[F(parser_struct, 'current')] = toks[0]
            p.fields[F(parser_struct, 'peeked')] = none('Option<Token>')
            if parser_struct == 'ExprParser':
                p.fields[F(parser_struct, 'depth')] = Int(z3.BitVecVal(0, 64), False)
            res = run(st, f'{owner}::parse_expr_bp', [ref(p), Int(z3.BitVecVal(0, 8), False)])
            ck.note_path_problem(res, f'{owner}::parse_expr_bp prefixes {p1} {p2}')
            for r in res:
                w0 = {'parser': owner, 'prefixes': [p1, p2]}
                if r.status not in ('return', 'panic'):
                    continue
                if r.status != 'return' or r.retval.variant != 'Ok':
                    ck.require(ex, 'G4_prefix_chain_nests_in_order', r.pc, None, z3.BoolVal(False), lambda mm, w=dict(w0, outcome=str(r.status) + ' ' + str(r.msg)): w, lambda mm, w: 'prefix-chain-failed')
                    continue
                e = r.retval.fields[('Ok', 0)]
                kk = e.load(F('Expr', 'kind'), None, r.st)
                shape = []
                cur = kk
                while cur.variant == 'Unary' and len(shape) < 4:
                    shape.append(cur.fields[('Unary', 0)].variant)
                    cur = cur.fields[('Unary', 1)].load(r.st).load(F('Expr', 'kind'), None, r.st)
                good = shape == [PREFIX_OP[p1], PREFIX_OP[p2]] and cur.variant == 'Literal'
                ck.require(ex, 'G4_prefix_chain_nests_in_order', r.pc, None, z3.BoolVal(good), lambda mm, w=dict(w0, nesting=shape, innermost=str(cur.variant)): w, lambda mm, w: 'prefix-order')


pratt_prefix_chain('ExprParser', 'ExprParser')
pratt_prefix_chain('Parser', 'Parser')
ck.declare('G5_postfix_binds_tightest', 'PREFIX a IS [NOT] NULL for the prefix tokens, and a OP b IS [NOT] NULL for every infix operator; both Pratt loops',
           'the postfix form (documented level 11) applies to the operand next to it: PREFIX (a IS NULL) and a OP (b IS NULL)')


def kw(st, name, i):
    return mk_token(st, Enum('token::TokenKind', P.variant_index('TokenKind', name), {}, variant=name), i)


def pratt_postfix(owner, parser_struct):
    def start(st, toks):
        st.env['tokens'] = toks[1:]
        st.env['tokpos'] = 0
        p = Struct(parser_struct, {}, lazy='P')
        p.fields[F(parser_struct, 'current')] = toks[0]
        p.fields[F(parser_struct, 'peeked')] = none('Option<Token>')
        if parser_struct == 'ExprParser':
            p.fields[F(parser_struct, 'depth')] = Int(z3.BitVecVal(0, 64), False)
        return run(st, f'{owner}::parse_expr_bp', [ref(p), Int(z3.BitVecVal(0, 8), False)])

    def kind_of(e, st):
        return e.load(F('Expr', 'kind'), None, st)

    for negated in (False, True):
        tail = lambda st, i: [kw(st, 'Is', i)] + ([kw(st, 'Not', i + 1)] if negated else []) + [kw(st, 'Null', i + 1 + negated)]
        # PREFIX a IS NULL
        for pre in PREFIX_OP:
            st = ex.new_state()
            toks = [kw(st, pre, 0), int_token(st, 0, 1)] + tail(st, 2)
            res = start(st, toks)
            ck.note_path_problem(res, f'{owner} {pre} a IS NULL')
            for r in res:
                w0 = {'parser': owner, 'postfix': 'IS NOT NULL' if negated else 'IS NULL', 'prefixes': [pre], 'ops': []}
                if r.status not in ('return', 'panic'):
                    continue
                good, top = False, str(r.status)
                if r.status == 'return' and r.retval.variant == 'Ok':
                    k = kind_of(r.retval.fields[('Ok', 0)], r.st)
                    top = str(k.variant)
                    if k.variant == 'Unary':
                        inner = kind_of(k.fields[('Unary', 1)].load(r.st), r.st)
                        good = inner.variant == 'IsNull' and k.fields[('Unary', 0)].variant == PREFIX_OP[pre]
                ck.require(ex, 'G5_postfix_binds_tightest', r.pc, None, z3.BoolVal(good), lambda mm, w=dict(w0, top=top): w, lambda mm, w: 'postfix-under-prefix')
        # a OP b IS NULL
        st = ex.new_state()
        k = st.fresh('token::TokenKind', 'op0')
        st.assume(z3.Or([k.disc == z3.BitVecVal(d, 64) for d in OPTOK]))
        toks = [int_token(st, 0, 0), mk_token(st, k, 1), int_token(st, 1, 2)] + tail(st, 3)
        res = start(st, toks)
        ck.note_path_problem(res, f'{owner} a OP b IS NULL')
        for r in res:
            rr, m = ex.solver.model(r.pc)
            if m is None or r.status not in ('return', 'panic'):
                continue
            opn = OPTOK[mval(m, k.disc, True)]
            w0 = {'parser': owner, 'postfix': 'IS NOT NULL' if negated else 'IS NULL', 'prefixes': [], 'ops': [opn]}
            good, top = False, str(r.status)
            if r.status == 'return' and r.retval.variant == 'Ok':
                kk = kind_of(r.retval.fields[('Ok', 0)], r.st)
                top = str(kk.variant)
                if kk.variant == 'Binary':
                    rgt = kind_of(kk.fields[('Binary', 2)].load(r.st), r.st)
                    lft = kind_of(kk.fields[('Binary', 0)].load(r.st), r.st)
                    good = rgt.variant == 'IsNull' and lft.variant == 'Literal' and kk.fields[('Binary', 1)].variant == opn
            ck.require(ex, 'G5_postfix_binds_tightest', r.pc, None, z3.BoolVal(good), lambda mm, w=dict(w0, top=top): w, lambda mm, w: 'postfix-under-infix')


ck.declare('G6_special_form_operand_takes_postfix', 'a [NOT] BETWEEN b AND c IS [NOT] NULL and a [NOT] LIKE b IS [NOT] NULL; both Pratt loops',
           'the last operand of the special form is parsed at the prefix level including its postfix (documented level 11 binds tightest): BETWEEN(a, b, c IS NULL) / LIKE(a, b IS NULL), never (a BETWEEN b AND c) IS NULL; the two parsers agree')


def pratt_special(owner, parser_struct):
    def start(st, toks):
        st.env['tokens'] = toks[1:]
        st.env['tokpos'] = 0
        p = Struct(parser_struct, {}, lazy='P')
        p.fields[F(parser_struct, 'current')] = toks[0]
        p.fields[F(parser_struct, 'peeked')] = none('Option<Token>')
        if parser_struct == 'ExprParser':
            p.fields[F(parser_struct, 'depth')] = Int(z3.BitVecVal(0, 64), False)
        return run(st, f'{owner}::parse_expr_bp', [ref(p), Int(z3.BitVecVal(0, 8), False)])

    kind_of = lambda e, st: e.load(F('Expr', 'kind'), None, st)
    for form, neg_form, neg_post in itertools.product(('Between', 'Like'), (False, True), (False, True)):
        st = ex.new_state()
        toks = [int_token(st, 0, 0)] + ([kw(st, 'Not', 1)] if neg_form else [])
        i = len(toks)
        if form == 'Between':
            toks += [kw(st, 'Between', i), int_token(st, 1, i + 1), kw(st, 'And', i + 2), int_token(st, 2, i + 3)]
        else:
            toks += [kw(st, 'Like', i), int_token(st, 1, i + 1)]
        i = len(toks)
        toks += [kw(st, 'Is', i)] + ([kw(st, 'Not', i + 1)] if neg_post else []) + [kw(st, 'Null', i + 1 + neg_post)]
        res = start(st, toks)
        ck.note_path_problem(res, f'{owner} {form} with postfix')
        for r in res:
            if r.status not in ('return', 'panic'):
                continue
            good, top = False, str(r.status)
            if r.status == 'return' and r.retval.variant == 'Ok':
                k = kind_of(r.retval.fields[('Ok', 0)], r.st)
                top = str(k.variant)
                if k.variant == form:
                    fld = [v_ for (kk, v_) in k.fields.items() if isinstance(kk, tuple) and kk[0] == form]
                    # the operand fields are boxed expressions in declaration order; the last boxed one is high / pattern
                    boxed = [v_ for v_ in fld if isinstance(v_, Ptr)]
                    if boxed:
                        inner = kind_of(boxed[-1].load(r.st), r.st)
                        good = inner.variant == 'IsNull'
            w0 = {'parser': owner, 'special': form, 'negated': neg_form, 'postfix': 'IS NOT NULL' if neg_post else 'IS NULL', 'top': top}
            ck.require(ex, 'G6_special_form_operand_takes_postfix', r.pc, None, z3.BoolVal(bool(good)), lambda mm, w=w0: w, lambda mm, w: 'postfix-lifted-over-special-form')


pratt_special('ExprParser', 'ExprParser')
pratt_special('Parser', 'Parser')
pratt_postfix('ExprParser', 'ExprParser')
pratt_postfix('Parser', 'Parser')
pratt_prefix('ExprParser', 'ExprParser')
pratt_prefix('Parser', 'Parser')
pratt('ExprParser', 'ExprParser', 2, 'G1_grouping')
pratt('Parser', 'Parser', 2, 'G1_grouping')
if T == 'thorough':
    _jobs = [(o, d) for o in ('ExprParser', 'Parser') for d in OPTOK]
    _n = ck.parallel(_jobs, lambda j: pratt(j[0], j[0], 3, 'G2_grouping3', first=j[1]), jobs=16)
    for o in ('ExprParser', 'Parser'):
        ck.notes.append(f'{o}::parse_expr_bp, 3 operators: {sum(n or 0 for (oo, _), n in zip(_jobs, _n) if oo == o)} paths '
                        f'({len(OPTOK)} worker processes, one per first operator)')
ck.functions += ['ExprParser::parse_expr_bp', 'ExprParser::parse_prefix', 'ExprParser::parse_postfix', 'ExprParser::current_binary_op',
                 'Parser::parse_expr_bp', 'Parser::current_binary_op']
