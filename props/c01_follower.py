# ================================================================ V1–V3: handle_request_vote
ck.declare('V1_term_monotone', f'log 0..{MAXLOG}, any RequestVote', 'term never decreases; higher-term message makes the node a follower; response carries the post term')
ck.declare('V2_one_vote_per_term', f'log 0..{MAXLOG}, any RequestVote', 'granted => term = rv.term, vote = candidate, and an earlier vote in that term was for the same candidate; not granted in the same term => vote unchanged')
ck.declare('V3_up_to_date', f'log 0..{MAXLOG}, any RequestVote', 'granted => candidate (last_term, last_index) >= own, lexicographically')
ck.declare('V_persist_before_grant', f'log 0..{MAXLOG}', 'a granted vote / adopted term was handed to the WAL layer (with that term and candidate) before the reply')
granted_paths = 0
ck.bounds['compacted voter'] = 'V1-V3 also with a compacted log: log_base_index any value in 1..2^32, 1..MAXLOG retained entries'
for n, based in [(n, False) for n in range(MAXLOG + 1)] + [(n, True) for n in range(1, MAXLOG + 1)]:
    st = ex.new_state()
    VB = z3.BitVec('vbase', 64) if based else U64(0)
    if based:
        st.assume(z3.And(z3.UGE(VB, U64(1)), z3.ULT(VB, U64(1 << 32))))
    N = Node(st, n, base=VB)
    rv = st.fresh('RequestVote', 'rv')
    st.roots['rv'] = rv
    rv_term = rv.load(F('RequestVote', 'term'), 'u64', st).v
    rv_cand = rv.load(F('RequestVote', 'candidate_id'), 'std::string::String', st)
    rv_lli = rv.load(F('RequestVote', 'last_log_index'), 'u64', st).v
    rv_llt = rv.load(F('RequestVote', 'last_log_term'), 'u64', st).v
    frm = st.fresh('std::string::String', 'from')
    res = run(st, 'RaftNode::handle_request_vote', [N.ptr, ref(frm), ref(rv)])
    ck.note_path_problem(res, f'handle_request_vote log={n}')
    for r in res:
        wit = lambda m, r=r, N=N, VB=VB: {'handler': 'request_vote', 'pre': dict(pre_dump(m, N, r.st), base=mval(m, VB)),
                                   'rv': {'term': mval(m, rv_term), 'candidate': mval(m, rv_cand.id), 'last_log_index': mval(m, rv_lli), 'last_log_term': mval(m, rv_llt)}}
        if r.status == 'panic':
            ck.require(ex, 'V1_term_monotone', r.pc, None, z3.BoolVal(False), wit, lambda m, w: 'rv-panic')
            continue
        if r.status != 'return':
            continue
        resp = response(r, 'RequestVoteResponse')
        if resp is None:
            ck.inconclusive.append('handle_request_vote returned no RequestVoteResponse')
            continue
        f = r.st
        term1 = N.term(f)
        vote1 = N.vote(f)
        granted = resp.fields[F('RequestVoteResponse', 'vote_granted')]
        rterm = resp.fields[F('RequestVoteResponse', 'term')].v
        ck.require(ex, 'V1_term_monotone', r.pc, None,
                   z3.And(z3.UGE(term1, N.term0.v), rterm == term1,
                          z3.Implies(z3.And(z3.UGT(rv_term, N.term0.v), term1 == rv_term), N.role(f) == ROLE['Follower'])),
                   wit, lambda m, w: 'term')
        same_vote = z3.And(disc(vote1) == N.vote0_disc,
                           z3.Implies(N.vote0_disc == 1, opt_str_eq(vote1, N.vote0_some, f)))
        ck.require(ex, 'V2_one_vote_per_term', r.pc, granted,
                   z3.And(term1 == rv_term, opt_str_eq(vote1, rv_cand, f),
                          z3.Implies(N.term0.v == rv_term, z3.Or(N.vote0_disc == 0, N.vote0_some.id == rv_cand.id))),
                   wit, lambda m, w: 'double-vote')
        ck.require(ex, 'V2_one_vote_per_term', r.pc, z3.And(z3.Not(granted), term1 == N.term0.v), same_vote, wit, lambda m, w: 'vote-changed')
        own_t = N.log0[-1] if n else U64(0)
        own_i = z3.simplify(VB + U64(n))
        ck.require(ex, 'V3_up_to_date', r.pc, granted,
                   z3.Or(z3.UGT(rv_llt, own_t), z3.And(rv_llt == own_t, z3.UGE(rv_lli, own_i))), wit, lambda m, w: 'stale-candidate')
        # persistence: a grant implies a persist_term_and_vote(term1, Some(candidate)) note on the path
        pn = [x for x in f.notes if x[0] == 'persist_term_vote']
        okp = []
        for x in pn:
            v = x[2]
            if isinstance(v, Enum) and v.variant == 'Some':
                s = v.fields[('Some', 0)]
                s = s.load(f) if isinstance(s, Ptr) else s
                okp.append(z3.And(x[1].v == term1, s.id == rv_cand.id))
        ck.require(ex, 'V_persist_before_grant', r.pc, granted, z3.Or(okp) if okp else z3.BoolVal(False), wit, lambda m, w: 'unpersisted-vote')
        if ex.solver.check(r.pc, granted) == z3.sat:
            granted_paths += 1
            if granted_paths == 1:
                rr, m = ex.solver.model(r.pc, granted)
                ck.sample({'obligation': 'V2 cover: vote granted', **wit(m)})
if granted_paths == 0:
    ck.inconclusive.append('vacuous: no path grants a vote')
ck.notes.append(f'handle_request_vote: vote can be granted on {granted_paths} paths')

# ================================================================ A1/A2: handle_append_entries
ck.declare('A1_ack_bound', f'log 0..{MAXLOG}, entries 0..{MAXENT} consecutive after prev', 'success => match_index <= prev_log_index + entries.len()')
ck.declare('A1_commit_bound', 'same', 'commit_index never decreases and only advances to <= min(leader_commit, prev_log_index + entries.len())')
ck.declare('A1_log_matches', 'same', 'success => log[1..=prev] unchanged and log[prev+1..=prev+k] carries the terms of the entries sent')
ck.declare('A2_reject_is_noop', 'same', 'stale term or failed prev check => success=false and log, vote, commit unchanged')
accepted = 0
for n in range(MAXLOG + 1):
    for k in range(MAXENT + 1):
        st = ex.new_state()
        N = Node(st, n)
        ae = st.fresh('AppendEntries', 'ae')
        st.roots['ae'] = ae
        ae_term = ae.load(F('AppendEntries', 'term'), 'u64', st).v
        ae_prev = ae.load(F('AppendEntries', 'prev_log_index'), 'u64', st).v
        ae_prevt = ae.load(F('AppendEntries', 'prev_log_term'), 'u64', st).v
        ae_commit = ae.load(F('AppendEntries', 'leader_commit'), 'u64', st).v
        ae_leader = ae.load(F('AppendEntries', 'leader_id'), 'std::string::String', st)
        st.assume(z3.ULT(ae_prev, U64(1 << 32)))
        ents = []
        eterms = []
        for j in range(k):
            e = st.fresh('LogEntry', f'ae.entries[{j}]')
            t = e.load(F('LogEntry', 'term'), 'u64', st)
            e.fields[F('LogEntry', 'index')] = Int(z3.simplify(ae_prev + U64(j + 1)), False)
            ents.append(e)
            eterms.append(t.v)
            st.assume(z3.ULE(t.v, ae_term))
        for a, b in zip(eterms, eterms[1:]):
            st.assume(z3.ULE(a, b))
        if eterms:
            st.assume(z3.ULE(ae_prevt, eterms[0]))
        ae.fields[F('AppendEntries', 'entries')] = Seq('LogEntry', ents)
        if T == 'quick':
            # quick: messages without a block embedding (fast-path branch not taken); thorough: arbitrary
            ae.fields[F('AppendEntries', 'block_embedding')] = none('std::option::Option<tensor_store::SparseVector>')
        frm = st.fresh('std::string::String', 'from')
        res = run(st, 'RaftNode::handle_append_entries', [N.ptr, ref(frm), ref(ae)])
        ck.note_path_problem(res, f'handle_append_entries log={n} entries={k}')
        for r in res:
            wit = lambda m, r=r, N=N, ae_term=ae_term, ae_prev=ae_prev, ae_prevt=ae_prevt, ae_commit=ae_commit, eterms=eterms, ae_leader=ae_leader: {
                'handler': 'append_entries', 'pre': pre_dump(m, N, r.st),
                'ae': {'term': mval(m, ae_term), 'leader': mval(m, ae_leader.id), 'prev_log_index': mval(m, ae_prev), 'prev_log_term': mval(m, ae_prevt),
                       'leader_commit': mval(m, ae_commit), 'entry_terms': [mval(m, t) for t in eterms]}}
            if r.status == 'panic':
                ck.require(ex, 'A1_ack_bound', r.pc, None, z3.BoolVal(False), wit, lambda m, w: 'ae-panic')
                continue
            if r.status != 'return':
                continue
            resp = response(r, 'AppendEntriesResponse')
            if resp is None:
                ck.inconclusive.append('handle_append_entries returned no AppendEntriesResponse')
                continue
            f = r.st
            success = resp.fields[F('AppendEntriesResponse', 'success')]
            mi = resp.fields[F('AppendEntriesResponse', 'match_index')].v
            bound = ae_prev + U64(k)
            persist_failed = any(x[0] == 'persist_failed' for x in f.notes)
            ck.require(ex, 'A1_ack_bound', r.pc, success, z3.ULE(mi, bound), wit,
                       lambda m, w: 'stale-suffix-ack')
            c1 = N.commit(f)
            # cluster-level invariant assumed on the message: a leader never contradicts entries this follower has committed
            agree = []
            for pv in range(0, n + 1):
                cs = [eterms[j] == N.log0[pv + j] for j in range(k) if pv + j < n]
                cs = [z3.Implies(z3.ULE(U64(pv + j + 1), N.commit0.v), c) for j, c in zip([j for j in range(k) if pv + j < n], cs)]
                agree.append(z3.Implies(ae_prev == U64(pv), z3.And(cs) if cs else z3.BoolVal(True)))
            agree = z3.And(agree)
            ck.require(ex, 'A1_commit_bound', r.pc, agree,
                       z3.And(z3.UGE(c1, N.commit0.v),
                              z3.Or(c1 == N.commit0.v, z3.And(z3.ULE(c1, ae_commit), z3.ULE(c1, bound)))),
                       wit, lambda m, w: 'stale-suffix-commit')
            log1 = N.log(f)
            # success => prefix unchanged and entries present
            conc_ = []
            prev_c = None
            if z3.is_bv_value(z3.simplify(ae_prev)):
                prev_c = z3.simplify(ae_prev).as_long()
            # prev is symbolic: case-split over its feasible values within the log
            cases = []
            for pv in range(0, n + 1):
                cs = []
                for i in range(pv):
                    cs.append(z3.BoolVal(i < len(log1)) if i >= len(log1) else log1[i][0] == N.log0[i])
                for j in range(k):
                    pos = pv + j
                    cs.append(z3.BoolVal(False) if pos >= len(log1) else z3.And(log1[pos][0] == eterms[j], log1[pos][1] == U64(pos + 1)))
                cases.append(z3.Implies(ae_prev == U64(pv), z3.And(cs) if cs else z3.BoolVal(True)))
            ck.require(ex, 'A1_log_matches', r.pc, success, z3.And(cases), wit, lambda m, w: 'log-mismatch')
            # rejection leaves log / vote / commit alone (term may still have been adopted)
            unchanged = z3.And([z3.BoolVal(len(log1) == n)] + [log1[i][0] == N.log0[i] for i in range(min(n, len(log1)))] + [c1 == N.commit0.v])
            stale = z3.ULT(ae_term, N.term0.v)
            ck.require(ex, 'A2_reject_is_noop', r.pc, stale, z3.And(z3.Not(success), unchanged, N.term(f) == N.term0.v), wit, lambda m, w: 'stale-accepted')
            if not persist_failed:
                ck.require(ex, 'A2_reject_is_noop', r.pc, z3.Not(success), unchanged, wit, lambda m, w: 'reject-mutates')
            if ex.solver.check(r.pc, success) == z3.sat:
                accepted += 1
                if accepted == 1:
                    rr, m = ex.solver.model(r.pc, success)
                    ck.sample({'obligation': 'A1 cover: append accepted', **wit(m)})
if accepted == 0:
    ck.inconclusive.append('vacuous: no path accepts an AppendEntries')
ck.notes.append(f'handle_append_entries: success feasible on {accepted} paths')

