"""C13 — 2PC coordinator restart preserves every logged decision (log framing + replay classification).
TxWal open/append/replay and TxRecoveryState::from_entries executed from MIR."""
import sys
import os
sys.path.insert(0, os.path.dirname(os.path.dirname(os.path.abspath(__file__))))
from props.common import *
from props.walcommon import *

ck = Check('C13')
T = ck.tier
ex = ck.executor('tensor_chain', unroll=40, default_maxlen=2, max_paths=100000)
ex.extra_models['TxWal::check_space'] = lambda c: ok(UNIT)
P = ex.prog
K = 2 if T == 'quick' else 3
LENS = (2,) if T == 'quick' else (1, 2, 3)
ck.bounds = {'records before the crash': f'1..{K}', 'payload bytes per record (codec image length)': list(LENS),
             'crash offsets': 'every byte from "last record absent" to "last record complete"', 'records appended after recovery': 1,
             'classification': 'record sequences R1..R4 (4-6 records, 1-2 transactions, all ids/handles/phases symbolic 64-bit)'}
ck.assumptions = [
    'torn-write model: after a crash the file holds a prefix of the bytes written since the last completed fsync',
    'crc32fast::hash uninterpreted per length; bitcode as image table (see C10)',
    'disk-space pre-check returns Ok; rotation not triggered',
    'HashMap iteration: insertion order (quick) / all orders (thorough)',
    'outside: DistributedTxCoordinator::recover_from_wal + cleanup_timeouts wiring, lock manager restore, participants',
]
sc = WalScenario(ck, ex, 'TxWal::open', 'TxWal::append', 'TxWal::replay', 'TxWalEntry')
run_wal_obligations(ck, ex, sc, K, LENS, 'tx')
if T == 'thorough':
    ex.all_orders = True

# ------------------------------------------------------------------ classification
VI = lambda e, v: P.variant_index(e, v)
PH = {n: VI('TxPhase', n) for n in ('Preparing', 'Prepared', 'Committing', 'Committed', 'Aborting', 'Aborted')}
U = lambda n: Int(z3.BitVec(n, 64), False)


def E(kind, *fields):
    return Enum('TxWalEntry', VI('TxWalEntry', kind), {(kind, i): f for i, f in enumerate(fields)}, variant=kind)


def vote_kind(name, st):
    d = z3.BitVec(name + '.disc', 64)
    st.assume(z3.Or(d == 0, d == 1))
    return Enum('PrepareVoteKind', d, {('Yes', 0): U(name + '.handle')}), d


def phase(name, st):
    d = z3.BitVec(name, 64)
    st.assume(z3.And(d >= 0, d <= 5))
    return Enum('TxPhase', d, {}), d


def outcome(name, st):
    d = z3.BitVec(name, 64)
    st.assume(z3.Or(d == 0, d == 1))
    return Enum('TxOutcome', d, {})


def run_from_entries(st, ents, what):
    st.frames = []
    ex.call(st, 'TxRecoveryState::from_entries', [ref(Seq('TxWalEntry', ents))])
    res = ex.run(st)
    ck.note_path_problem(res, what)
    return res


FS = lambda n: P.field('TxRecoveryState', n)
FR = lambda n: P.field('RecoveredPreparedTx', n)


def lists(r):
    rs = r.retval
    out = {}
    for nm in ('prepared_txs', 'committing_txs', 'aborting_txs'):
        out[nm] = rs.load(FS(nm), None, r.st).items(r.st)
    out['orphaned'] = rs.load(FS('orphaned_locks'), None, r.st).items(r.st)
    return out


def ids(xs, st):
    return [x.load(FR('tx_id'), 'u64', st).v for x in xs]


ck.declare('R1_completed_not_resurrected', 'Begin(a) Vote(a) Phase(a) Begin(b) Phase(b) Complete(a), a != b', 'a is in no in-progress class; b is classified exactly by its last logged phase')
st = ex.new_state()
a, b = U('a'), U('b')
v0, v0d = vote_kind('v0', st)
p1, p1d = phase('p1', st)
p2, p2d = phase('p2', st)
ents = [E('TxBegin', a, Seq('usize', [U('pa0')])), E('PrepareVote', a, U('s0'), v0), E('PhaseChange', a, phase('f1', st)[0], p1),
        E('TxBegin', b, Seq('usize', [U('pb0')])), E('PhaseChange', b, phase('f2', st)[0], p2), E('TxComplete', a, outcome('o', st))]
for r in run_from_entries(st, ents, 'R1'):
    wit = lambda m: {'shape': 'R1', 'a': mval(m, a.v), 'b': mval(m, b.v), 'phase_a': mval(m, p1d), 'phase_b': mval(m, p2d)}
    if r.status != 'return':
        if r.status == 'panic':
            ck.require(ex, 'R1_completed_not_resurrected', r.pc, None, z3.BoolVal(False), wit, lambda m, w: 'r1-panic')
        continue
    L = lists(r)
    allids = ids(L['prepared_txs'], r.st) + ids(L['committing_txs'], r.st) + ids(L['aborting_txs'], r.st)
    concl = [x != a.v for x in allids]
    for nm, phv in (('prepared_txs', 'Prepared'), ('committing_txs', 'Committing'), ('aborting_txs', 'Aborting')):
        present = z3.Or([x == b.v for x in ids(L[nm], r.st)]) if L[nm] else z3.BoolVal(False)
        concl.append(present == (p2d == PH[phv]))
        concl.append(z3.BoolVal(len(L[nm]) <= 1))
    ck.require(ex, 'R1_completed_not_resurrected', r.pc, a.v != b.v, z3.And(concl), wit, lambda m, w: 'resurrected')

ck.declare('R2_prepared_keeps_votes', 'Begin(a,[p0,p1]) Vote(a,s0,v0) Vote(a,s1,v1) Phase(a -> Prepared)', 'exactly one prepared transaction a, with its participants and both votes in order')
st = ex.new_state()
a = U('a')
v0, v0d = vote_kind('v0', st)
v1, v1d = vote_kind('v1', st)
parts = [U('p0'), U('p1')]
s0, s1 = U('s0'), U('s1')
ents = [E('TxBegin', a, Seq('usize', list(parts))), E('PrepareVote', a, s0, v0), E('PrepareVote', a, s1, v1),
        E('PhaseChange', a, Enum('TxPhase', PH['Preparing'], {}), Enum('TxPhase', PH['Prepared'], {}))]
for r in run_from_entries(st, ents, 'R2'):
    wit = lambda m: {'shape': 'R2', 'a': mval(m, a.v), 'votes': [mval(m, v0d), mval(m, v1d)]}
    if r.status != 'return':
        if r.status == 'panic':
            ck.require(ex, 'R2_prepared_keeps_votes', r.pc, None, z3.BoolVal(False), wit, lambda m, w: 'r2-panic')
        continue
    L = lists(r)
    good = len(L['prepared_txs']) == 1 and not L['committing_txs'] and not L['aborting_txs'] and not L['orphaned']
    concl = [z3.BoolVal(good)]
    if good:
        t = L['prepared_txs'][0]
        concl.append(t.load(FR('tx_id'), 'u64', r.st).v == a.v)
        ps = t.load(FR('participants'), None, r.st).items(r.st)
        concl.append(z3.BoolVal(len(ps) == 2))
        concl += [x.v == y.v for x, y in zip(ps, parts)]
        vs = t.load(FR('votes'), None, r.st).items(r.st)
        concl.append(z3.BoolVal(len(vs) == 2))
        for got, (s, vd, vk) in zip(vs, ((s0, v0d, v0), (s1, v1d, v1))):
            gs = got.load(0, 'usize', r.st).v
            gv = got.load(1, 'PrepareVoteKind', r.st)
            gd = gv.disc if not isinstance(gv.disc, int) else z3.BitVecVal(gv.disc, 64)
            concl += [gs == s.v, gd == vd, z3.Implies(vd == 0, gv.load(('Yes', 0), 'u64', r.st).v == vk.fields[('Yes', 0)].v)]
    ck.require(ex, 'R2_prepared_keeps_votes', r.pc, None, z3.And(concl), wit, lambda m, w: 'votes-lost')

ck.declare('R5_resent_vote_does_not_displace_a_later_one', 'Begin(a,[p0,p1]) Vote(a,s0,v0) Vote(a,s0,v0) Vote(a,s1,v1) Phase(a -> Prepared), s0 != s1 (record_vote logs a vote before it rejects a repeat)',
           'the recovered prepared transaction still carries a vote of shard s1 with the logged kind (and one of shard s0)')
st = ex.new_state()
a = U('a')
v0, v0d = vote_kind('v0', st)
v1, v1d = vote_kind('v1', st)
parts = [U('p0'), U('p1')]
s0, s1 = U('s0'), U('s1')
st.assume(s0.v != s1.v)
ents = [E('TxBegin', a, Seq('usize', list(parts))), E('PrepareVote', a, s0, v0), E('PrepareVote', a, s0, v0), E('PrepareVote', a, s1, v1),
        E('PhaseChange', a, Enum('TxPhase', PH['Preparing'], {}), Enum('TxPhase', PH['Prepared'], {}))]
for r in run_from_entries(st, ents, 'R5'):
    wit = lambda m: {'shape': 'R5', 'a': mval(m, a.v), 'votes': [mval(m, v0d), mval(m, v1d)]}
    if r.status != 'return':
        if r.status == 'panic':
            ck.require(ex, 'R5_resent_vote_does_not_displace_a_later_one', r.pc, None, z3.BoolVal(False), wit, lambda m, w: 'r5-panic')
        continue
    L = lists(r)
    good = len(L['prepared_txs']) == 1
    concl = [z3.BoolVal(good)]
    if good:
        t = L['prepared_txs'][0]
        vs = t.load(FR('votes'), None, r.st).items(r.st)
        has = lambda s_, vd: z3.Or([z3.And(got.load(0, 'usize', r.st).v == s_.v,
                                           (got.load(1, 'PrepareVoteKind', r.st).disc if not isinstance(got.load(1, 'PrepareVoteKind', r.st).disc, int) else z3.BitVecVal(got.load(1, 'PrepareVoteKind', r.st).disc, 64)) == vd)
                                    for got in vs] + [z3.BoolVal(False)])
        concl += [has(s0, v0d), has(s1, v1d)]
    ck.require(ex, 'R5_resent_vote_does_not_displace_a_later_one', r.pc, None, z3.And(concl), wit, lambda m, w: 'later-vote-displaced')

ck.declare('R3_preparing_forgotten', 'Begin(a) Vote(a,s0,v0)', 'a transaction still collecting votes appears in no recovered class and leaves no orphaned lock entry')
st = ex.new_state()
a = U('a')
v0, v0d = vote_kind('v0', st)
for r in run_from_entries(st, [E('TxBegin', a, Seq('usize', [U('p0')])), E('PrepareVote', a, U('s0'), v0)], 'R3'):
    wit = lambda m: {'shape': 'R3', 'a': mval(m, a.v)}
    if r.status != 'return':
        if r.status == 'panic':
            ck.require(ex, 'R3_preparing_forgotten', r.pc, None, z3.BoolVal(False), wit, lambda m, w: 'r3-panic')
        continue
    L = lists(r)
    ck.require(ex, 'R3_preparing_forgotten', r.pc, None, z3.BoolVal(not any(L.values())), wit, lambda m, w: 'preparing-kept')

ck.declare('R4_orphaned_locks', 'Begin(a) Vote(a,s0,Yes h0) Vote(a,s1,v1) Complete(a) LockRelease(x,hx) [AllLocksReleased(y)]',
           'orphaned = Yes-handles of the completed transaction minus released ones; none when AllLocksReleased(a) is logged')
for with_all in (False, True):
    st = ex.new_state()
    a, x, y, h0, hx = U('a'), U('x'), U('y'), U('h0'), U('hx')
    v1, v1d = vote_kind('v1', st)
    h1 = v1.fields[('Yes', 0)]
    ents = [E('TxBegin', a, Seq('usize', [U('p0'), U('p1')])), E('PrepareVote', a, U('s0'), Enum('PrepareVoteKind', 0, {('Yes', 0): h0}, variant='Yes')),
            E('PrepareVote', a, U('s1'), v1), E('TxComplete', a, outcome('o', st)), E('LockRelease', x, hx)]
    if with_all:
        ents.append(E('AllLocksReleased', y))
    for r in run_from_entries(st, ents, 'R4'):
        wit = lambda m: {'shape': 'R4', 'a': mval(m, a.v), 'x': mval(m, x.v), 'y': mval(m, y.v) if with_all else None, 'h0': mval(m, h0.v), 'h1': mval(m, h1.v), 'hx': mval(m, hx.v), 'v1': mval(m, v1d)}
        if r.status != 'return':
            if r.status == 'panic':
                ck.require(ex, 'R4_orphaned_locks', r.pc, None, z3.BoolVal(False), wit, lambda m, w: 'r4-panic')
            continue
        L = lists(r)
        FO = lambda n: P.field('OrphanedLock', n)
        got = [(o.load(FO('tx_id'), 'u64', r.st).v, o.load(FO('lock_handle'), 'u64', r.st).v) for o in L['orphaned']]
        allrel = z3.And(y.v == a.v) if with_all else z3.BoolVal(False)
        def expected(h, is_yes):
            return z3.And(is_yes, z3.Not(allrel), z3.Not(z3.And(x.v == a.v, hx.v == h)))
        has = lambda h: z3.Or([z3.And(t == a.v, g == h) for t, g in got]) if got else z3.BoolVal(False)
        concl = [has(h0.v) == expected(h0.v, z3.BoolVal(True)), z3.Implies(h1.v != h0.v, has(h1.v) == expected(h1.v, v1d == 0)),
                 z3.And([z3.And(t == a.v, z3.Or(g == h0.v, z3.And(v1d == 0, g == h1.v))) for t, g in got]) if got else z3.BoolVal(True),
                 z3.BoolVal(not L['prepared_txs'] and not L['committing_txs'] and not L['aborting_txs'])]
        ck.require(ex, 'R4_orphaned_locks', r.pc, None, z3.And(concl), wit, lambda m, w: 'orphan-classification')

# ------------------------------------------------------------------ X: a logged decision survives a crash at any byte of commit()/abort()
# The coordinator runs with a *real* TxWal (file model) that already holds Begin / votes / PhaseChange->Prepared of the
# transaction; commit() (or abort()) is executed from MIR, then the file is cut at every byte written by that call and
# recovery (TxWal::open + TxRecoveryState::from_wal) is executed: once TxComplete is wholly on disk the transaction is in no
# in-progress class; before the first new record is complete it is still Prepared with its votes; never anything else.
exec(open(os.path.join(os.path.dirname(os.path.abspath(__file__)), 'c13_decision.py')).read())

# ------------------------------------------------------------------ native replay
for v in ck.violations:
    w = v['witness']
    if str(w.get('wal', '')).endswith('-double'):
        v['native'], v['replayed'] = double_crash_replay(w)
        continue
    if w.get('wal') == 'tx':
        rep = Replay.call({'op': 'wal_torn', 'wal': 'tx', 'k': w['k'], 'cut_offset': w['cut_offset'], 'frame_len': w['frame_len']})
        v['native'] = rep
        if v['obligation'] in ('W1_clean_replay', 'W2_torn_record_dropped'):
            v['replayed'] = rep.get('replay1_ok') is False or rep.get('replay1_matches') is False
        else:
            v['replayed'] = rep.get('replay2_ok') is False or rep.get('new_record_recovered') is False or rep.get('replay2_prefix_matches') is False
    elif w.get('recover'):
        rep = Replay.call({'op': 'coordinator_recover', **w})
        v['native'] = rep
        v['replayed'] = rep.get('violates')
    elif w.get('vote_outcome'):
        # an all-Yes vote set ends Aborting only through the cross-shard conflict branch; Prepared otherwise
        tries = [{'vote_kind': w['vote_kind'], 'conflict': c_} for c_ in ((True, False) if w['vote_kind'] == PV_ALL['Yes'] else (False,))]
        v['replayed'] = False
        for t_ in tries:
            rep = Replay.call({'op': 'coordinator_vote_log', **t_})
            v['native'] = rep
            if rep.get('violates'):
                v['replayed'] = True
                break
    elif 'shape' in w:
        rep = Replay.call({'op': 'tx_from_entries', **w})
        v['native'] = rep
        v['replayed'] = rep.get('violates')

ck.functions += ['TxWal::open_with_config', 'TxWal::count_entries', 'TxWal::append', 'TxWal::replay_with_validation',
                 'TxRecoveryState::from_entries', 'TxRecoveryState::scan_entries', 'TxRecoveryState::classify_in_progress',
                 'TxRecoveryState::detect_orphaned_locks']
if __name__ == '__main__':
    ck.finish()
