"""C07 — snapshots: the v3 header codec (round trip, validation, bit flips) and the file protocol (save/load round trip, interrupted save).
SnapshotHeader::{to_raw_bytes, from_raw_bytes, validate, is_compressed, new, new_compressed} from tensor_store's MIR."""
import sys
import os
sys.path.insert(0, os.path.dirname(os.path.dirname(os.path.abspath(__file__))))
from props.common import *

ck = Check('C07')
ex = ck.executor('tensor_store', unroll=32)
P = ex.prog
ck.bounds = {'header fields': 'every magic[4], version u32, flags u32, entry_count u64', 'bit flips': 'each of the 64 bits of bytes 0..7 of a valid header'}
ck.assumptions = ['NOT decided: slab contents round trip (what snapshot()/restore() put into and take out of the image), zstd itself, tensor-train tolerance']
F = lambda n: P.field('SnapshotHeader', n)


def run(st, fname, args):
    st.frames = []
    ex.call(st, fname, args)
    return ex.run(st)


def single(res, what):
    ck.note_path_problem(res, what)
    good = [r for r in res if r.status == 'return']
    return good


def header(st, name):
    magic = [Int(z3.BitVec(f'{name}.magic{i}', 8), False) for i in range(4)]
    h = Struct('SnapshotHeader', {F('magic'): Seq('u8', list(magic)), F('version'): Int(z3.BitVec(name + '.version', 32), False),
                                  F('flags'): Int(z3.BitVec(name + '.flags', 32), False), F('entry_count'): Int(z3.BitVec(name + '.count', 64), False)})
    return h, magic


ck.declare('H1_roundtrip', 'all field values', 'from_raw_bytes(to_raw_bytes(h)) == h, 20 bytes, little endian layout magic|version|flags|count')
st = ex.new_state()
h, magic = header(st, 'h')
ver, flg, cnt = h.fields[F('version')].v, h.fields[F('flags')].v, h.fields[F('entry_count')].v
wit = lambda m: {'magic': [mval(m, x.v) for x in magic], 'version': mval(m, ver), 'flags': mval(m, flg), 'entry_count': mval(m, cnt)}
raw_paths = single(run(st, 'SnapshotHeader::to_raw_bytes', [ref(h)]), 'to_raw_bytes')
for r in raw_paths:
    raw = r.retval
    bs = [b.v for b in raw.items(r.st)]
    layout = z3.And([z3.BoolVal(len(bs) == 20)] + ([bs[i] == magic[i].v for i in range(4)] +
                    [z3.Concat(*reversed(bs[4:8])) == ver, z3.Concat(*reversed(bs[8:12])) == flg, z3.Concat(*reversed(bs[12:20])) == cnt] if len(bs) == 20 else []))
    ck.require(ex, 'H1_roundtrip', r.pc, None, layout, wit, lambda m, w: 'layout')
    for r2 in single(run(r.st, 'SnapshotHeader::from_raw_bytes', [ref(raw)]), 'from_raw_bytes'):
        g = r2.retval
        gm = g.load(F('magic'), None, r2.st).items(r2.st)
        concl = z3.And([a.v == b.v for a, b in zip(gm, magic)] + [g.load(F('version'), None, r2.st).v == ver, g.load(F('flags'), None, r2.st).v == flg,
                                                                  g.load(F('entry_count'), None, r2.st).v == cnt])
        ck.require(ex, 'H1_roundtrip', r2.pc, None, concl, wit, lambda m, w: 'roundtrip')

# constants as the code sees them
st = ex.new_state()
good_hdr = single(run(st, 'SnapshotHeader::new', [Int(z3.BitVec('n', 64), False)]), 'new')[0].retval
V3_MAGIC = [z3.simplify(x.v).as_long() for x in good_hdr.fields[F('magic')].items(st)]
CUR_VER = z3.simplify(good_hdr.fields[F('version')].v).as_long()
ck.notes.append({'V3_MAGIC (from SnapshotHeader::new)': V3_MAGIC, 'CURRENT_VERSION': CUR_VER})

ck.declare('H2_validate_exact', 'all field values', 'validate() is Ok exactly when magic is the v3 magic and version the current version; flags and count never matter')
st = ex.new_state()
h, magic = header(st, 'h')
ver = h.fields[F('version')].v
valid = z3.And([magic[i].v == V3_MAGIC[i] for i in range(4)] + [ver == CUR_VER])
nok = 0
for r in single(run(st, 'SnapshotHeader::validate', [ref(h)]), 'validate'):
    is_ok = r.retval.variant == 'Ok'
    ck.require(ex, 'H2_validate_exact', r.pc, None, valid if is_ok else z3.Not(valid),
               lambda m: {'magic': [mval(m, x.v) for x in magic], 'version': mval(m, ver), 'accepted': is_ok}, lambda m, w: 'validate')
    nok += is_ok
if nok == 0:
    ck.inconclusive.append('vacuous: validate never accepts')

ck.declare('H3_bit_flips_rejected', '64 single-bit flips in bytes 0..7', 'any single-bit corruption of magic or version of a header made by new()/new_compressed() is rejected after the raw round trip')
for ctor in ('SnapshotHeader::new', 'SnapshotHeader::new_compressed'):
    st = ex.new_state()
    hd = single(run(st, ctor, [Int(z3.BitVec('n', 64), False)]), ctor)[0]
    raw = single(run(hd.st, 'SnapshotHeader::to_raw_bytes', [ref(hd.retval)]), 'to_raw_bytes')[0]
    bit = z3.BitVec('bit', 8)
    raw.st.assume(z3.ULT(bit, 64))
    bytes_ = raw.retval.items(raw.st)
    flipped = []
    for i, b in enumerate(bytes_):
        if i < 8:
            mask = z3.If(z3.LShR(bit, 3) == i, z3.BitVecVal(1, 8) << (bit & 7), z3.BitVecVal(0, 8))
            flipped.append(Int(z3.simplify(b.v ^ mask), False))
        else:
            flipped.append(b)
    for r2 in single(run(raw.st, 'SnapshotHeader::from_raw_bytes', [ref(Seq('u8', flipped))]), 'from_raw_bytes flipped'):
        for r3 in single(run(r2.st, 'SnapshotHeader::validate', [ref(r2.retval)]), 'validate flipped'):
            ck.require(ex, 'H3_bit_flips_rejected', r3.pc, None, z3.BoolVal(r3.retval.variant == 'Err'),
                       lambda m: {'ctor': ctor, 'bit': mval(m, bit)}, lambda m, w: 'flip-accepted')
        # is_compressed follows the constructor
        for r3 in single(run(r2.st, 'SnapshotHeader::is_compressed', [ref(r2.retval)]), 'is_compressed'):
            ck.require(ex, 'H3_bit_flips_rejected', r3.pc, None, r3.retval == z3.BoolVal(ctor.endswith('compressed')),
                       lambda m: {'ctor': ctor, 'bit': mval(m, bit)}, lambda m, w: 'compressed-flag')

T = ck.tier
exec(open(os.path.join(os.path.dirname(os.path.abspath(__file__)), 'c07_files.py')).read())

for v in ck.violations:
    if v['witness'].get('files'):
        v['native'], v['replayed'] = files_replay(v['witness'])
        continue
    rep = Replay.call({'op': 'snapshot_header', **v['witness']})
    v['native'] = rep
    v['replayed'] = rep.get('violates')
ck.functions += ['SnapshotHeader::to_raw_bytes', 'SnapshotHeader::from_raw_bytes', 'SnapshotHeader::validate', 'SnapshotHeader::is_compressed',
                 'SnapshotHeader::new', 'SnapshotHeader::new_compressed']
if __name__ == '__main__':
    ck.finish()
