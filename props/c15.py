"""C15 — query text means one thing: precedence tables and the Pratt loop's grouping.
infix_binding_power (both copies), prefix_binding_power, current_binary_op and parse_expr_bp are executed from
neumann_parser's MIR; the expected precedence levels are read from the module comment and the book table."""
import sys
import os
import re
sys.path.insert(0, os.path.dirname(os.path.dirname(os.path.abspath(__file__))))
from props.common import *
from mirsym.models import some, none

ck = Check('C15')
T = ck.tier
ex = ck.executor('neumann_parser', unroll=24, default_maxlen=2, max_paths=100000)
P = ex.prog
OPS = P.variants('BinaryOp')
ck.bounds = {'operators': f'all {len(OPS)} BinaryOp variants', 'Pratt loop': 'token streams  a OP1 b OP2 c  (and a OP1 b OP2 c OP3 d in thorough) with every operator symbolic; operands are integer literals',
             'unroll': 24}
ck.assumptions = [
    'the lexer is replaced by a symbolic token stream (Lexer::next_token pops from it): tokenisation, totality on arbitrary bytes, the depth limit and "text == engine call" are NOT decided',
    'expected levels come from neumann_parser/src/expr.rs lines 7-18 and docs/book/src/architecture/neumann-parser.md; operator symbols are mapped to BinaryOp variants through the doc comments in ast.rs',
]

# ------------------------------------------------------------------ documented precedence, read from the tree
src_expr = open(os.path.join(REPO, 'neumann_parser/src/expr.rs')).read().split('\n')
ast_src = open(os.path.join(REPO, 'neumann_parser/src/ast.rs')).read()
m = re.search(r'pub enum BinaryOp \{(.*?)\n\}', ast_src, re.S)
sym2var = {}
doc = None
for ln in m.group(1).split('\n'):
    ln = ln.strip()
    if ln.startswith('///'):
        doc = ln
    else:
        mm = re.match(r'(\w+),', ln)
        if mm and doc:
            s = re.search(r'`([^`]+)`', doc)
            if s:
                sym2var[s.group(1)] = mm.group(1)
            else:
                s2 = re.search(r'Logical (AND|OR)', doc)
                if s2:
                    sym2var[s2.group(1)] = mm.group(1)
            doc = None
levels_doc = []
for ln in src_expr[:25]:
    mm = re.match(r'//!\s*(\d+)\.\s*(.*)$', ln)
    if mm:
        txt = mm.group(2)
        inner = re.findall(r'\((.*?)\)', txt)
        scan = ' '.join(inner) if inner else txt
        toks = re.findall(r'\|\||<<|>>|!=|<=|>=|[=<>|^&+\-*/%]|\bOR\b|\bAND\b', scan)
        vs = [sym2var[t] for t in toks if t in sym2var]
        levels_doc.append((int(mm.group(1)), txt, vs))
infix_levels = [l for l in levels_doc if l[2] and not l[1].startswith(('Unary', 'Postfix'))]
book = open(os.path.join(REPO, 'docs/book/src/architecture/neumann-parser.md')).read()
book_rows = []
for ln in book.split('\n'):
    mm = re.match(r'\|\s*(\d+)[^|]*\|\s*(.*?)\s*\|\s*\((\d+),\s*(\d+)\)\s*\|', ln)
    if mm:
        cell = re.sub(r'\(.*?\)', '', mm.group(2).replace('\\|', '|'))
        toks = re.findall(r'\|\||<<|>>|!=|<=|>=|[=<>|^&+\-*/%]|\bOR\b|\bAND\b', cell)
        book_rows.append((int(mm.group(1)), [sym2var[t] for t in toks if t in sym2var], int(mm.group(3)), int(mm.group(4))))
ck.notes.append({'symbol_to_variant': sym2var, 'levels_from_expr_rs': [(a, c) for a, b, c in infix_levels], 'book_rows': book_rows})
covered = sorted({v for _, _, vs in infix_levels for v in vs})
if sorted(OPS) != covered:
    ck.inconclusive.append(f'documented levels do not cover every operator: missing {sorted(set(OPS) - set(covered))}')
level_of = {v: lvl for lvl, _, vs in infix_levels for v in vs}


def run(st, fname, args):
    st.frames = []
    ex.call(st, fname, args)
    return ex.run(st)


def table(fname):
    """execute the function on a symbolic operator: {variant: (l, r)}"""
    st = ex.new_state()
    op = st.fresh('BinaryOp', 'op')
    res = run(st, fname, [op])
    ck.note_path_problem(res, fname)
    out = {}
    for r in res:
        if r.status != 'return':
            continue
        l, rr = r.retval.fields[0].v, r.retval.fields[1].v
        for v in OPS:
            idx = P.variant_index('BinaryOp', v)
            if ex.solver.check(r.pc, op.disc == idx) == z3.sat:
                out[v] = (r.pc, op.disc == idx, l, rr)
    return out


f_expr = next(f for f in P.fns if f.name == 'expr::infix_binding_power' or f.canon == 'expr::infix_binding_power')
f_parser = next(f for f in P.fns if f.name == 'parser::infix_binding_power' or f.canon == 'parser::infix_binding_power')
tabs = {'expr.rs': table(f_expr), 'parser.rs': table(f_parser)}
st = ex.new_state()
pres = run(st, 'prefix_binding_power', [])
prefix = pres[0].retval.v if pres and pres[0].status == 'return' else None

# The numeric tables are an implementation detail (renumbering that keeps the order is harmless), so they are
# reported as diagnostics; the gating obligations are the grouping checks on the real Pratt loops below.
diag = {}
for name, tab in tabs.items():
    if sorted(tab) != sorted(OPS):
        ck.inconclusive.append(f'{name}: table has no entry for {sorted(set(OPS) - set(tab))}')
    cv = {v: (z3.simplify(t[2]).as_long(), z3.simplify(t[3]).as_long()) for v, t in tab.items() if z3.is_bv_value(z3.simplify(t[2]))}
    diag[name] = {
        'left_assoc_r_eq_l_plus_1': all(r == l + 1 for l, r in cv.values()),
        'levels_match_module_comment': all(((cv[a][0] == cv[b][0]) if level_of[a] == level_of[b] else ((cv[a][0] < cv[b][0]) == (level_of[a] < level_of[b])))
                                           for a in cv for b in cv if a in level_of and b in level_of),
        'matches_book_table': all(cv[v] == (row[2], row[3]) for row in book_rows for v in row[1] if v in cv),
        'prefix_above_infix': prefix is not None and z3.is_bv_value(z3.simplify(prefix)) and all(z3.simplify(prefix).as_long() > max(l, r) for l, r in cv.values()),
    }
diag['copies_agree'] = all(str(z3.simplify(tabs['expr.rs'][v][2])) == str(z3.simplify(tabs['parser.rs'][v][2])) for v in OPS if v in tabs['expr.rs'] and v in tabs['parser.rs'])
ck.notes.append({'binding_power_table_diagnostics (not gating)': diag})
ck.sample({'table(expr.rs)': {v: [z3.simplify(t[2]).as_long(), z3.simplify(t[3]).as_long()] for v, t in tabs['expr.rs'].items() if z3.is_bv_value(z3.simplify(t[2]))}})

exec(open(os.path.join(os.path.dirname(os.path.abspath(__file__)), 'c15_pratt.py')).read())

# native replay: parse the same operator sequence as text with both real parsers
var2sym = {v: k for k, v in sym2var.items()}
SYM_PREFIX = {'Minus': '-', 'Not': 'NOT', 'Bang': '!', 'Tilde': '~'}
for v in ck.violations:
    w = v['witness']
    if 'postfix' in w:
        if w['prefixes']:
            text = SYM_PREFIX[w['prefixes'][0]] + ' 0 ' + w['postfix']
            want = {'unary': PREFIX_OP[w['prefixes'][0]], 'of': {'postfix': w['postfix'], 'of': 0}}
        else:
            text = '0 ' + var2sym[w['ops'][0]] + ' 1 ' + w['postfix']
            want = [w['ops'][0], 0, {'postfix': w['postfix'], 'of': 1}]
        rep = Replay.call({'op': 'parse_grouping', 'text': text})
        v['native'] = dict(rep, text=text)
        v['replayed'] = rep.get('expr_parser') != want or rep.get('stmt_parser') != want
        continue
    if 'special' in w:
        text = '0 ' + ('NOT ' if w['negated'] else '') + ('BETWEEN 1 AND 2 ' if w['special'] == 'Between' else 'LIKE 1 ') + w['postfix']
        rep = Replay.call({'op': 'parse_grouping', 'text': text})
        v['native'] = dict(rep, text=text)
        shape = lambda t: isinstance(t, dict) and t.get('special') == w['special'] and isinstance(t.get('last'), dict) and t['last'].get('postfix') == w['postfix']
        v['replayed'] = not shape(rep.get('expr_parser')) or not shape(rep.get('stmt_parser'))
        continue
    if 'prefixes' in w:
        text = ' '.join(SYM_PREFIX[p_] for p_ in w['prefixes']) + ' 0'
        rep = Replay.call({'op': 'parse_grouping', 'text': text})
        v['native'] = dict(rep, text=text)
        want = {'unary': PREFIX_OP[w['prefixes'][0]], 'of': {'unary': PREFIX_OP[w['prefixes'][1]], 'of': 0}}
        v['replayed'] = rep.get('expr_parser') != want or rep.get('stmt_parser') != want
        continue
    if 'ops' not in w:
        continue
    pre = w.get('prefix')
    text = (var2sym_prefix[pre] + ' ' if pre else '') + ' '.join(x for i, o in enumerate(w['ops'] + [None]) for x in ([str(i)] + ([var2sym[o]] if o else [])))
    rep = Replay.call({'op': 'parse_grouping', 'text': text})
    v['native'] = dict(rep, text=text)

    def conv(t):
        if isinstance(t, list):
            return (t[0], conv(t[1]), conv(t[2]))
        return t
    bad = False
    for key in ('expr_parser', 'stmt_parser'):
        t = rep.get(key)
        if t is None:
            bad = True
            continue
        t = conv(t)
        try:
            if pre:
                bad = bad or not (isinstance(t, tuple) and isinstance(t[2], int))
            else:
                bad = bad or not well_grouped(t)
        except Exception:
            bad = True
    v['replayed'] = bad

ck.functions += ['expr::infix_binding_power', 'parser::infix_binding_power', 'expr::prefix_binding_power']
if __name__ == '__main__':
    ck.finish()
