"""C18 — path queries return optimal paths: the priority-queue order of the weighted search.
DijkstraEntry::{cmp, partial_cmp} executed from graph_engine's MIR over all f64 bit patterns."""
import sys
import os
sys.path.insert(0, os.path.dirname(os.path.dirname(os.path.abspath(__file__))))
from props.common import *

ck = Check('C18')
ex = ck.executor('graph_engine', unroll=8)
P = ex.prog
ck.bounds = {'cost': 'every f64 bit pattern (NaN payloads, +-0, +-inf, subnormals)', 'node id': 'every u64'}
ck.assumptions = ['f64::total_cmp modelled as the IEEE-754 totalOrder on the bit pattern (sign-magnitude flip, as in std)',
                  'NOT decided: the searches themselves (find_weighted_path, BFS, A*, component/MST/k-core/triangle algorithms) run over adjacency lists in TensorStore',
                  'BinaryHeap pops a maximum with respect to Ord: assumed from std']
FC, FN = P.field('DijkstraEntry', 'cost'), P.field('DijkstraEntry', 'node_id')


def entry(st, name):
    bits = z3.BitVec(name + '.bits', 64)
    x = z3.fpBVToFP(bits, z3.Float64())
    st.env.setdefault('fbits', {})[('fbits', x.get_id())] = bits
    e = Struct('DijkstraEntry', {FC: Flt(x), FN: Int(z3.BitVec(name + '.id', 64), False)})
    return e, bits


def cmp_term(st0, a, b, fn='<DijkstraEntry as Ord>::cmp'):
    """fold all paths of cmp(a,b) into one z3 term (discriminant -1/0/1)"""
    st = st0.clone()
    st.frames = []
    ex.call(st, fn, [ref(st.roots[a]), ref(st.roots[b])])
    res = ex.run(st)
    ck.note_path_problem(res, fn)
    base = len(st0.pc)
    t = z3.BitVecVal(7, 64)
    for r in res:
        if r.status == 'panic':
            ck.inconclusive.append('cmp can panic: ' + str(r.msg))
            continue
        if r.status != 'return':
            continue
        rv = r.retval
        if fn.endswith('partial_cmp'):
            if not (isinstance(rv.disc, int) and rv.disc == 1):
                t = z3.If(z3.And(r.pc[base:]) if r.pc[base:] else z3.BoolVal(True), z3.BitVecVal(9, 64), t)
                continue
            rv = rv.fields[('Some', 0)]
        d = rv.disc if not isinstance(rv.disc, int) else z3.BitVecVal(rv.disc, 64)
        t = z3.If(z3.And(r.pc[base:]) if r.pc[base:] else z3.BoolVal(True), d, t)
    return t, len(res)


st0 = ex.new_state()
bits = {}
for n in 'abc':
    st0.roots[n], bits[n] = entry(st0, n)
ids = {n: st0.roots[n].fields[FN].v for n in 'abc'}
cab, n1 = cmp_term(st0, 'a', 'b')
cba, _ = cmp_term(st0, 'b', 'a')
cbc, _ = cmp_term(st0, 'b', 'c')
cac, _ = cmp_term(st0, 'a', 'c')
caa, _ = cmp_term(st0, 'a', 'a')
pab, _ = cmp_term(st0, 'a', 'b', '<DijkstraEntry as PartialOrd>::partial_cmp')
wit = lambda m: {n: {'cost_bits': hex(mval(m, bits[n])), 'node_id': mval(m, ids[n])} for n in 'abc'}
pc = st0.pc
ck.declare('O1_total_order', 'all bit patterns', 'cmp is reflexive, antisymmetric, transitive and total (never fails to decide)')
ck.declare('O2_cheapest_first', 'all non-NaN costs', 'smaller cost => Greater (popped first from the max-heap); equal costs => larger node id first; NaN never outranks a finite cost... (NaN ordered by total order)')
ck.declare('O3_partial_cmp_consistent', 'all bit patterns', 'partial_cmp(a,b) = Some(cmp(a,b))')
valid = lambda t: z3.Or(t == -1, t == 0, t == 1)
ck.require(ex, 'O1_total_order', pc, None, z3.And(valid(cab), caa == 0), wit, lambda m, w: 'reflexive')
ck.require(ex, 'O1_total_order', pc, None, cab == -cba, wit, lambda m, w: 'antisymmetric')
ck.require(ex, 'O1_total_order', pc, z3.And(cab == 1, cbc == 1), cac == 1, wit, lambda m, w: 'transitive')
ck.require(ex, 'O1_total_order', pc, z3.And(cab == 0, cbc == 0), cac == 0, wit, lambda m, w: 'transitive-eq')
ck.require(ex, 'O1_total_order', pc, cab == 0, z3.And(bits['a'] == bits['b'], ids['a'] == ids['b']), wit, lambda m, w: 'equal-means-identical')
fa, fb = z3.fpBVToFP(bits['a'], z3.Float64()), z3.fpBVToFP(bits['b'], z3.Float64())
nonan = z3.And(z3.Not(z3.fpIsNaN(fa)), z3.Not(z3.fpIsNaN(fb)))
ck.require(ex, 'O2_cheapest_first', pc, z3.And(nonan, z3.fpLT(fa, fb)), cab == 1, wit, lambda m, w: 'cheaper-not-first')
ck.require(ex, 'O2_cheapest_first', pc, z3.And(bits['a'] == bits['b'], z3.UGT(ids['a'], ids['b'])), cab == 1, wit, lambda m, w: 'tie-break')
# a NaN cost must not be popped before a finite non-negative cost (a positive-sign NaN sorts above +inf in totalOrder)
posnan = z3.And(z3.fpIsNaN(fa), z3.Extract(63, 63, bits['a']) == 0)
ck.require(ex, 'O2_cheapest_first', pc, z3.And(posnan, z3.Not(z3.fpIsNaN(fb))), cab == -1, wit, lambda m, w: 'nan-first')
ck.require(ex, 'O3_partial_cmp_consistent', pc, None, pab == cab, wit, lambda m, w: 'partial-cmp')
rr, m = ex.solver.model(pc, cab == 1)
if m is not None:
    ck.sample({'cover: a outranks b': wit(m)})
else:
    ck.inconclusive.append('vacuous: Greater is never produced')

# ------------------------------------------------------------------ P1: find_path
exec(open(os.path.join(os.path.dirname(os.path.abspath(__file__)), 'c18_paths.py')).read())

for v in ck.violations:
    if v['witness'].get('graph_call') == 'find_weighted_path':
        rep = Replay.call({**v['witness'], 'op': 'graph_weighted_path'})
        v['native'] = rep
        v['replayed'] = rep.get('violates')
        continue
    if v['witness'].get('graph_call') == 'count_triangles':
        rep = Replay.call({**v['witness'], 'op': 'graph_triangles'})
        v['native'] = rep
        v['replayed'] = rep.get('violates')
        continue
    if v['witness'].get('graph_call') == 'astar_parallel':
        rep = Replay.call({**v['witness'], 'op': 'graph_astar_parallel'})
        v['native'] = rep
        v['replayed'] = rep.get('violates')
        continue
    if v['witness'].get('graph_call') in ('find_path', 'find_variable_paths'):
        rep = Replay.call({**v['witness'], 'op': 'graph_find_path' if v['witness']['graph_call'] == 'find_path' else 'graph_variable_paths'})
        v['native'] = rep
        v['replayed'] = rep.get('violates')
        continue
    rep = Replay.call({'op': 'dijkstra_cmp', **v['witness']})
    v['native'] = rep
    v['replayed'] = rep.get('violates')
ck.functions += ['<DijkstraEntry as Ord>::cmp', '<DijkstraEntry as PartialOrd>::partial_cmp']
ck.notes.append(f'cmp explored on {n1} paths')
if __name__ == '__main__':
    ck.finish()
